package rules

import (
	"go/ast"
	"go/constant"
	"go/token"
	"go/types"
	"strings"

	"engcheck/core"

	"golang.org/x/tools/go/types/typeutil"
)

func init() {
	register("C08", func(c *core.Ctx, tier string) {
		checkUnderFlushMu(c, "C08.10")
		upgradeAttemptConcludedOnce(c, "C08.12")
		c19Cancelled(c, "C08.11") // a cancelled upgrade timeout does not fire
		serverEffects(c, "C08.8")
		c08Gate(c)
		c08SwitchOnlyOnUpgrade(c)
		c08Probe(c)
		c08Cleanup(c)
		c08UpgradeBranchWiring(c, "C08.4b")
		c08AtomicClaim(c)
		c08FlagCover(c, "C08.5b")
		c08ListenerBeforeReader(c)
		c01Handoff(c)           // C08.7 = C01.7
		takeAndSend(c, "C08.9") // no message lost across the switch: a flush in progress hands its batch to the transport that is current at the hand-off
	})
}

// boolMethodGuard: condition is a call of a method named name (on anything);
// true edge establishes want.
func boolMethodGuard(name string, want bool) core.Guard {
	return func(u *core.Unit, br core.Branch) int {
		if br.IsCase {
			return 0
		}
		ce, key := u.AsCall(br.Cond)
		if ce == nil || !strings.HasSuffix(key, "."+name) {
			return 0
		}
		if want {
			return 1
		}
		return -1
	}
}

func c08Gate(c *core.Ctx) {
	const R = "C08.1"
	c.Rule(R, "gate (sibling agreement onWebSocket ∥ OnWebTransportSession): MaybeUpgrade is dominated by clients.Load(id) found ∧ !Upgrading() ∧ !Upgraded() ∧ Upgrades(client.Transport().Name()).Has(candidate transport) ∧ CreateTransport err == nil; every failing edge closes the candidate connection and cannot reach MaybeUpgrade")
	for _, k := range []string{srvOnWS, srvOnWT} {
		u := c.Fn(R, k)
		if u == nil {
			continue
		}
		g := u.Graph()
		var mu *core.Call
		for _, cl := range u.Calls() {
			if cl.Name == "MaybeUpgrade" {
				mu = cl
			}
		}
		if !c.Exists(R, k+"/MaybeUpgrade-present", u.Pos(), mu != nil, "upgrade entry point reached from this handler") {
			continue
		}
		var ct *core.Call
		for _, cl := range u.Calls() {
			if cl.Name == "CreateTransport" && g.Dominates(cl.Loc, mu.Loc) {
				ct = cl
			}
		}
		conds := map[string]bool{
			"found":      g.GuardedBy(mu.Loc, okOfLoad()),
			"!Upgrading": g.GuardedBy(mu.Loc, boolMethodGuard("Upgrading", false)),
			"!Upgraded":  g.GuardedBy(mu.Loc, boolMethodGuard("Upgraded", false)),
			"created":    ct != nil && g.GuardedBy(mu.Loc, nilGuard(false, func(x *core.Unit, e ast.Expr) bool { return tupleOf(x, e, ct.Expr, 1) })),
			// the session's current transport offers this upgrade (empty when upgrades are disabled; a websocket session
			// offers none) — fix 3f64a39
			"offered": g.GuardedBy(mu.Loc, upgradeOffered(true)),
		}
		for name, ok := range conds {
			c.Check(R, keyf("%s/gate:%s", k, name), mu.Pos(), ok, "MaybeUpgrade only on this edge")
		}
		// the candidate given to MaybeUpgrade is the created transport
		c.Check(R, k+"/MaybeUpgrade(created-transport)", mu.Pos(), ct != nil && tupleOf(u, mu.Arg(0), ct.Expr, 0), "the candidate is the transport created for this connection")
		// failing edges close the connection: on each refusing edge a Close/CloseWithError is the only effect
		closes := 0
		for _, cl := range u.Calls() {
			if (cl.Name == "Close" || cl.Name == "CloseWithError") && !g.Dominates(cl.Loc, mu.Loc) && !g.CanFollow(cl.Loc, mu.Loc) {
				closes++
			}
		}
		c.Check(R, k+"/refusing-edges-close-candidate", u.Pos(), closes >= 5, keyf("%d connection closes on edges that cannot reach MaybeUpgrade (unknown / upgrading / upgraded / not offered / create failure)", closes))
		// each refusing edge closes the candidate itself (a refused candidate that is merely dropped stays connected, unanswered, forever)
		refusals := []struct {
			name  string
			guard core.Guard
		}{
			{"unknown-session", notFound()},
			{"upgrading", boolMethodGuard("Upgrading", true)},
			{"upgraded", boolMethodGuard("Upgraded", true)},
			{"not-offered", upgradeOffered(false)},
		}
		if ct != nil {
			refusals = append(refusals, struct {
				name  string
				guard core.Guard
			}{"create-failure", nilGuard(true, func(x *core.Unit, e ast.Expr) bool { return tupleOf(x, e, ct.Expr, 1) })})
		}
		for _, rf := range refusals {
			closed := false
			for _, cl := range u.Calls() {
				if (cl.Name == "Close" || cl.Name == "CloseWithError") && g.GuardedBy(cl.Loc, rf.guard) && !g.CanFollow(cl.Loc, mu.Loc) {
					closed = true
				}
			}
			c.Check(R, keyf("%s/refused(%s)→close-candidate", k, rf.name), u.Pos(), closed, "the refused candidate's connection is closed on this edge")
		}
	}
}

func c08SwitchOnlyOnUpgrade(c *core.Ctx) {
	const R = "C08.2"
	c.Rule(R, "the session's transport changes only on an UPGRADE packet of the candidate: transport.Store only in setTransport; in MaybeUpgrade's packet listener setTransport(candidate) and upgraded.Store(true) are dominated by data.Type == UPGRADE ∧ ReadyState() != closed; upgraded is never reset")
	for _, u := range c.P.Units {
		for _, cl := range fieldCalls(u, "socket.transport") {
			if cl.Name == "Store" || cl.Name == "Swap" || cl.Name == "CompareAndSwap" {
				c.Check(R, keyf("%s/transport.%s", u.Key, cl.Name), cl.Pos(), u.Key == sockSetTr, "only setTransport installs a transport")
			}
		}
		for _, cl := range fieldCalls(u, "socket.upgraded") {
			if cl.Name != "Store" {
				continue
			}
			v, isC := core.ConstBool(u.Info(), cl.Arg(0))
			c.Check(R, keyf("%s/upgraded.Store(%v)", u.Key, v), cl.Pos(), isC && v && u.Key == sockUpgrade+"$onPacket", "upgraded is set (never reset) only by the upgrade branch")
		}
	}
	op := c.Fn(R, sockUpgrade+"$onPacket")
	if op == nil {
		return
	}
	g := op.Graph()
	isData := func(x *core.Unit, e ast.Expr) bool {
		d, ok := x.SingleDef(e)
		if !ok {
			return false
		}
		_, isTA := ast.Unparen(d).(*ast.TypeAssertExpr)
		return isTA
	}
	upg := pktTypeIs("upgrade", isData)
	n := 0
	for _, cl := range op.Calls() {
		if cl.Key != sockSetTr && !(cl.Name == "Store" && cl.Recv != nil && fieldOf(op.Info(), cl.Recv) == "socket.upgraded") {
			continue
		}
		n++
		ok := g.GuardedBy(cl.Loc, upg) && excludesAll(g, cl.Loc, sockStateKeys, "socket.readyState", "closed")
		c.Check(R, keyf("%s$onPacket/%s-only-on-UPGRADE∧not-closed", sockUpgrade, cl.Name), cl.Pos(), ok, "switch only upon the candidate's upgrade packet while the session is not closed")
		if cl.Key == sockSetTr {
			c.Check(R, sockUpgrade+"$onPacket/setTransport(candidate)", cl.Pos(), isCandidate(op, cl.Arg(0)), "the installed transport is the candidate passed to MaybeUpgrade")
		}
	}
	c.Need(R, "switch actions in the upgrade listener", n, 2)
}

// isCandidate: e is MaybeUpgrade's transport parameter.
func isCandidate(u *core.Unit, e ast.Expr) bool {
	v, ok := u.IsParam(e)
	if !ok {
		return false
	}
	root := u.Root()
	return root.Key == sockUpgrade && v.Name() == paramName(root, 0)
}

func c08Probe(c *core.Ctx) {
	const R = "C08.3"
	c.Rule(R, "probe handling: on the PING ∧ \"probe\" edge exactly one PONG \"probe\" is sent on the candidate (transport.Send, not s.Transport().Send), upgrading is emitted, and the check interval is (re)armed after clearing the previous one; the check body sends a NOOP only when the current transport is polling and writable")
	op := c.Fn(R, sockUpgrade+"$onPacket")
	if op == nil {
		return
	}
	info := op.Info()
	g := op.Graph()
	isData := func(x *core.Unit, e ast.Expr) bool {
		d, ok := x.SingleDef(e)
		_, isTA := ast.Unparen(d).(*ast.TypeAssertExpr)
		return ok && isTA
	}
	ping := pktTypeIs("ping", isData)
	probe := func(x *core.Unit, br core.Branch) int {
		cmp, ok := x.BranchCmp(br)
		if !ok || cmp.Val == nil || trimQuotes(cmp.Val.ExactString()) != "probe" {
			return 0
		}
		if cmp.Op == token.EQL {
			return 1
		}
		if cmp.Op == token.NEQ {
			return -1
		}
		return 0
	}
	var sends []*core.Call
	for _, cl := range op.CallsTo("transports.(Transport).Send") {
		if g.GuardedBy(cl.Loc, ping) && g.GuardedBy(cl.Loc, probe) {
			sends = append(sends, cl)
		}
	}
	ok := len(sends) == 1 && isCandidate(op, sends[0].Recv)
	if ok {
		// the packet literal: Type PONG, data "probe" — written in place, or returned by a novel private helper
		lit := ast.Node(sends[0].Arg(0))
		litInfo := info
		if ce, isC := ast.Unparen(sends[0].Arg(0)).(*ast.CallExpr); isC {
			if f, _ := typeutil.Callee(info, ce).(*types.Func); f != nil && core.IsNovel(f) {
				if h := c.P.UnitOf(f); h != nil && h.Pkg == op.Pkg && len(returnsIn(h)) == 1 && len(returnsIn(h)[0].Stmt.Results) == 1 {
					c.Touch(h)
					lit, litInfo = returnsIn(h)[0].Stmt.Results[0], h.Info()
				}
			}
		}
		ok = false
		ast.Inspect(lit, func(n ast.Node) bool {
			if kv, isKV := n.(*ast.KeyValueExpr); isKV {
				if k, _ := kv.Key.(*ast.Ident); k != nil && k.Name == "Type" && pktConst(litInfo, kv.Value, "pong") {
					ok = true
				}
			}
			return true
		})
		hasProbe := false
		ast.Inspect(lit, func(n ast.Node) bool {
			if e, isE := n.(ast.Expr); isE {
				if s, isS := core.ConstString(litInfo, e); isS && s == "probe" {
					hasProbe = true
				}
			}
			return true
		})
		ok = ok && hasProbe
	}
	c.Check(R, sockUpgrade+"$onPacket/probe→PONG(probe)@candidate", op.Pos(), ok, keyf("%d Send on the probe edge, on the candidate, carrying PONG \"probe\"", len(sends)))
	upEv := filterEv(events(c, op), "emit", "session", "upgrading")
	c.Check(R, sockUpgrade+"$onPacket/probe→emit(upgrading)", op.Pos(), len(upEv) == 1 && g.GuardedBy(upEv[0].Loc, probe), "upgrading is announced on the probe edge")
	// check interval
	var store, clr *core.Call
	for _, cl := range op.Calls() {
		if cl.Name == "Store" && timerHolder(info, cl.Recv) == "checkIntervalTimer" {
			store = cl
		}
		if (cl.Key == clearIVKey || cl.Key == clearTOKey) && timerHolder(info, cl.Arg(0)) == "checkIntervalTimer" {
			clr = cl
		}
	}
	okIv := store != nil && clr != nil && g.Dominates(clr.Loc, store.Loc) && g.GuardedBy(store.Loc, probe)
	if okIv {
		ce, key := op.AsCall(store.Arg(0))
		okIv = key == setIntervalKey && ce != nil && len(ce.Args) == 2 && isLocal(info, ce.Args[0], "check")
	}
	c.Check(R, sockUpgrade+"$onPacket/probe→(re)arm-check-interval", op.Pos(), okIv, "ClearInterval(previous) ≺ Store(SetInterval(check, …))")
	// the interval stays armed until cleanup: nobody else clears it
	for _, x := range op.Root().AllUnits() {
		for _, cl := range x.CallsTo(clearIVKey, clearTOKey, timerStopKey) {
			arg := cl.Arg(0)
			if cl.Key == timerStopKey {
				arg = cl.Recv
			}
			if arg == nil || timerHolder(x.Info(), arg) != "checkIntervalTimer" {
				continue
			}
			okSite := x.Key == sockUpgrade+"$cleanup" || (x == op && store != nil && g.Dominates(cl.Loc, store.Loc))
			c.Check(R, keyf("%s/clears-check-interval", x.Key), cl.Pos(), okSite, "the noop interval is cleared only by cleanup or right before it is re-armed: otherwise a poll left pending later in the upgrade is never released")
		}
	}
	ck := c.Fn(R, sockUpgrade+"$check")
	if ck != nil {
		cg := ck.Graph()
		okCk := false
		for _, cl := range ck.CallsTo("transports.(Transport).Send") {
			polling := cg.GuardedBy(cl.Loc, func(x *core.Unit, br core.Branch) int {
				cmp, k := x.BranchCmp(br)
				if !k || cmp.Val == nil || trimQuotes(cmp.Val.ExactString()) != "polling" {
					return 0
				}
				ch := calleeChain(x, cmp.X)
				if len(ch) == 2 && strings.HasSuffix(ch[0], ".Transport") && strings.HasSuffix(ch[1], ".Name") && cmp.Op == token.EQL {
					return 1
				}
				return 0
			})
			noop := false
			ast.Inspect(cl.Arg(0), func(n ast.Node) bool {
				if kv, isKV := n.(*ast.KeyValueExpr); isKV && pktConst(ck.Info(), kv.Value, "noop") {
					noop = true
				}
				return true
			})
			cur := false
			if ce, isC := ast.Unparen(cl.Recv).(*ast.CallExpr); isC && ck.CalleeKey(ce) == "engine.(*socket).Transport" {
				cur = true
			}
			// the writability tested is that of the session's CURRENT transport (the polling one that holds the pending poll), not the candidate's
			curWritable := func(x *core.Unit, br core.Branch) int {
				if br.IsCase {
					return 0
				}
				ce, key := x.AsCall(br.Cond)
				if ce == nil || !strings.HasSuffix(key, ".Writable") {
					return 0
				}
				se, isS := ast.Unparen(ce.Fun).(*ast.SelectorExpr)
				if !isS {
					return 0
				}
				if rc, isC := ast.Unparen(x.Resolve(se.X)).(*ast.CallExpr); isC && x.CalleeKey(rc) == "engine.(*socket).Transport" {
					return 1
				}
				return 0
			}
			okCk = polling && noop && cur && cg.GuardedBy(cl.Loc, curWritable)
		}
		c.Check(R, sockUpgrade+"$check/NOOP-only-when-polling∧writable", ck.Pos(), okCk, "a pending poll is released on the current (polling, writable) transport")
	}
}

func c08Cleanup(c *core.Ctx) {
	const R = "C08.4"
	c.Rule(R, "every non-switch outcome cleans up and closes only the candidate: the listener's else-edge, onError (also reached from onTransportClose and onClose) and the upgrade-timeout callback each do cleanup() ≺ transport.Close() on the candidate variable and never s.Transport().Close / s.Close / s.OnClose; cleanup = {upgrading.Store(false), ClearInterval(check), ClearTimeout(upgradeTimeout), RemoveListener ×3 on the candidate, ×1 on the session}; the UPGRADE edge calls cleanup() first")
	mu := c.Fn(R, sockUpgrade)
	if mu == nil {
		return
	}
	cu := c.KidOf(R, mu, "cleanup")
	if cu != nil {
		info := cu.Info()
		var falseStore, clrI, clrT bool
		for _, cl := range cu.Calls() {
			if cl.Name == "Store" && cl.Recv != nil && fieldOf(info, cl.Recv) == "socket.upgrading" {
				if v, ok := core.ConstBool(info, cl.Arg(0)); ok && !v {
					falseStore = true
				}
			}
			if (cl.Key == clearIVKey || cl.Key == clearTOKey) && timerHolder(info, cl.Arg(0)) == "checkIntervalTimer" {
				clrI = true
			}
			if (cl.Key == clearIVKey || cl.Key == clearTOKey) && timerHolder(info, cl.Arg(0)) == "upgradeTimeoutTimer" {
				clrT = true
			}
		}
		rem := regSites(c, cu, "remove")
		nCand, nSess := 0, 0
		for _, r := range rem {
			if r.ev.Class == "transport" {
				nCand++
			}
			if r.ev.Class == "session" {
				nSess++
			}
		}
		c.Check(R, sockUpgrade+"$cleanup/contents", cu.Pos(), falseStore && clrI && clrT && nCand == 3 && nSess == 1,
			keyf("upgrading=false:%v ClearInterval(check):%v ClearTimeout(upgradeTimeout):%v RemoveListener candidate×%d session×%d", falseStore, clrI, clrT, nCand, nSess))
	}
	type exit struct {
		key  string
		unit *core.Unit
	}
	var exits []exit
	if k := mu.Kid("onError"); k != nil {
		exits = append(exits, exit{"onError", k})
	}
	for _, cl := range mu.CallsTo(setTimeoutKey) {
		if k := closureArg(mu, cl, 0); k != nil {
			exits = append(exits, exit{"upgrade-timeout", k})
		}
	}
	for _, ex := range exits {
		c.Touch(ex.unit)
		g := ex.unit.Graph()
		var cln *core.Call
		var closes []*core.Call
		bad := 0
		for _, cl := range ex.unit.Calls() {
			if cl.Callee == nil && cl.Name == "cleanup" {
				cln = cl
			}
			if cl.Key == "transports.(Transport).Close" {
				if isCandidate(ex.unit, cl.Recv) {
					closes = append(closes, cl)
				} else {
					bad++
				}
			}
			if cl.Key == sockClose || cl.Key == sockOnClose {
				bad++
			}
		}
		ok := cln != nil && len(closes) >= 1 && bad == 0
		for _, cc := range closes {
			ok = ok && g.Dominates(cln.Loc, cc.Loc)
		}
		// cleanup is unconditional: whatever the candidate's state, the session must stop being marked as upgrading —
		// except on the edge where another exit path has already concluded the attempt (and run the cleanup), fix dbd3d2b
		if ok {
			for _, r := range returnsIn(ex.unit) {
				ok = ok && (g.Dominates(cln.Loc, r.Loc) || g.GuardedBy(r.Loc, concludeWon(false)))
			}
		}
		// an open candidate is closed: a state test around the Close may skip a candidate that is not open, never one that is
		candOpen := func(x *core.Unit, br core.Branch) int {
			cmp, isCmp := x.BranchCmp(br)
			if !isCmp || cmp.Val == nil || cmp.Val.Kind() != constant.String || constant.StringVal(cmp.Val) != "open" {
				return 0
			}
			ce, _ := x.AsCall(cmp.X)
			if ce == nil || calleeNameOf(ce) != "ReadyState" {
				return 0
			}
			if se, isS := ce.Fun.(*ast.SelectorExpr); !isS || !isCandidate(x, se.X) {
				return 0
			}
			switch cmp.Op {
			case token.EQL:
				return 1
			case token.NEQ:
				return -1
			}
			return 0
		}
		for _, cc := range closes {
			ok = ok && !g.GuardedBy(cc.Loc, gNot(candOpen))
			// … and whether it is closed depends on nothing but the attempt being concluded here and the candidate itself
			// (non-nil, open): a test of anything else — the session's own transport, say — leaves an open candidate behind
			for _, f := range g.Facts() {
				if !g.EdgeDominates(f.Br.B, f.Edge, cc.Loc) {
					continue
				}
				if concludeWon(true)(ex.unit, f.Br) != 0 || concludeWon(false)(ex.unit, f.Br) != 0 || candOpen(ex.unit, f.Br) != 0 {
					continue
				}
				if cmp, isCmp := ex.unit.BranchCmp(f.Br); isCmp && cmp.Y != nil && core.IsNil(ex.unit.Info(), cmp.Y) && isCandidate(ex.unit, cmp.X) {
					continue
				}
				ok = false
			}
		}
		c.Check(R, keyf("%s$%s/cleanup≺candidate.Close", sockUpgrade, ex.key), ex.unit.Pos(), ok, keyf("cleanup first, then Close on the candidate only (%d other closes), and not on the edge where the candidate is not open", bad))
	}
	// onTransportClose and onClose delegate to onError
	for _, name := range []string{"onTransportClose", "onClose"} {
		if k := mu.Kid(name); k != nil {
			c.Touch(k)
			del := false
			for _, cl := range k.Calls() {
				if cl.Callee == nil && cl.Name == "onError" {
					del = true
				}
			}
			c.Check(R, keyf("%s$%s→onError", sockUpgrade, name), k.Pos(), del, "this outcome is handled by onError")
		} else {
			c.Violate(R, keyf("%s$%s→onError", sockUpgrade, name), mu.Pos(), "listener closure not found")
		}
	}
	// the packet listener: else-edge and UPGRADE edge
	op := c.KidOf(R, mu, "onPacket")
	if op != nil {
		g := op.Graph()
		var cleanups, closes []*core.Call
		bad := 0
		for _, cl := range op.Calls() {
			if cl.Callee == nil && cl.Name == "cleanup" {
				cleanups = append(cleanups, cl)
			}
			if cl.Key == "transports.(Transport).Close" {
				if isCandidate(op, cl.Recv) {
					closes = append(closes, cl)
				} else {
					bad++
				}
			}
			if cl.Key == sockClose {
				bad++
			}
		}
		// every candidate Close is preceded by a cleanup, except the forced close after a completed switch (closing state)
		okElse := false
		for _, cc := range closes {
			if len(cc.Expr.Args) == 0 {
				pre := false
				for _, cu := range cleanups {
					if g.Dominates(cu.Loc, cc.Loc) {
						pre = true
					}
				}
				okElse = pre
			}
		}
		c.Check(R, sockUpgrade+"$onPacket/else→cleanup≺candidate.Close", op.Pos(), okElse && bad == 0, "an unexpected packet closes only the candidate, after cleanup")
		var st *core.Call
		for _, cl := range op.CallsTo(sockSetTr) {
			st = cl
		}
		okUp := false
		if st != nil {
			for _, cu := range cleanups {
				if g.Dominates(cu.Loc, st.Loc) {
					okUp = true
				}
			}
		}
		c.Check(R, sockUpgrade+"$onPacket/UPGRADE→cleanup-first", op.Pos(), okUp, "the switch starts with cleanup()")
	}
}

func c08AtomicClaim(c *core.Ctx) {
	const R = "C08.5"
	c.Rule(R, "ATOMIC(test Upgrading, write upgrading=true): at most one candidate at a time under concurrent upgrade requests — MaybeUpgrade claims the session with upgrading.CompareAndSwap(false, true); on failure it closes the candidate and returns before installing anything; there is no plain upgrading.Store(true)")
	mu := c.Fn(R, sockUpgrade)
	if mu == nil {
		return
	}
	info := mu.Info()
	g := mu.Graph()
	var cas *core.Call
	for _, x := range c.P.Units {
		for _, cl := range fieldCalls(x, "socket.upgrading") {
			switch cl.Name {
			case "Store":
				if v, ok := core.ConstBool(x.Info(), cl.Arg(0)); !ok || v {
					c.Violate(R, keyf("%s/upgrading.Store(true)", x.Key), cl.Pos(), "the claim is a plain store: two candidates that both passed the server's Upgrading() test are both entertained")
				}
			case "CompareAndSwap":
				if x == mu {
					cas = cl
				}
			}
		}
	}
	ok := cas != nil
	if ok {
		o, ok1 := core.ConstBool(info, cas.Arg(0))
		n, ok2 := core.ConstBool(info, cas.Arg(1))
		ok = ok1 && ok2 && !o && n
	}
	if ok {
		// failure edge: Close on the candidate then return, before any registration
		failed := func(x *core.Unit, br core.Branch) int {
			if ast.Unparen(br.Cond) == cas.Expr {
				return -1
			}
			return 0
		}
		closed, returned := false, false
		for _, cl := range mu.CallsTo("transports.(Transport).Close") {
			if g.GuardedBy(cl.Loc, failed) && isCandidate(mu, cl.Recv) {
				closed = true
			}
		}
		for _, r := range returnsIn(mu) {
			if g.GuardedBy(r.Loc, failed) {
				returned = true
			}
		}
		won := func(x *core.Unit, br core.Branch) int { return -failed(x, br) }
		regsOK := true
		for _, e := range events(c, mu) {
			if (e.Kind == "on" || e.Kind == "once") && !g.GuardedBy(e.Loc, won) {
				regsOK = false
			}
		}
		ok = closed && returned && regsOK
	}
	c.Check(R, sockUpgrade+"/claim=CompareAndSwap(false,true)", mu.Pos(), ok, "the loser of the claim is closed and nothing is registered for it")
	_ = types.Universe
}

// c08FlagCover: from the moment a candidate wins the claim until the session
// is marked upgraded, at least one of the two flags the gate tests is set.
func c08FlagCover(c *core.Ctx, R string) {
	c.Rule(R, "flag cover (at most one switch per session under every interleaving): in the UPGRADE branch upgraded.Store(true) precedes the cleanup() that resets upgrading, so a later candidate sees at every moment upgrading ∨ upgraded; and MaybeUpgrade, after winning the CompareAndSwap claim, re-tests upgraded.Load() — on the true edge it closes the candidate and returns before registering anything (a candidate can pass the server's Upgraded() test before an earlier candidate completes the switch and claim afterwards)")
	mu := c.Fn(R, sockUpgrade)
	if mu == nil {
		return
	}
	op := c.KidOf(R, mu, "onPacket")
	if op != nil {
		g := op.Graph()
		var st, set *core.Call
		for _, cl := range op.CallsTo(sockSetTr) {
			st = cl
		}
		for _, cl := range fieldCalls(op, "socket.upgraded") {
			if v, ok := core.ConstBool(op.Info(), cl.Arg(0)); cl.Name == "Store" && ok && v {
				set = cl
			}
		}
		ok := st != nil && set != nil
		n := 0
		if ok {
			for _, cl := range op.Calls() {
				if cl.Callee == nil && cl.Name == "cleanup" && g.Dominates(cl.Loc, st.Loc) {
					n++
					ok = ok && g.Dominates(set.Loc, cl.Loc)
				}
			}
		}
		pos := op.Pos()
		if set != nil {
			pos = set.Pos()
		}
		c.Check(R, sockUpgrade+"$onPacket/upgraded.Store(true)≺cleanup()", pos, ok && n >= 1, "upgraded is set before cleanup() resets upgrading: no moment with both flags clear between the claim and the switch")
	}
	g := mu.Graph()
	isUpgradedLoad := func(x *core.Unit, e ast.Expr) bool {
		ce, _ := x.AsCall(e)
		if ce == nil {
			return false
		}
		se, ok := ast.Unparen(ce.Fun).(*ast.SelectorExpr)
		return ok && se.Sel.Name == "Load" && fieldOf(x.Info(), se.X) == "socket.upgraded"
	}
	already := func(x *core.Unit, br core.Branch) int {
		if !br.IsCase && isUpgradedLoad(x, br.Cond) {
			return 1
		}
		return 0
	}
	notYet := func(x *core.Unit, br core.Branch) int { return -already(x, br) }
	regs, regsOK := 0, true
	for _, e := range events(c, mu) {
		if e.Kind == "on" || e.Kind == "once" {
			regs++
			regsOK = regsOK && g.GuardedBy(e.Loc, notYet)
		}
	}
	closed, returned := false, false
	for _, cl := range mu.CallsTo("transports.(Transport).Close") {
		if g.GuardedBy(cl.Loc, already) && isCandidate(mu, cl.Recv) {
			closed = true
		}
	}
	for _, r := range returnsIn(mu) {
		if g.GuardedBy(r.Loc, already) {
			returned = true
		}
	}
	c.Check(R, sockUpgrade+"/re-test-upgraded-after-claim", mu.Pos(), regs >= 4 && regsOK && closed && returned, keyf("%d listener registrations, all on the !upgraded.Load() edge: %v; upgraded edge closes the candidate: %v and returns: %v", regs, regsOK, closed, returned))
}

func c08ListenerBeforeReader(c *core.Ctx) {
	readerStartedByConsumer(c, "C08.6")
}

// concludeWon: guard "conclude() returned want" — the claim of an upgrade
// attempt's single conclusion (fix dbd3d2b).
func concludeWon(want bool) core.Guard {
	return func(u *core.Unit, br core.Branch) int {
		if br.IsCase {
			return 0
		}
		ce, ok := ast.Unparen(u.Deep(br.Cond)).(*ast.CallExpr)
		if !ok {
			return 0
		}
		if !isLocal(u.Info(), ce.Fun, "conclude") { // the closure variable, under whatever name it has today (baseline rename recovery)
			return 0
		}
		if want {
			return 1
		}
		return -1
	}
}

// upgradeOffered: guard "Upgrades(<session>.Transport().Name()).Has(x) == want".
func upgradeOffered(want bool) core.Guard {
	return func(u *core.Unit, br core.Branch) int {
		if br.IsCase {
			return 0
		}
		ce, key := u.AsCall(br.Cond)
		if ce == nil || !strings.HasSuffix(key, ".Has") {
			return 0
		}
		se, ok := ce.Fun.(*ast.SelectorExpr)
		if !ok {
			return 0
		}
		inner, ikey := u.AsCall(se.X)
		if inner == nil || !strings.HasSuffix(ikey, ".Upgrades") || len(inner.Args) != 1 {
			return 0
		}
		// the argument names the session's current transport
		if _, nkey := u.AsCall(inner.Args[0]); !strings.HasSuffix(nkey, ".Name") {
			return 0
		}
		if want {
			return 1
		}
		return -1
	}
}
