package rules

import (
	"go/ast"
	"go/token"
	"strings"

	"engcheck/core"
)

func init() {
	register("C07", func(c *core.Ctx, tier string) {
		c07Durations(c)
		c07PingBody(c)
		c07BranchEffects(c)
		timerNilSafe(c, "C07.4")
		c19Protocol(c)           // C07.5: Refresh re-arms on every path (shared with C19.1)
		c19Cancelled(c, "C07.9") // a cancelled deadline does not fire, a Refresh does not revive it
		v3BinaryPayloadCodec(c, "C07.11", true)
		c19RefreshOnlyLive(c, "C07.12")
		c19AtomicDeadlineReplace(c, "C07.13")
		c03CloseEpilogue(c) // C07.6: both timers are cleared before the close event (C03.3)
		c07ClearTransport(c)
		c19WhoClears(c) // C07.7: nobody else cancels the heartbeat timers
		c19HolderWrites(c, "C07.8")
		c03AdmittedStates(c, "C07.2b", map[string]bool{"resetPingTimeout$callback/OnClose(ping timeout)": true})
	})
}

// optSum: e is a sum of Opts() accessors; returns their names sorted.
func optSum(u *core.Unit, e ast.Expr) []string {
	terms, k := linear(u.Info(), e)
	if k != 0 {
		return nil
	}
	var out []string
	for _, t := range terms {
		if t.Sign != 1 {
			return nil
		}
		n, perMs := optAccessor(u, t.E)
		if n == "" || perMs {
			return nil
		}
		out = append(out, n)
	}
	sortStrings(out)
	return out
}

func protocolIs3(want bool) core.Guard {
	return func(u *core.Unit, br core.Branch) int {
		cmp, ok := u.BranchCmp(br)
		if !ok || fieldOf(u.Info(), cmp.X) != "socket.protocol" || cmp.Val == nil || cmp.Val.String() != "3" {
			return 0
		}
		p := 0
		switch cmp.Op {
		case token.EQL:
			p = 1
		case token.NEQ:
			p = -1
		}
		if !want {
			p = -p
		}
		return p
	}
}

func c07Durations(c *core.Ctx) {
	const R = "C07.1"
	c.Rule(R, "duration table: schedulePing arms SetTimeout(…, Opts().PingInterval()); resetPingTimeoutDuration returns PingInterval()+PingTimeout() on the s.protocol == 3 edge and PingTimeout() otherwise; resetPingTimeout arms SetTimeout(…, s.resetPingTimeoutDuration())")
	if sp := c.Fn(R, "engine.(*socket).schedulePing"); sp != nil {
		ok := false
		for _, cl := range sp.CallsTo(setTimeoutKey) {
			d := optSum(sp, cl.Arg(1))
			ok = len(d) == 1 && d[0] == "PingInterval"
		}
		c.Check(R, "engine.(*socket).schedulePing/delay=PingInterval", sp.Pos(), ok, "the first ping (and each re-armed one) is due one ping interval later")
	}
	if rd := c.Fn(R, "engine.(*socket).resetPingTimeoutDuration"); rd != nil {
		g := rd.Graph()
		ok3, ok4 := false, false
		for _, r := range returnsIn(rd) {
			if len(r.Stmt.Results) != 1 {
				continue
			}
			d := strings.Join(optSum(rd, r.Stmt.Results[0]), "+")
			if d == "PingInterval+PingTimeout" && g.GuardedBy(r.Loc, protocolIs3(true)) {
				ok3 = true
			}
			if d == "PingTimeout" && !g.GuardedBy(r.Loc, protocolIs3(true)) {
				ok4 = true
			}
		}
		c.Check(R, "engine.(*socket).resetPingTimeoutDuration/table", rd.Pos(), ok3 && ok4 && len(returnsIn(rd)) == 2, keyf("v3: interval+timeout=%v; v4: timeout=%v", ok3, ok4))
	}
	if rp := c.Fn(R, "engine.(*socket).resetPingTimeout"); rp != nil {
		ok := false
		for _, cl := range rp.CallsTo(setTimeoutKey) {
			_, key := rp.AsCall(cl.Arg(1))
			ok = key == "engine.(*socket).resetPingTimeoutDuration"
		}
		c.Check(R, "engine.(*socket).resetPingTimeout/delay=resetPingTimeoutDuration()", rp.Pos(), ok, "the deadline uses the revision-dependent duration")
	}
}

func c07PingBody(c *core.Ctx) { pingBody(c, "C07.2") }

// pingBody (C07.2 = C03.16 = C12.10): the heartbeat keeps running, deadline included, until the session is closed.
func pingBody(c *core.Ctx, R string) {
	c.Rule(R, "ping body: the schedulePing callback does resetPingTimeout() ≺ sendPacket(PING), the former on every path and under no condition; the resetPingTimeout callback reaches OnClose(\"ping timeout\") on the not-closed edge and has no other effect")
	if sp := c.Fn(R, "engine.(*socket).schedulePing"); sp != nil {
		var cb *core.Unit
		for _, cl := range sp.CallsTo(setTimeoutKey) {
			cb = closureArg(sp, cl, 0)
		}
		ok := false
		if cb != nil {
			c.Touch(cb)
			g := cb.Graph()
			var ping, reset *core.Call
			for _, cl := range cb.Calls() {
				if cl.Key == sockSendPkt && pktConst(cb.Info(), cl.Arg(0), "ping") {
					ping = cl
				}
				if cl.Key == "engine.(*socket).resetPingTimeout" {
					reset = cl
				}
			}
			// the deadline is armed first (fix 693c3ae): a pong accepted while sendPacket → flush → listeners are still
			// running must find the deadline of THIS ping and clear it
			ok = ping != nil && reset != nil && g.Dominates(reset.Loc, ping.Loc)
			// … unconditionally: the deadline is armed on every path through the callback, whatever sendPacket did with the
			// ping (a closing session drops it, yet the deadline is what ends a closing session whose peer is gone)
			if ok {
				every := true
				for _, r := range returnsIn(cb) {
					every = every && g.Dominates(reset.Loc, r.Loc)
				}
				dep := ""
				for _, f := range g.Facts() {
					if g.EdgeDominates(f.Br.B, f.Edge, reset.Loc) {
						dep = core.ExprString(f.Br.Cond)
					}
				}
				c.Check(R, "engine.(*socket).schedulePing$callback/resetPingTimeout-unconditional", reset.Pos(), every && dep == "", keyf("armed on every path: %v; depends on: %q", every, dep))
			}
		}
		c.Check(R, "engine.(*socket).schedulePing$callback/resetPingTimeout≺PING", sp.Pos(), ok, "each ping's deadline is armed before the ping is handed to the transport")
	}
	if rp := c.Fn(R, "engine.(*socket).resetPingTimeout"); rp != nil {
		var cb *core.Unit
		for _, cl := range rp.CallsTo(setTimeoutKey) {
			cb = closureArg(rp, cl, 0)
		}
		ok := false
		if cb != nil {
			c.Touch(cb)
			g := cb.Graph()
			n := 0
			for _, cl := range cb.Calls() {
				if cl.Callee == nil || strings.HasSuffix(cl.Key, ".Debug") || cl.Key == "engine.(*socket).ReadyState" {
					continue
				}
				n++
				if cl.Key == sockOnClose {
					r, _ := core.ConstString(cb.Info(), cl.Arg(0))
					ok = r == "ping timeout" && excludesAll(g, cl.Loc, sockStateKeys, "socket.readyState", "closed")
				}
			}
			ok = ok && n == 1
		}
		c.Check(R, "engine.(*socket).resetPingTimeout$callback/OnClose(ping timeout)", rp.Pos(), ok, "the deadline closes the session with reason ping timeout unless it is already closed")
	}
}

func c07BranchEffects(c *core.Ctx) {
	const R = "C07.3"
	c.Rule(R, "branch-effect table in onPacket: PONG = {ClearTimeout(pingTimeoutTimer), pingIntervalTimer.Refresh(), Emit(heartbeat)} and no send; PING = {resetPingTimeout() — a new deadline: the pending one may have been cancelled by a transport upgrade, and a cancelled timer cannot be refreshed —, sendPacket(PONG), Emit(heartbeat)}; each wrong-direction edge = {onError(invalid heartbeat direction), return} with no timer, send or heartbeat effect")
	u := c.Fn(R, sockOnPacket)
	if u == nil {
		return
	}
	info := u.Info()
	g := u.Graph()
	isPing := pktTypeIs("ping", paramPkt(0))
	isPong := pktTypeIs("pong", paramPkt(0))
	type eff struct {
		cl   *core.Call
		what string
	}
	var effs []eff
	for _, cl := range u.Calls() {
		switch {
		case (cl.Key == clearTOKey || cl.Key == clearIVKey):
			effs = append(effs, eff{cl, "Clear(" + timerHolder(info, cl.Arg(0)) + ")"})
		case cl.Key == "utils.(*Timer).Refresh":
			effs = append(effs, eff{cl, "Refresh(" + timerHolder(info, u.Resolve(cl.Recv)) + ")"})
		case cl.Key == "engine.(*socket).resetPingTimeout":
			effs = append(effs, eff{cl, "rearm(pingTimeout)"})
		case cl.Key == sockSendPkt:
			t, _ := core.ConstString(info, cl.Arg(0))
			effs = append(effs, eff{cl, "send(" + t + ")"})
		case evKind(cl.Key) == "emit":
			ev, _ := core.ConstString(info, cl.Arg(0))
			if ev == "heartbeat" {
				effs = append(effs, eff{cl, "emit(heartbeat)"})
			}
		case cl.Key == "engine.(*socket).onError":
			effs = append(effs, eff{cl, "onError"})
		}
	}
	branch := func(gd core.Guard, okRev core.Guard) (got []string, errEdge []string) {
		for _, e := range effs {
			if !g.GuardedBy(e.cl.Loc, gd) {
				continue
			}
			if g.GuardedBy(e.cl.Loc, okRev) {
				got = append(got, e.what)
			} else {
				errEdge = append(errEdge, e.what)
			}
		}
		sortStrings(got)
		sortStrings(errEdge)
		return
	}
	pingOK, pingErr := branch(isPing, protocolIs3(true))
	pongOK, pongErr := branch(isPong, protocolIs3(false))
	c.Check(R, sockOnPacket+"/PING-effects", u.Pos(), strings.Join(pingOK, ",") == "emit(heartbeat),rearm(pingTimeout),send(pong)", keyf("right-direction PING edge: %v", pingOK))
	c.Check(R, sockOnPacket+"/PONG-effects", u.Pos(), strings.Join(pongOK, ",") == "Clear(socket.pingTimeoutTimer),Refresh(socket.pingIntervalTimer),emit(heartbeat)", keyf("right-direction PONG edge: %v", pongOK))
	c.Check(R, sockOnPacket+"/PING-wrong-direction", u.Pos(), strings.Join(pingErr, ",") == "onError", keyf("wrong-direction PING edge: %v", pingErr))
	c.Check(R, sockOnPacket+"/PONG-wrong-direction", u.Pos(), strings.Join(pongErr, ",") == "onError", keyf("wrong-direction PONG edge: %v", pongErr))
	// the wrong-direction edge returns right after onError
	for _, e := range effs {
		if e.what != "onError" {
			continue
		}
		// nothing follows the report: no timer, send or heartbeat effect is reachable after it (an explicit return, or the
		// end of the case in if/else form)
		retNext := true
		for _, o := range effs {
			if o.cl != e.cl && g.CanFollow(e.cl.Loc, o.cl.Loc) {
				retNext = false
			}
		}
		msg := ""
		if ce, isC := ast.Unparen(e.cl.Arg(0)).(*ast.CallExpr); isC {
			ast.Inspect(ce, func(n ast.Node) bool {
				if bl, isB := n.(*ast.BasicLit); isB && bl.Kind == token.STRING {
					msg = bl.Value
				}
				return true
			})
		}
		c.Check(R, keyf("%s/onError→return#%s", sockOnPacket, c.P.PosStr(e.cl.Pos())), e.cl.Pos(), retNext, keyf("transport error %s, and nothing after it", msg))
	}
	// onError closes with 'transport error'
	if oe := c.Fn(R, "engine.(*socket).onError"); oe != nil {
		ok := false
		for _, cl := range oe.CallsTo(sockOnClose) {
			r, _ := core.ConstString(oe.Info(), cl.Arg(0))
			ok = r == "transport error"
		}
		c.Check(R, "engine.(*socket).onError→OnClose(transport error)", oe.Pos(), ok, "a wrong-direction heartbeat closes the session with a transport error")
	}
}

func c07ClearTransport(c *core.Ctx) {
	const R = "C07.6"
	c.Rule(R, "the heartbeat belongs to the session, not to the transport: the transport switch of an upgrade (clearTransport ≺ setTransport in MaybeUpgrade's packet handler) leaves an armed ping deadline armed — clearTransport and what it calls cancel neither heartbeat timer — or arms a new one after setTransport (resetPingTimeout on the not-closed edge); OnClose cancels both timers itself (C03.3). With the deadline cancelled at the switch, a peer that falls silent right after an upgrade (revision 4: the server's ping outstanding; revision 3: always) is never closed (fix of this round; the rule used to require the cancellation, 'as upstream')")
	u := c.Fn(R, sockClearTr)
	if u == nil {
		return
	}
	cancels := 0
	for _, w := range u.WithHelpers() {
		for _, x := range w.AllUnits() {
			for _, cl := range x.CallsTo(clearTOKey, clearIVKey, timerStopKey) {
				arg := cl.Arg(0)
				if cl.Key == timerStopKey {
					arg = cl.Recv
				}
				for _, h := range []string{timerHolder(x.Info(), arg), timerHolder(x.Info(), x.Deep(arg))} {
					if h == "socket.pingTimeoutTimer" || h == "socket.pingIntervalTimer" {
						cancels++
						break
					}
				}
			}
		}
	}
	rearmed := false
	if mu := c.Fn(R, sockUpgrade); mu != nil {
		if op := mu.Kid("onPacket"); op != nil {
			g := op.Graph()
			for _, set := range op.CallsTo(sockSetTr) {
				for _, cl := range op.Calls() {
					if strings.HasSuffix(cl.Key, ".resetPingTimeout") && g.Dominates(set.Loc, cl.Loc) && g.GuardedBy(cl.Loc, gAfter(stateExcludes(sockStateKeys, "socket.readyState", "closed"), set.Pos())) {
						rearmed = true
					}
				}
			}
		}
	}
	c.Check(R, sockClearTr+"/heartbeat-deadline-survives-the-transport-switch", u.Pos(), cancels == 0 || rearmed, keyf("%d cancellation(s) of a heartbeat timer in clearTransport; deadline re-armed after setTransport: %v", cancels, rearmed))
}
