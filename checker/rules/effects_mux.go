package rules

import (
	"go/ast"
	"go/token"
	"strings"

	"engcheck/core"
)

// muxEffects — C05.7c: the request multiplexer that decides whether a request
// reaches the engine.
func muxEffects(c *core.Ctx, R string) {
	c.Rule(R, "mux table (types/serve.go, utils.CleanPath): match returns the exact entry on the ok edge of the map lookup, otherwise the first entry of mux.es whose pattern is a prefix of the path (HasPrefix true edge), otherwise nil; appendSorted keeps mux.es longest-pattern-first — the insertion index is sort.Search(len(es), len(es[i].pattern) < len(e.pattern)), appended when it is the end, else the tail is shifted (copy(es[i+1:], es[i:])) and es[i] = e — so the most specific prefix wins whatever the registration order; Handle files a pattern ending in '/' into es and any other into the exact map, and marks host patterns; handler tries host+path only when host patterns exist, then the path, then the default handler; CleanPath: empty ⇒ \"/\", a leading slash is added when missing, the trailing slash removed by path.Clean is put back exactly when the input had one and the result is not the root")
	// ---- match ----
	if u := c.Fn(R, "types.(*ServeMux).match"); u != nil {
		g := u.Graph()
		info := u.Info()
		exact := func(x *core.Unit, br core.Branch) int {
			if br.IsCase {
				return 0
			}
			d, ok := x.SingleDef(br.Cond)
			te, isT := d.(*core.TupleElem)
			if ok && isT && te.Index == 1 {
				if ix, isIx := ast.Unparen(te.X).(*ast.IndexExpr); isIx && fieldOf(x.Info(), ix.X) == "ServeMux.m" {
					return 1
				}
			}
			return 0
		}
		prefix := boolCallGuard(true, "strings.HasPrefix")
		nExact, nPrefix, nNil := 0, 0, 0
		for _, r := range returnsIn(u) {
			if len(r.Stmt.Results) != 2 {
				continue
			}
			switch {
			case core.IsNil(info, r.Stmt.Results[0]):
				nNil++
				c.Check(R, "types.(*ServeMux).match/nil-only-when-nothing-fits", r.Stmt.Pos(), g.GuardedBy(r.Loc, gNot(exact)) && !g.GuardedBy(r.Loc, prefix), "no handler only when neither the exact map nor a prefix matched")
			case g.GuardedBy(r.Loc, exact):
				nExact++
			case g.GuardedBy(r.Loc, prefix) && g.GuardedBy(r.Loc, gNot(exact)):
				nPrefix++
			default:
				c.Violate(R, "types.(*ServeMux).match/return-on-a-matching-edge", r.Stmt.Pos(), "a handler is returned where neither the exact lookup nor the prefix test succeeded")
			}
		}
		c.Check(R, "types.(*ServeMux).match/exact-then-prefix-then-nil", u.Pos(), nExact == 1 && nPrefix == 1 && nNil == 1, keyf("exact returns=%d prefix returns=%d nil returns=%d", nExact, nPrefix, nNil))
		// the prefix test is HasPrefix(path, e.pattern)
		okArgs := false
		for _, cl := range u.CallsTo("strings.HasPrefix") {
			okArgs = isLocal(info, cl.Arg(0), paramName(u, 0)) && strings.HasSuffix(selPath(cl.Arg(1)), ".pattern")
		}
		c.Check(R, "types.(*ServeMux).match/HasPrefix(path,pattern)", u.Pos(), okArgs, "the registered pattern is a prefix of the request path (not the other way round)")
	}
	// ---- appendSorted ----
	if u := c.Fn(R, "types.appendSorted"); u != nil {
		info := u.Info()
		g := u.Graph()
		es, e := paramName(u, 0), paramName(u, 1)
		var search *core.Call
		for _, cl := range u.CallsTo("sort.Search") {
			search = cl
		}
		okSearch := false
		if search != nil && len(search.Expr.Args) == 2 {
			if ce, isC := ast.Unparen(search.Expr.Args[0]).(*ast.CallExpr); isC && calleeNameOf0(ce) == "len" || func() bool {
				d := u.Resolve(search.Expr.Args[0])
				ce, isC := ast.Unparen(d).(*ast.CallExpr)
				return isC && calleeNameOf0(ce) == "len" && len(ce.Args) == 1 && isLocal(info, ce.Args[0], es)
			}() {
				if k := closureArg(u, search, 1); k != nil {
					c.Touch(k)
					for _, r := range returnsIn(k) {
						if len(r.Stmt.Results) != 1 {
							continue
						}
						be, isB := ast.Unparen(r.Stmt.Results[0]).(*ast.BinaryExpr)
						if !isB {
							continue
						}
						lenOf := func(x ast.Expr, suffixHas string) bool {
							ce, isC := ast.Unparen(x).(*ast.CallExpr)
							return isC && calleeNameOf0(ce) == "len" && len(ce.Args) == 1 && strings.Contains(selPath(ce.Args[0]), suffixHas) && strings.HasSuffix(selPath(ce.Args[0]), ".pattern")
						}
						// len(es[i].pattern) < len(e.pattern)   (or the mirrored >)
						if be.Op == token.LSS && lenOf(be.Y, e+".") && !lenOf(be.X, e+".") {
							okSearch = true
						}
						if be.Op == token.GTR && lenOf(be.X, e+".") && !lenOf(be.Y, e+".") {
							okSearch = true
						}
					}
				}
			}
		}
		c.Check(R, "types.appendSorted/index=Search(first-shorter-pattern)", u.Pos(), okSearch, "the new entry goes in front of the first strictly shorter pattern: longer (more specific) prefixes are tried first")
		// shift and store at that index
		idx := ""
		if search != nil {
			for _, a := range assignsIn(u, func(l ast.Expr) bool { _, isI := ast.Unparen(l).(*ast.Ident); return isI }) {
				if a.Rhs != nil && ast.Unparen(a.Rhs) == ast.Expr(search.Expr) {
					idx = selPath(a.Lhs)
				}
			}
		}
		okShift, okStore := false, false
		for _, cl := range u.Calls() {
			if cl.Callee == nil && cl.Name == "copy" && len(cl.Expr.Args) == 2 {
				d, isD := ast.Unparen(cl.Expr.Args[0]).(*ast.SliceExpr)
				s, isS := ast.Unparen(cl.Expr.Args[1]).(*ast.SliceExpr)
				if isD && isS && isLocal(info, d.X, es) && isLocal(info, s.X, es) && d.High == nil && s.High == nil && s.Low != nil && selPath(s.Low) == idx && idx != "" {
					if add, isA := ast.Unparen(d.Low).(*ast.BinaryExpr); isA && add.Op == token.ADD && selPath(add.X) == idx {
						if v, ok := core.ConstInt(info, add.Y); ok && v == 1 {
							okShift = true
						}
					}
				}
			}
		}
		for _, a := range assignsIn(u, func(l ast.Expr) bool {
			ix, isIx := ast.Unparen(l).(*ast.IndexExpr)
			return isIx && isLocal(info, ix.X, es) && selPath(ix.Index) == idx && idx != ""
		}) {
			if isLocal(info, a.Rhs, e) {
				okStore = true
			}
		}
		c.Check(R, "types.appendSorted/shift-tail-and-store-at-index", u.Pos(), okShift && okStore, keyf("copy(es[i+1:], es[i:]): %v; es[i] = e: %v", okShift, okStore))
		_ = g
	}
	// ---- Handle ----
	if u := c.Fn(R, "types.(*ServeMux).Handle"); u != nil {
		g := u.Graph()
		info := u.Info()
		endsSlash := func(x *core.Unit, br core.Branch) int {
			if r := hasSuffixSlash(x, br, paramName(u, 0)); r != 0 {
				return r
			}
			be, isB := ast.Unparen(br.Cond).(*ast.BinaryExpr)
			if br.IsCase || !isB {
				return 0
			}
			ix, isIx := ast.Unparen(be.X).(*ast.IndexExpr)
			if !isIx || !isLocal(x.Info(), ix.X, paramName(u, 0)) {
				return 0
			}
			if _, isSub := ast.Unparen(ix.Index).(*ast.BinaryExpr); !isSub {
				return 0
			}
			if v, ok := core.ConstInt(x.Info(), be.Y); !ok || v != '/' {
				return 0
			}
			if be.Op == token.EQL {
				return 1
			}
			if be.Op == token.NEQ {
				return -1
			}
			return 0
		}
		okEs, okM := false, false
		for _, a := range fieldAssigns(u, "ServeMux.es") {
			if ce, isC := ast.Unparen(a.Rhs).(*ast.CallExpr); isC && u.CalleeKey(ce) == "types.appendSorted" && g.GuardedBy(a.Loc, endsSlash) {
				okEs = true
			}
		}
		for _, a := range assignsIn(u, func(l ast.Expr) bool {
			ix, isIx := ast.Unparen(l).(*ast.IndexExpr)
			return isIx && fieldOf(info, ix.X) == "ServeMux.m"
		}) {
			if g.GuardedBy(a.Loc, gNot(endsSlash)) {
				okM = true
			}
		}
		c.Check(R, "types.(*ServeMux).Handle/prefix→es,exact→m", u.Pos(), okEs && okM, keyf("pattern ending in '/' appended (sorted) to es: %v; other patterns stored in the exact map: %v", okEs, okM))
	}
	// ---- handler ----
	if u := c.Fn(R, "types.(*ServeMux).handler"); u != nil && localAnchors(c, R, u, "h") {
		g := u.Graph()
		info := u.Info()
		noH := gNilLocal("h", false)
		ms := u.CallsTo("types.(*ServeMux).match")
		okHost, okPath := false, false
		for _, cl := range ms {
			if _, isAdd := ast.Unparen(cl.Arg(0)).(*ast.BinaryExpr); isAdd {
				okHost = g.GuardedBy(cl.Loc, func(x *core.Unit, br core.Branch) int {
					if !br.IsCase && fieldOf(x.Info(), br.Cond) == "ServeMux.hosts" {
						return 1
					}
					return 0
				})
			} else if isLocal(info, cl.Arg(0), paramName(u, 1)) {
				okPath = g.GuardedBy(cl.Loc, noH)
			}
		}
		okDef := false
		for _, a := range assignsIn(u, func(l ast.Expr) bool { return isLocal(info, l, "h") }) {
			_ = a
		}
		ast.Inspect(u.Body, func(n ast.Node) bool {
			if as, isA := n.(*ast.AssignStmt); isA {
				for _, r := range as.Rhs {
					if fieldOf(info, r) == "ServeMux.DefaultHandler" && g.GuardedBy(g.LocOf(as), noH) {
						okDef = true
					}
				}
			}
			return true
		})
		c.Check(R, "types.(*ServeMux).handler/host-then-path-then-default", u.Pos(), okHost && okPath && okDef, keyf("host+path only with host patterns: %v; path when still nil: %v; default handler when still nil: %v", okHost, okPath, okDef))
	}
	// ---- CleanPath ----
	if u := c.Fn(R, "utils.CleanPath"); u != nil && localAnchors(c, R, u, "np") {
		g := u.Graph()
		info := u.Info()
		p := paramName(u, 0)
		empty := func(x *core.Unit, br core.Branch) int {
			cmp, ok := x.BranchCmp(br)
			if !ok || cmp.Val == nil || !isLocal(x.Info(), cmp.X, p) || trimQuotes(cmp.Val.ExactString()) != "" {
				return 0
			}
			if cmp.Op == token.EQL {
				return 1
			}
			if cmp.Op == token.NEQ {
				return -1
			}
			return 0
		}
		okEmpty := false
		for _, r := range returnsIn(u) {
			if len(r.Stmt.Results) == 1 {
				if s, isC := core.ConstString(info, r.Stmt.Results[0]); isC && s == "/" && g.GuardedBy(r.Loc, empty) {
					okEmpty = true
				}
			}
		}
		c.Check(R, "utils.CleanPath/empty→root", u.Pos(), okEmpty, "the empty path is the root")
		noLead := func(x *core.Unit, br core.Branch) int {
			be, isB := ast.Unparen(br.Cond).(*ast.BinaryExpr)
			if br.IsCase || !isB {
				return 0
			}
			ix, isIx := ast.Unparen(be.X).(*ast.IndexExpr)
			if !isIx || !isLocal(x.Info(), ix.X, p) {
				return 0
			}
			if i0, ok := core.ConstInt(x.Info(), ix.Index); !ok || i0 != 0 {
				return 0
			}
			if v, ok := core.ConstInt(x.Info(), be.Y); !ok || v != '/' {
				return 0
			}
			if be.Op == token.NEQ {
				return 1
			}
			if be.Op == token.EQL {
				return -1
			}
			return 0
		}
		okLead := false
		for _, a := range assignsIn(u, func(l ast.Expr) bool { return isLocal(info, l, p) }) {
			if be, isB := ast.Unparen(a.Rhs).(*ast.BinaryExpr); isB && be.Op == token.ADD {
				if s, isC := core.ConstString(info, be.X); isC && s == "/" && isLocal(info, be.Y, p) && g.GuardedBy(a.Loc, noLead) {
					okLead = true
				}
			}
		}
		c.Check(R, "utils.CleanPath/leading-slash-added-when-missing", u.Pos(), okLead, "p = \"/\" + p exactly on the p[0] != '/' edge")
		// trailing slash restoration
		hadSlash := func(x *core.Unit, br core.Branch) int {
			be, isB := ast.Unparen(br.Cond).(*ast.BinaryExpr)
			if br.IsCase || !isB {
				return 0
			}
			ix, isIx := ast.Unparen(be.X).(*ast.IndexExpr)
			if !isIx || !isLocal(x.Info(), ix.X, p) {
				return 0
			}
			if _, isSub := ast.Unparen(ix.Index).(*ast.BinaryExpr); !isSub {
				return 0
			}
			if v, ok := core.ConstInt(x.Info(), be.Y); !ok || v != '/' {
				return 0
			}
			if be.Op == token.EQL {
				return 1
			}
			if be.Op == token.NEQ {
				return -1
			}
			return 0
		}
		notRoot := func(x *core.Unit, br core.Branch) int {
			cmp, ok := x.BranchCmp(br)
			if !ok || cmp.Val == nil || !isLocal(x.Info(), cmp.X, "np") || trimQuotes(cmp.Val.ExactString()) != "/" {
				return 0
			}
			if cmp.Op == token.NEQ {
				return 1
			}
			if cmp.Op == token.EQL {
				return -1
			}
			return 0
		}
		nRestore, okRestore := 0, true
		for _, a := range assignsIn(u, func(l ast.Expr) bool { return isLocal(info, l, "np") }) {
			if a.Tok == token.DEFINE {
				continue
			}
			nRestore++
			okRestore = okRestore && g.GuardedBy(a.Loc, hadSlash) && g.GuardedBy(a.Loc, notRoot)
		}
		c.Check(R, "utils.CleanPath/trailing-slash-restored-iff-input-had-one∧not-root", u.Pos(), nRestore == 2 && okRestore, keyf("%d restoring assignments, all on the p[len-1]=='/' ∧ np != \"/\" edge: %v", nRestore, okRestore))
		// fast path: np = p only when p is np plus exactly one slash
		fast := func(x *core.Unit, br core.Branch) int {
			if br.IsCase {
				return 0
			}
			if ce, key := x.AsCall(br.Cond); ce != nil && key == "strings.HasPrefix" && len(ce.Args) == 2 && isLocal(x.Info(), ce.Args[0], p) && isLocal(x.Info(), ce.Args[1], "np") {
				return 1
			}
			return 0
		}
		okFast, okSlow := false, false
		for _, a := range assignsIn(u, func(l ast.Expr) bool { return isLocal(info, l, "np") }) {
			if a.Tok == token.ASSIGN && isLocal(info, a.Rhs, p) && g.GuardedBy(a.Loc, fast) {
				okFast = true
			}
			if a.Tok == token.ADD_ASSIGN {
				if s, isC := core.ConstString(info, a.Rhs); isC && s == "/" && !g.GuardedBy(a.Loc, fast) {
					okSlow = true
				}
			}
		}
		c.Check(R, "utils.CleanPath/np=p-on-the-prefix-edge,np+=\"/\"-otherwise", u.Pos(), okFast && okSlow, keyf("fast path on HasPrefix(p, np): %v; slash appended otherwise: %v", okFast, okSlow))
	}
}
