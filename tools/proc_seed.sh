#!/bin/bash
# usage: proc_seed.sh <tag e.g. R6-C05> <pkgdir> <demo file> <run regex>
# confirms the seeded change (clean passes, patched fails, build + pinned tests ok) and evaluates it with the checker as built
tag=$1; prop=${tag##*-}
/verif/tools/confirm_seed.sh "$@" 2>&1 | tail -12
echo "=== checker ($prop):"; /verif/tools/eval_patch.sh /tmp/seed/$tag.out/patch.diff $prop
echo "=== checker (all):"; /verif/tools/eval_patch.sh /tmp/seed/$tag.out/patch.diff all | cut -c1-200
