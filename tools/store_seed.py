#!/usr/bin/env python3
"""store_seed.py <table.json>: copy confirmed seeded changes from /tmp/seed/<tag>.out into /verif/seeded/<id>/,
write meta.json, append replay entries to mutants/seeded.json and rows to seeded/README.md."""
import json, os, shutil, sys, subprocess
rows = json.load(open(sys.argv[1]))
seeded = json.load(open('/verif/mutants/seeded.json'))
have = {m['id'] for m in seeded}
readme_rows = []
for r in rows:
    src = f"/tmp/seed/{r['tag']}.out"
    d = f"/verif/seeded/{r['id']}"
    os.makedirs(d, exist_ok=True)
    shutil.copy(f"{src}/patch.diff", f"{d}/patch.diff")
    if r.get('rebased_patch'):
        shutil.copy(f"{src}/patch.diff", f"{d}/patch.orig.diff")
        shutil.copy(r['rebased_patch'], f"{d}/patch.diff")
    for f in r['demo_files']:
        shutil.copy(f"{src}/{f}", f"{d}/{f}")
    if os.path.exists(f"{src}/notes.md"):
        shutil.copy(f"{src}/notes.md", f"{d}/author-notes.md")
    meta = {
        "id": r['id'], "breaks_property": r['prop'],
        "author": r.get('author', "independent sub-agent given only the property text (with a focus clause taken from it) and a scratch worktree (no access to /verif)"),
        "what_changes": r['what'], "needs_to_manifest": r['needs'],
        "demonstration": {"file": r['demo_files'][0], "place_in": r['place'] + "/", "run": f"go test -vet=off -count=1 -timeout 300s -run '{r['run']}' ./{r['place']}/"},
        "confirmed_by_me": {"base_commit": r.get('base', '5375ec2'), "worktree": f"/tmp/seed/{r['tag']} (removed afterwards)",
            "ran": ["git apply patch.diff", "go build ./... → ok", "go test -vet=off -count=1 ./... → all ok", "demo on the clean tree → PASS", "demo with the patch → FAIL"]},
        "detected_by": r['detected'],
        "how_to_recheck": f"git -C /repo apply /verif/seeded/{r['id']}/patch.diff && (cd /verif && ./check {r['prop']} quick); git -C /repo checkout -- .",
    }
    if r.get('note'):
        meta['note'] = r['note']
    json.dump(meta, open(f"{d}/meta.json", 'w'), indent=1, ensure_ascii=False)
    mid = f"seeded-{r['id']}"
    if mid not in have:
        seeded.append({"id": mid, "property": r['prop'], "file": "", "old": "", "new": "", "expect_rule": r['rule'], "patch": f"seeded/{r['id']}/patch.diff"})
    for sib in r.get('siblings', []):
        sid = f"{mid}@{sib['prop']}"
        if sid not in have:
            seeded.append({"id": sid, "property": sib['prop'], "file": "", "old": "", "new": "", "expect_rule": sib['rule'], "patch": f"seeded/{r['id']}/patch.diff"})
    readme_rows.append(f"| {r['id'].split('-')[0]} | {r['prop']} | {r['what']} | {r['needs']} | {r['detected']} |")
json.dump(seeded, open('/verif/mutants/seeded.json', 'w'), indent=1, ensure_ascii=False)
print("\n".join(readme_rows))
