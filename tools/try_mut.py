#!/usr/bin/env python3
"""try_mut.py <file> <old> <new> [prop] [engcheck]: apply one textual mutation to a scratch copy of /repo and run the checker on it"""
import sys, subprocess, tempfile, shutil, os
f, old, new = sys.argv[1:4]
prop = sys.argv[4] if len(sys.argv) > 4 else 'all'
binp = sys.argv[5] if len(sys.argv) > 5 else '/verif/bin/engcheck'
t = tempfile.mkdtemp(prefix='trymut-', dir='/tmp')
try:
    os.makedirs(t + '/verif')
    subprocess.run(['rsync', '-a', '--exclude', '.git', '/repo/', t + '/repo/'], check=True)
    shutil.copy('/verif/known-findings.json', t + '/verif/')
    p = t + '/repo/' + f
    s = open(p).read()
    old = old.encode().decode('unicode_escape'); new = new.encode().decode('unicode_escape')
    if s.count(old) != 1:
        print('CONTEXT occurs', s.count(old), 'times'); sys.exit(2)
    open(p, 'w').write(s.replace(old, new))
    env = dict(os.environ, GOFLAGS='-mod=mod', GOPROXY='off'); env.pop('GOWORK', None)
    b = subprocess.run(['go', 'build', './...'], cwd=t + '/repo', env=env, capture_output=True, text=True)
    if b.returncode != 0:
        print('BUILD-FAILED', b.stderr[:300]); sys.exit(3)
    r = subprocess.run([binp, '-prop', prop, '-repo', t + '/repo', '-verif', t + '/verif'], capture_output=True, text=True, env=env)
    out = sorted({l[:260] for l in (r.stdout + r.stderr).splitlines() if l.startswith(('violated', 'UNDECIDED', 'CHECK-ERROR'))})
    print('\n'.join(out) if out else 'SILENT')
finally:
    shutil.rmtree(t)
