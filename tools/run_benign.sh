#!/bin/bash
# usage: run_benign.sh [round dir]  — every benign patch under /verif/benign must leave every check silent
d=${1:-/verif/benign}
n=0; bad=0; stale=0
for p in $(find $d -name 'b*.diff' | sort); do
  n=$((n+1))
  r=$(/verif/tools/eval_patch.sh $p all 2>&1 | sort -u | cut -c1-240)
  if echo "$r" | grep -q "APPLY-FAILED"; then stale=$((stale+1)); echo "STALE ${p#/verif/benign/} (no longer applies to the current tree)"; continue; fi
  if [ -n "$r" ]; then bad=$((bad+1)); echo "ALARM ${p#/verif/benign/}"; echo "$r" | head -6; fi
done
echo "benign patches: $n, alarms: $bad, stale: $stale"
