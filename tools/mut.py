"""helper: build mutant json files. usage in python: from mut import *"""
import json
class MS:
    def __init__(self, path): self.path=path; self.M=[]
    def m(self,id,prop,file,old,new,rule,key="",benign=False,note=""):
        d={"id":id,"property":prop,"file":file,"old":old,"new":new,"expect_rule":rule}
        if key: d["expect_construct"]=key
        if benign: d["benign"]=True
        if note: d["note"]=note
        self.M.append(d)
    def save(self): json.dump(self.M,open(self.path,"w"),indent=1,ensure_ascii=False)
