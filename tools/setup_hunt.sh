#!/bin/bash
# usage: setup_hunt.sh <tag> <Cxx> ["extra focus text"]
# creates worktree /tmp/hunt/<tag>, /tmp/hunt/<tag>.out/property.txt and prints the bug-hunting prompt with the known list filled in
tag=$1; prop=$2; focus=$3
WT=/tmp/hunt/$tag; OUT=/tmp/hunt/$tag.out
mkdir -p $OUT
git -C /repo worktree add --detach -f $WT HEAD >/dev/null 2>&1 || { echo "worktree failed"; exit 1; }
jq -r --arg id "$prop" 'select(.id==$id) | "Property \(.id): \(.title)\n\nStatement:\n\(.statement)\n\nQuantified over: \(.quantifier.text)\n\nAnchored in: \(.anchors.files|join(", "))\n\nMechanisms:\n" + ([.anchors.mechanism[]|"- \(.name) (\(.where))"]|join("\n"))' /verif/properties.jsonl > $OUT/property.txt
if [ -n "$focus" ]; then printf '\nWhere to look first (areas nobody has examined closely yet):\n%s\n' "$focus" >> $OUT/property.txt; fi
{
  echo "Open defects (known, not repaired):"
  jq -r '.findings[] | "- [\(.property)] \(.construct): \(.what_fails // .what)"' /verif/known-findings.json | sort -u
  echo
  echo "Defects already repaired in your copy (the commit log of your worktree shows each as a 'fix:' commit — read \`git log --oneline | grep fix:\`):"
  git -C /repo log --format='- %s' | grep '^- fix:'
} > $OUT/known.txt
python3 - "$WT" "$OUT" <<'PY'
import sys
wt,out=sys.argv[1:3]
s=open('/verif/tools/bughunt_agent_prompt.md').read()
s=s.replace('{WT}',wt).replace('{OUT}',out).replace('{KNOWN}',open(out+'/known.txt').read())
s=s.replace("Do not read or write /repo, /verif or any other directory under /tmp.","Do not read or write /repo, /verif or any other directory under /tmp (your own throw-away files may go under "+out+"/scratch).")
print(s)
PY
