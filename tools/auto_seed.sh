#!/bin/bash
# usage: auto_seed.sh <tag>   — derives demo file / package dir / test regex from /tmp/seed/<tag>.out and runs proc_seed.sh
tag=$1; out=/tmp/seed/$tag.out
demo=$(ls $out/*_test.go 2>/dev/null | head -1)
[ -z "$demo" ] && { echo "RESULT $tag NO-DEMO"; exit 1; }
pkg=$(grep -m1 '^package ' $demo | awk '{print $2}' | sed 's/_test$//')
case $pkg in engine|transports|webtransport|utils|types|events|config) dir=$pkg;; *) dir=engine;; esac
rx=$(grep -h '^func Test' $demo | sed -E 's/^func (Test[A-Za-z0-9_]*).*/\1/' | paste -sd'|')
/verif/tools/proc_seed.sh $tag $dir $(basename $demo) "$rx" 2>&1 | grep -E "^RESULT|^===|^violated|^UNDECIDED|APPLY|BUILD" | cut -c1-230
echo "META $tag dir=$dir demo=$(basename $demo) rx=$rx"
