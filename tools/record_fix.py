#!/usr/bin/env python3
"""record_fix.py <table.json>: for each {commit, property, rule, construct, what, witness, siblings:[{property,rule}]}
append a 'fixed' entry to known-findings.json, write mutants/reverts/<commit>.diff (git diff commit commit~1 in /repo)
and revert-the-fix replay entries to mutants/fixes3.json."""
import json, subprocess, sys, os
rows = json.load(open(sys.argv[1]))
kf = json.load(open('/verif/known-findings.json'))
mf = '/verif/mutants/fixes3.json'
muts = json.load(open(mf)) if os.path.exists(mf) else []
have = {m['id'] for m in muts}
havefix = {f['commit'] for f in kf['fixed']}
for r in rows:
    c = r['commit']
    d = subprocess.run(['git', '-C', '/repo', 'diff', c, c + '~1'], capture_output=True, text=True).stdout
    open(f'/verif/mutants/reverts/{c}.diff', 'w').write(d)
    if c not in havefix:
        kf['fixed'].append({"line": f"fixed: property={r['property']} {c} {r['what']}", "property": r['property'], "commit": c, "rule": r['rule'], "construct": r['construct'], "what": r['what'], "witness": r['witness']})
    for i, (p, rule) in enumerate([(r['property'], r['rule'])] + [(s['property'], s['rule']) for s in r.get('siblings', [])]):
        mid = f"revert-fix-{c}" + ("" if i == 0 else f"@{p}")
        if mid not in have:
            muts.append({"id": mid, "property": p, "file": "", "old": "", "new": "", "expect_rule": rule, "patch": f"mutants/reverts/{c}.diff", "note": "revert of a fix: commit made in /repo (second bug-hunting round); the repaired defect must re-appear as a violation"})
json.dump(kf, open('/verif/known-findings.json', 'w'), indent=1, ensure_ascii=False)
json.dump(muts, open(mf, 'w'), indent=1, ensure_ascii=False)
print(len(kf['fixed']), 'fixed entries;', len(muts), 'replay entries')
