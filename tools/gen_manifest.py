#!/usr/bin/env python3
"""Regenerates /verif/MANIFEST.json from the table below (kept in one place so it stays valid)."""
import json, os, sys
HERE = os.path.dirname(os.path.dirname(os.path.abspath(__file__)))

# property id -> (claimed?, technique, level text, level note, design ref)
P = {}
def claim(pid, technique, text, note, ref):
    P[pid] = dict(technique=technique, text=text, note=note, ref=ref)

TB = ("Trusted base: go/types, go/cfg, go/packages (x/tools v0.29.0), the Go toolchain loading /repo; dependencies outside /repo behave as documented. Besides the rules named here the check evaluates the effect tables of the functions involved (required calls with constant arguments on their licensing edges, DESIGN.md §9.8). Names are resolved through an embedded baseline of the pinned tree (structural hashes of functions, closures and local definitions) that recognises renamed functions / locals and treats new private helpers as part of their callers; it names constructs and decides nothing (DESIGN.md §9.10). "
      "Decides the named structural necessary conditions only, not the run-time behaviour (see DESIGN.md 'Not decided').")

claim("C13", "call-site enumeration with constant evaluation (no partial frames), structural formula extraction, dominance on go/cfg, held-lock analysis",
      "Static rules over webtransport/conn.go, prepared.go and transports/webtransport.go: every flushFrame call passes final=true (one frame per message), the frame carries buf[framePos:pos]+extra with length pos-header+len(extra), kind bit and length forms are mutual inverses between writer and reader, header room exists for every buffer configuration, prepared messages use the single-frame path, the transport closes its writer on all paths under its mutex. The round trip itself (byte identity for all lengths/chunkings) is not decided.",
      TB, "DESIGN.md §3 C13")
claim("C14", "threshold/constant table extraction from the CFG of flushFrame and advanceFrame compared with the protocol table; call-site enumeration",
      "Encoder arms (>=65536 → 127+u64 BE at framePos 0; 126..65535 → 126+u16 BE at framePos 6; else 7-bit at framePos 8; framePos+headerLen == maxFrameHeaderSize) and decoder arms (read 1/2/8, mask 0x7f, BigEndian) are read off the CFG with constant evaluation and compared with the Engine.IO framing table and with each other; the decoder has no rejection path other than error propagation and the read limit; one frame per message (shared with C13). Equality with a reference encoder for every (kind,length) follows by a pencil argument, not machine-proved.",
      TB, "DESIGN.md §3 C14")

claim("C15", "static call graph reachability (panic sites), dominance of index uses by error tests, who-may-write field rules, threshold extraction, monotonicity of the sticky-error field on go/cfg",
      "Static rules over webtransport/conn.go read paths: the only panic reachable from NextReader/ReadMessage/messageReader.Read is the documented repeated-read guard (>=1000); every use of header bytes is dominated by the err==nil edge of its read(n) and fits in n; readRemaining is written only by setReadRemaining which rejects negatives and whose callers propagate the error; the reader clamps to readRemaining and skips leftovers; the read limit (accumulate, overflow test, limit test → CloseWithError+ErrReadLimit) dominates every successful data-frame return; readErr is monotone (first failure or EOF→unexpected-EOF refinement) and returned by the error exit; no buffer is allocated from a declared length; stale readers are inert and every message gets a freshly allocated reader object (the identity test depends on it). Totality over every byte stream as a run-time fact is not decided.",
      TB, "DESIGN.md §3 C15")

claim("C20", "must-held-lock dataflow per field access, who-may-call for lock-free helpers, parameter-aliasing rules on append/store/return, two-sided bound facts by edge dominance, emitter shape rules",
      "Static rules over types/slice.go, set.go, map.go, events.go, utils/parameter-bag.go, yeast.go, base64id.go: every access of a guarded field is under the right (R)W lock and lock-free helpers are only called with it held (Map: dirty/misses/read.Store/*Locked under mu; every slow path re-loads the snapshot under the lock and decides on the re-loaded one); the queue primitives Push/Shift/Pop/clear have their sequence shape; no Slice method stores, appends onto or returns caller-shared storage; every parameter-dependent index/slice bound/make length is bounded on both sides before use; no nil entry can enter a listener slice, Emit iterates a snapshot once per entry, Once runs inside sync.Once, RemoveListener removes exactly one; ids embed all 64 bits of an atomic counter in URL-safe base64 and Yeast is one critical section. Linearizability of concurrent histories is not decided (lock discipline is the structural necessary condition).",
      TB, "DESIGN.md §3 C20")

claim("C19", "select-arm/polarity table extraction from the AST and CFG of utils/timer.go, create/cancel pairing over resolved call sites, nil-holder licence by edge dominance",
      "Static protocol-shape conditions only: the timeout goroutine calls its callback exactly once on the tick arm and never on the stop arm; the interval goroutine re-arms before running the callback and returns on the stop arm; Stop/Refresh polarities; Reset on every Refresh path; every timer created in /repo is cancelled by its owner's teardown and a holder is never overwritten without clearing; no dereferencing Timer method on a holder that can be nil. A looping goroutine requires an unconditional stop signal (violated by SetInterval: listed finding). Exact-once firing, never-after-cancel, promptness and refresh timing under all orders of runtime timer, goroutine and canceller — the bulk of the statement — are NOT decided.",
      TB, "DESIGN.md §3 C19")

claim("C03", "who-may-write state table with constant evaluation, atomic-transition (CAS/Swap) rule, dominance and must-precede queries on go/cfg, listener register/remove pairing over resolved objects",
      "Static rules over engine/socket.go and transports/transport.go: the ready state is written only by the four transitions of the table, each strictly forward and each a single CompareAndSwap/Swap whose result licenses its effects (the structural form of 'exactly one close event under every interleaving'); the close epilogue (timers cleared, both callback queues cleared, transport listeners removed) precedes the single Emit(close), which only OnClose may emit; every OnClose call carries a documented reason constant; every session-level emit of the silenced events and every effect of sendPacket is dominated by a state test excluding closed (closing); listener registrations are paired with removals; transport Close/OnClose are guarded; a read failure is reported as an error (reason 'transport error') only when it is not a close error of the peer, whatever its status code (websocket ∥ webtransport ∥ Upgrader.Error). That no schedule yields a second event follows from the atomic transitions by a pencil argument; schedules are not explored.",
      TB, "DESIGN.md §3 C03")

claim("C04", "who-may-write rules for the client table and counter, pairing on all exits (dominance), lookup-edge rules, registration-window typestate, SSA-free value identity via reaching definitions, id construction table",
      "Static rules over engine/base-server.go, engine/server.go, utils/base64id.go: the client table and counter are written only by Handshake (one Store + one Add(1) paired on every exit, after NewSocket, with NewSocket's socket); the removal decrements only when LoadAndDelete removed the entry and is registered with Once on the same socket; after attaching that listener Handshake re-checks for an already-closed session (registration window); unknown ids are answered UNKNOWN_SID / never reach OnRequest or MaybeUpgrade; ids are URL-safe base64 of a buffer embedding all 64 bits of an atomic sequence (injective ⇒ never repeat in a process) and a failed generation creates no session. Quiescent equality of table, counter and live set under all histories is not decided.",
      TB, "DESIGN.md §3 C04")

claim("C01", "who-may-mutate the write buffer, must-held-lock dataflow at take/send/encode sites, value identity via reaching definitions, loop-exit rule (every exit of the per-packet loop is an error exit), must-precede queries on go/cfg",
      "Static skeleton of ordered exactly-once delivery: one FIFO with one drainer (only sendPacket pushes, only flush takes, under flushMu, and sends exactly the taken slice to a writable current transport); one batch in flight per transport (writable cleared before the send goroutine, restored only in the completion epilogue after drain / on a new poll); encode+write under the transport mutex; the per-packet loops of websocket/webtransport have no error-free exit other than exhaustion; upgrade hand-off clearTransport ≺ setTransport ≺ flush; AllAndClear is one critical section; frame kind Text iff *StringBuffer. Byte identity, eventual delivery, order across goroutines and loss-freedom across the upgrade window are not decided.",
      TB, "DESIGN.md §3 C01")

claim("C02", "edge dominance of delivery emits by the open-state test, who-may-emit, loop-edge reachability (close stops the payload), call-site enumeration of decode/dispatch, absence of go statements on the dispatch chain, who-may-call onPacket",
      "Static skeleton of once-in-order inbound delivery: every delivery emit in onPacket is dominated by ReadyState()==open and message/data are emitted only there, once each on the MESSAGE edge with the packet's own Data; polling.OnData stops at a close packet and hands each loop variable to OnPacket once; a websocket/webtransport frame is decoded as exactly one packet with the buffer kind matching the frame type and only on the read-success edge; the dispatch chain contains no go statement (delivery order = payload order); candidate transports are never wired to onPacket; JSONP bodies are taken from the d field only; while the pinned parser's payload decoder scans with a default-limit bufio.Scanner (the dependency is inspected on every run) a revision-4 payload is never handed to it — polling cuts it at the separator and decodes each piece (C02.12). Decoding correctness for all payload shapes (external parser, regexp semantics) and byte identity are not decided.",
      TB, "DESIGN.md §3 C02")

claim("C18", "must-precede/once queries on go/cfg, who-may-mutate the callback queues, who-may-emit transport drain, interprocedural may-held-lock analysis (synchronous call graph + the repo's listener wiring, deferred calls LIFO) intersected with the locks re-acquirable from Send/Write/Close",
      "Static rules over engine/socket.go and the transports: packetCreate once before buffering; the flush/drain skeleton (session and server events around one Send, same batch value, only on a non-empty hand-off to a writable transport); exactly one callback group pushed per hand-off on every path, one popped per transport drain, run in slice order, queues mutated only by flush/onDrain/OnClose/sendPacket and cleared before the close event; transports emit drain only on send completion; no application code (session/server Emit, SendCallback, AllowRequest, middleware) runs with a mutex held that Send/Close can re-acquire — violated at four emits under flushMu in flush (listed findings, deterministic self-deadlock). Queue alignment under drains racing with the next flush for all schedules is not decided.",
      TB, "DESIGN.md §3 C18")

claim("C05", "constant table vs README/protocol table, precedence read off the CFG by pass-edge dominance of reject returns, unavoidable-check reachability, path-sensitive abstract evaluation of ComputePath over the slash/no-slash domain, call-site classification of abort calls",
      "Static rules over engine/base-server.go, engine/server.go, types/serve.go: the six error variables equal the documented (and README) table; Verify's reject returns are ordered by pass-edge dominance exactly as the documented precedence and the admitting return cannot bypass any check of its branch; Verify runs only after middleware success and Handshake only when admitted, the revision check dominating every session-creating action; abortRequest maps 403 iff FORBIDDEN and marshals {code, default-or-hook message} after setting headers and status; every rejection emits connection_error exactly once (call-site classification, one named exception); no reject path creates a session; ComputePath yields a slash-terminated pattern on every feasible path unless AddTrailingSlash() is explicitly false, Attach mounts it, ServeMux cleans, matches exact-then-prefix and falls back to the default handler; upgrade-time rejections are closed with the message. The full decision table over concrete request bytes is not decided.",
      TB, "DESIGN.md §3 C05")

claim("C06", "field table of the open packet with resolved accessor chains, must-precede queries, reaching-definition rule for the per-session initial packet, constant tables of the transport builders, sibling agreement of the three revision discriminators",
      "Static rules over engine/socket.go, engine/base-server.go, transports/builder.go, transports/transport.go: the open packet has exactly sid/upgrades/pingInterval/pingTimeout/maxPayload fed by s.id, getAvailableUpgrades and the Opts() accessors (intervals divided by time.Millisecond); transition ≺ SetSid ≺ OPEN (first packet, marshalled map) ≺ initial MESSAGE (a per-session Clone of the shared reader, taken for every implementation of types.BufferInterface) ≺ Emit(open) ≺ heartbeat arming; upgrades = builder targets of the current transport filtered by enabled transports, empty when upgrades are disabled, builder table polling→{websocket,webtransport}; exactly one NewSocket/Store/Emit(connection) on the success path and none on reject paths; protocol = EIO==\"4\"?4:3 passed to NewSocket, the parser chosen on the same predicate, heartbeat mode keyed on s.protocol; per-transport limits handed over from the same option accessors. Numeric equality advertised = enforced at run time and JSON rendering are not decided.",
      TB, "DESIGN.md §3 C06")

claim("C07", "duration table via resolved option-accessor chains, branch-effect table of onPacket by edge dominance, arming/use discriminator agreement (Engler-style contradiction rule) with nil-holder licence, timer polarity table",
      "Static structural conditions only: ping delay = PingInterval; deadline = PingTimeout (v4) or PingInterval+PingTimeout (v3); each ping starts its deadline; the deadline closes with reason 'ping timeout' unless closed; PONG/PING branches have exactly their documented effects and the wrong-direction edges only onError+return; the direction test uses the same quantity (s.protocol) that armed the timers, so no Timer method runs on a nil holder; Refresh re-arms on every path; close and clearTransport cancel the timers. The timing clauses themselves (closed exactly at the deadline and never before; never closed if answered in time) are real-time relations and are NOT decided.",
      TB, "DESIGN.md §3 C07")

claim("C08", "sibling gate agreement by edge dominance, who-may-install-a-transport, branch-effect rules of the upgrade listener, cleanup-before-close on every non-switch exit, atomic claim (CAS) rule, listener-before-reader typestate",
      "Static rules over engine/server.go and engine/socket.go MaybeUpgrade: both upgrade entry points reach MaybeUpgrade only for a known, not upgrading, not upgraded session with a successfully created candidate and close the connection otherwise; the transport is installed only by setTransport and, in the listener, only on UPGRADE ∧ not closed (upgraded set there, never reset); the probe is answered with one PONG probe on the candidate and the check interval re-armed, NOOP only on a writable polling transport; every non-switch outcome runs cleanup before closing the candidate and never touches the session or its transport; the upgrading claim is one CompareAndSwap whose loser is closed; flag cover: upgraded is set before cleanup() resets upgrading and MaybeUpgrade re-tests upgraded after winning the claim, so no later candidate ever sees both flags clear (at most one switch per session). The reader goroutine is started before any listener is attached (two listed findings). Message continuity across the switch, liveness of a conformant upgrade and timer timing are not decided.",
      TB, "DESIGN.md §3 C08")

claim("C09", "call-graph reachability from the client-byte entry points (static calls + CHA + the repo's listener and timer-callback wiring) for the panic allow-list, interprocedural must-held-lock rule for connection writes, nil-safety rules, emitter/listener signature agreement by type assignability, answer-or-park path rule, reader-loop exit rule",
      "Crash and hang clauses only: the only explicit panics reachable from client input are the allow-listed webtransport guards (made unreachable by the rule that every connection write holds the transport mutex) and the documented repeated-read guard; no Timer method on a nil holder; JSON decode targets cannot be nil-dereferenced; every unchecked type assertion / index in a listener is matched by all Emit sites of that event (argument count and assignable type) and errorContext messages are strings; every other single-value type assertion in the repository is a frozen site whose dynamic type the repository fixes (none on packet data); no dereference on an edge where the code's own nil test has just failed; every close of a field channel is behind a won CompareAndSwap (the request context's done channel only in Flush); a pointer / interface variable shared by the callbacks of one function (listeners, timers: other goroutines) is not re-assigned by one of them (C09.16); every path of the polling/HTTP request functions answers, parks or delegates; reader goroutines leave their loop on a read error; request bodies and frames are read through limits. Work proportional to input (the known exponential spin is in the external parser), run-time panics inside dependencies and isolation under load are not decided.",
      TB, "DESIGN.md §3 C09")
claim("C10", "taint-style who-may-read rule for request bodies, dominance of body reads by the declared-length test, must-precede of SetReadLimit before the first read, limit-enforcement path rule in advanceFrame, resolved option-accessor chains",
      "Static rules: every use of a request body other than Close goes through http.MaxBytesReader/LimitReader with a limit from MaxHttpBufferSize() and overflow is answered 413; a declared oversize is refused with 413 before reading; the gorilla and WebTransport connections get SetReadLimit(Opts().MaxHttpBufferSize()) before the first read and the limited Conn is the one used; advanceFrame's every successful data-frame return passes the accumulate/overflow/limit tests (violation edge closes the session and returns ErrReadLimit); the reader clamps to the declared length; transports receive their limit from the same option accessor that the open packet advertises. Byte/character accounting, 'limit plus a constant' as a number and gorilla's own enforcement are not decided.",
      TB, "DESIGN.md §3 C10")
claim("C11", "atomic claim (CAS) rule for the pending-request slots, overlap-edge effect table, single-writer rule for the raw ResponseWriter (who-may-use + held lock + done guard), must-precede for the ok acknowledgement, answer-or-park path rule, close-release effect table",
      "Static rules over transports/polling.go and types/http-context.go: the poll and data slots are claimed with CompareAndSwap(nil, ctx) and only nil is ever stored otherwise; the overlap edge reports the error, answers 400 and returns; HttpContext.Write is the only writer of the raw ResponseWriter (besides the protocol upgraders), under its mutex, only when not done, and marks done once; 'ok' is written only after OnData and cleanup, on a synchronous dispatch chain; every path of the request functions answers or parks; DoClose/OnClose/send/respond release a pending poll with close/noop or a bounded timer; no call site bypasses an overriding transport method through the embedded base (every close of a polling transport runs polling.OnClose). Pairing under aborts racing with writes is not decided.",
      TB, "DESIGN.md §3 C11")

claim("C12", "branch-effect rules of Close/closeTransport, range-callback rule for shutdown, listener wiring rule, polling close-release effect table, lock-ordering rule between DoClose and the send goroutine, must-precede of the close callback",
      "Static rules: a graceful Close transitions to closing, then waits for drain when the buffer is non-empty and otherwise closes the transport with a callback that reports 'forced close' (Discard only on the discard edge); server shutdown ranges over all clients with Close(true) and never stops early, is wired to the HTTP server's close event, which is emitted before the listeners shut down; polling releases a pending poll with close/noop or a bounded timer on every DoClose branch; the close callback precedes connection teardown. websocket/webTransport DoClose have no ordering edge to the in-flight send goroutine (two listed findings: send-then-close can lose the last batch). On-wire order of last data versus close and the 30 s / heartbeat bounds as times are not decided.",
      TB, "DESIGN.md §3 C12")

claim("C16", "value identity of the encoded batch via reaching definitions, header table by edge dominance (incl. type-switch arms), compression gate conjunction by edge dominance, coding-token ↔ codec-package table over resolved callees, taint rule for the JSONP head, construction rule for the JSONP body",
      "Static rules over transports/polling.go and polling-jsonp.go: EncodePayload receives the batch itself (extended only by the transport's own CLOSE), v3 with SupportsBinary; the encoded buffer reaches DoWrite unchanged; Content-Type is text iff *StringBuffer; every respond announces Itoa(x.Len()) of the buffer it sends; Content-Encoding is set only before the compressed respond, with the coding given to compress; compression needs HttpCompression ∧ options.Compress ∧ Len ≥ Threshold ∧ a coding from Accept-Encoding; token→codec table gzip/zlib(deflate)/brotli/zstd with offered tokens = implemented tokens and writers closed; the JSONP head reaches the response only through the non-digit filter and the body is head + one default-escaped JSON string + foot. Decodability by an independent codec, Accept-Encoding q-values/token boundaries and JSON escaping itself (stdlib) are not decided.",
      TB, "DESIGN.md §3 C16")
claim("C17", "data-dependence of the cookie value on the session id (reaching definitions across the closure), wrong-variable contradiction rule for the first-response test, once/must-precede rules for the headers events, constant tables for cookie and CORS defaults, CORS branch table by edge dominance, preflight path rule, middleware order rule",
      "Static rules over engine/base-server.go, types/cors.go, transports/polling.go: Set-Cookie is String() of a per-session copy whose Value is this handshake's id and the shared cookie is never written; Set-Cookie and initial_headers are licensed by !req.Query().Has(\"sid\") on the listener's own request argument; headers is emitted once per 200 response and forwarded once by the server after initial_headers; cookie defaults io,/ ,HttpOnly,Lax only when configured; configureOrigin's ACAO/Vary table, isOriginAllowed's four kinds with default false, credentials iff configured; a preflight is answered once with the configured status and never reaches next unless PreflightContinue, other requests call next(nil) once; CORS is registered before Init and middlewares run in registration order stopping on error. Concrete header bytes for all option shapes and Vary merging are not decided.",
      TB, "DESIGN.md §3 C17")

UNDER_CONSTRUCTION = "static rule set designed in DESIGN.md §3 but its checker is not built yet in this revision; not claimed until it is"

def main():
    props = [json.loads(l)["id"] for l in open(os.path.join(HERE, "properties.jsonl")) if l.strip()]
    checks, na = [], []
    for pid in props:
        if pid in P:
            e = P[pid]
            checks.append({
                "property_id": pid,
                "quick_cmd": f"./check {pid} quick",
                "thorough_cmd": f"./check {pid} thorough",
                "evidence_file": f"/verif/evidence/{pid}.json",
                "replay_cmd_template": f"./check {pid} quick   # replay file {{path}} names the rule and construct; the check re-evaluates it on the current tree",
                "engine": "engcheck",
                "level_claimed": {"category": "other", "text": e["text"], "design_ref": e["ref"]},
                "level_note": e["note"],
                "technique": "static analysis: " + e["technique"],
            })
        else:
            na.append({"property_id": pid, "reason": NA.get(pid, UNDER_CONSTRUCTION)})
    m = {
        "version": 1,
        "setup_cmd": "cd /verif/checker && GOFLAGS=-mod=mod GOPROXY=off CGO_ENABLED=0 go build -o /verif/bin/engcheck ./cmd/engcheck",
        "hooks": {
            "guard": "verif",
            "enable": "none needed: static analysis instruments nothing; checks load /repo's working tree with go/packages (no build tag)",
            "baseline_off_cmd": "cd /repo && GOFLAGS=-mod=mod GOPROXY=off go test -vet=off -count=1 ./...",
            "source_commits": [],
            "add_only": True,
        },
        "engines": [{
            "name": "engcheck",
            "path": "/verif/checker",
            "serves_properties": sorted(P.keys()),
            "kind_free_text": "repository-specific static analyser (Go, go/packages + go/types + go/cfg): per-property rule tables over resolved callees, constant evaluation, CFG dominance / path-avoidance / must-held-lock queries; no repository code is executed",
        }],
        "checks": checks,
        "notes": "All claims are at level 'other': each decides named structural necessary conditions of its property from the source (DESIGN.md §3) and states what it does not decide. Genuine defects found on the pinned tree are either repaired by 'fix:' commits in /repo or listed in /verif/known-findings.json (printed as KNOWN-FINDING lines).",
        "not_applicable": na,
    }
    json.dump(m, open(os.path.join(HERE, "MANIFEST.json"), "w"), indent=1, ensure_ascii=False)
    print("claimed:", len(checks), "not_applicable:", len(na))

NA = {}
if __name__ == "__main__":
    main()
