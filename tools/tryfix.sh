#!/bin/bash
# usage: tryfix.sh <pkgdir> <run regex> <fix.diff|-> <test files...>
# in /tmp/fixwt (detached at /repo HEAD): run the tests without the fix (expect FAIL), with the fix (expect PASS), then the pinned suite with the fix
dir=$1; rx=$2; fix=$3; shift 3
export GOFLAGS=-mod=mod GOPROXY=off; unset GOWORK
cd /tmp/fixwt && git reset -q --hard && git clean -fdq && git checkout -q --detach $(git -C /repo rev-parse HEAD)
for f in "$@"; do cp $f $dir/; done
echo "--- without fix:"; go test -vet=off -count=1 -timeout ${T:-300s} -run "$rx" ./$dir/ 2>&1 | grep -E "^(--- FAIL|--- PASS|FAIL|ok|panic)" | sort | uniq -c | head -20
if [ "$fix" != "-" ]; then
  git apply $fix || patch -p1 < $fix || { echo APPLY-FAILED; exit 1; }
  echo "--- with fix:"; go test -vet=off -count=1 -timeout ${T:-300s} -run "$rx" ./$dir/ 2>&1 | grep -E "^(--- FAIL|--- PASS|FAIL|ok|panic)" | sort | uniq -c | head -20
  for f in "$@"; do rm $dir/$(basename $f); done
  echo "--- pinned suite with fix:"; go build ./... && go test -vet=off -count=1 ./... 2>&1 | grep -v "no test files" | awk '{print $1,$2}' | tr '\n' ';'; echo
  git diff HEAD --stat | tail -1
fi
