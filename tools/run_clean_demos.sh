#!/bin/bash
# usage: run_clean_demos.sh <worktree> <list file>   — every seeded demonstration must PASS on the clean current tree (regression test of the fix commits)
WT=$1; LIST=$2
export GOFLAGS=-mod=mod GOPROXY=off; unset GOWORK
cd $WT && git reset -q --hard && git clean -fdq && git checkout -q --detach $(git -C /repo rev-parse HEAD)
[ -n "$APPLY" ] && { git apply $APPLY || { echo APPLY-FAILED; exit 1; }; }
while read -r D; do
  [ -f "$D/meta.json" ] || continue
  place=$(jq -r '.demonstration.place_in' $D/meta.json); place=${place%/}
  run=$(jq -r '.demonstration.run' $D/meta.json)
  files=$(ls $D | grep -E '_test\.go$')
  [ -z "$files" ] && { echo "NODEMO $(basename $D)"; continue; }
  for f in $files; do cp $D/$f $WT/$place/; done
  out=$( (cd $WT && eval "$run") 2>&1 ); rc=$?
  if [ $rc -eq 0 ]; then echo "PASS $(basename $D)"; else echo "FAIL $(basename $D)"; echo "$out" | grep -E "^(---|\s+\S+_test.go|panic|FAIL)" | head -6 | cut -c1-220; fi
  (cd $WT && git clean -fdq)
done < $LIST
