#!/bin/bash
# usage: runwit.sh <pkgdir> <run regex> <test files...>  — runs witness tests in /tmp/fixwt at /repo HEAD (no fix), cleans up with git clean
dir=$1; rx=$2; shift 2
export GOFLAGS=-mod=mod GOPROXY=off; unset GOWORK
cd /tmp/fixwt && git reset -q --hard && git clean -fdq && git checkout -q --detach $(git -C /repo rev-parse HEAD)
for f in "$@"; do cp "$f" "/tmp/fixwt/$dir/"; done
go test -vet=off -count=1 -timeout ${T:-600s} -run "$rx" ./$dir/ 2>&1 | grep -E "^(--- |FAIL|ok|panic)" | head -10
git clean -fdq
