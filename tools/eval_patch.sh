#!/bin/bash
# usage: eval_patch.sh <patch.diff> [prop|all] [engcheck binary]
# Runs the checker on a scratch copy of /repo with the patch applied (the /repo
# working tree is not touched); prints violated/UNDECIDED lines.
p=$(readlink -f "$1"); prop=${2:-all}; bin=${3:-/verif/bin/engcheck}
export GOFLAGS=-mod=mod GOPROXY=off; unset GOWORK
t=$(mktemp -d /tmp/evalpatch-XXXXXX)
mkdir -p $t/repo $t/verif
rsync -a --exclude .git /repo/ $t/repo/
cp /verif/known-findings.json $t/verif/
( cd $t/repo && git apply --unsafe-paths "$p" 2>/dev/null || patch -s -p1 < "$p" ) || { echo APPLY-FAILED; rm -rf $t; exit 3; }
( cd $t/repo && go build ./... ) || echo BUILD-FAILED
$bin -prop $prop -repo $t/repo -verif $t/verif 2>&1 | grep -E "^(violated|UNDECIDED|CHECK-ERROR)" | sed -E 's/ at [^ ]+:[0-9]+:[0-9]+//' | cut -c1-300
rm -rf $t
