#!/bin/bash
# usage: confirm.sh <id> <pkgdir> <demo file> <run regex>
id=$1; dir=$2; demo=$3; rx=$4
WT=/tmp/seed/$id; OUT=/tmp/seed/$id.out
export GOFLAGS=-mod=mod GOPROXY=off; unset GOWORK
cd $WT && git checkout -q -- . && git clean -fdq
cp $OUT/$demo $dir/
echo "--- clean tree demo:"; go test -vet=off -count=1 -timeout 300s -run "$rx" ./$dir/ 2>&1 | tail -3; r_clean=${PIPESTATUS[0]}
git apply $OUT/patch.diff || { echo APPLY-FAILED; exit 1; }
echo "--- build:"; go build ./... && echo build-ok
rm $dir/$demo
echo "--- existing tests with change:"; go test -vet=off -count=1 -timeout 600s ./... 2>&1 | grep -v "no test files" | awk '{print $1, $2}' | tr '\n' ';'; echo
cp $OUT/$demo $dir/
echo "--- patched demo:"; go test -vet=off -count=1 -timeout 300s -run "$rx" ./$dir/ 2>&1 | tail -4; r_bad=${PIPESTATUS[0]}
rm $dir/$demo; git checkout -q -- .
echo "RESULT $id clean_exit=$r_clean patched_exit=$r_bad"
