#!/bin/bash
# usage: eval_benign.sh <tag>  — runs every /tmp/ben/<tag>.out/b*.diff through the checker (all properties) on a scratch copy
tag=$1
for p in /tmp/ben/$tag.out/b*.diff; do
  r=$(/verif/tools/eval_patch.sh $p all 2>&1 | sort -u | cut -c1-260)
  if [ -z "$r" ]; then echo "SILENT $tag/$(basename $p)"; else echo "ALARM $tag/$(basename $p)"; echo "$r" | head -12; fi
done
