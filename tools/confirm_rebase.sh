#!/bin/bash
# usage: confirm_rebase.sh <worktree> <seeded dir> <rebased patch>
# confirms a seeded change rebased onto the current tree: build + pinned tests pass with it, its demonstration passes without and fails with it
WT=$1; D=$2; P=$3
export GOFLAGS=-mod=mod GOPROXY=off; unset GOWORK
cd $WT && git reset -q --hard && git clean -fdq
place=$(jq -r '.demonstration.place_in' $D/meta.json); place=${place%/}
run=$(jq -r '.demonstration.run' $D/meta.json)
files=$(ls $D | grep -E '_test\.go$')
for f in $files; do cp $D/$f $place/; done
( eval "$run" ) >/tmp/rebase/clean.log 2>&1; rc=$?
git apply $P || { echo "RESULT $(basename $D) APPLY-FAILED"; exit 1; }
for f in $files; do rm $place/$f; done
go build ./... || { echo "RESULT $(basename $D) BUILD-FAILED"; exit 1; }
t=$(go test -vet=off -count=1 -timeout 600s ./... 2>&1 | grep -cE "^(FAIL|---)")
for f in $files; do cp $D/$f $place/; done
( eval "$run" ) >/tmp/rebase/patched.log 2>&1; rp=$?
for f in $files; do rm $place/$f; done
git reset -q --hard
echo "RESULT $(basename $D) clean_exit=$rc patched_exit=$rp pinned_failures=$t"
[ $rc -ne 0 ] && tail -15 /tmp/rebase/clean.log | cut -c1-200
[ $rp -eq 0 ] && tail -5 /tmp/rebase/patched.log | cut -c1-200
exit 0
