#!/bin/bash
# usage: setup_seed.sh <tag> <Cxx> "<focus clause or empty>"
# creates worktree /tmp/seed/<tag> and /tmp/seed/<tag>.out/property.txt, prints the agent prompt
tag=$1; prop=$2; focus=$3
WT=/tmp/seed/$tag; OUT=/tmp/seed/$tag.out
mkdir -p $OUT
git -C /repo worktree add --detach -f $WT HEAD >/dev/null 2>&1 || { echo "worktree failed"; exit 1; }
jq -r --arg id "$prop" 'select(.id==$id) | "Property \(.id): \(.title)\n\nStatement:\n\(.statement)\n\nQuantified over: \(.quantifier.text)\n\nAnchored in: \(.anchors.files|join(", "))\n\nMechanisms:\n" + ([.anchors.mechanism[]|"- \(.name) (\(.where))"]|join("\n"))' /verif/properties.jsonl > $OUT/property.txt
if [ -n "$focus" ]; then printf '\nFocus for your change (the clause of the statement to break):\n%s\n' "$focus" >> $OUT/property.txt; fi
sed -e "s#{WT}#$WT#g" -e "s#{OUT}#$OUT#g" ${SEED_PROMPT:-/verif/tools/seed_agent_prompt.md}
