package engine

import (
	"net/http"
	"strings"
	"testing"

	"github.com/gorilla/websocket"
	"github.com/zishang520/engine.io/v2/config"
	"github.com/zishang520/engine.io/v2/utils"
)

// dcda16a end to end: several values of one field on the handshake response (polling and websocket)
func TestRevC2_EndToEnd(t *testing.T) {
	rs := newRevServer(t, func(o *config.ServerOptions) {
		o.SetCookie(&http.Cookie{Name: "io"})
	})
	rs.eng.On("initial_headers", func(args ...any) {
		h := args[0].(*utils.ParameterBag)
		h.Add("Set-Cookie", "extra=1")
		h.Add("X-Multi", "a")
		h.Add("X-Multi", "b")
		h.Replace(func() map[string][]string { m := h.All(); m["X-None"] = nil; return m }())
	})
	resp, err := http.Get(rs.url(4, "", ""))
	if err != nil {
		t.Fatal(err)
	}
	resp.Body.Close()
	t.Logf("polling: %v", resp.Header)
	if len(resp.Header.Values("Set-Cookie")) != 2 || len(resp.Header.Values("X-Multi")) != 2 {
		t.Errorf("polling handshake headers: %v", resp.Header)
	}
	<-rs.conn

	wsURL := "ws" + strings.TrimPrefix(rs.ts.URL, "http") + "/engine.io/?EIO=4&transport=websocket"
	c, wresp, err := websocket.DefaultDialer.Dial(wsURL, nil)
	if err != nil {
		t.Fatal(err)
	}
	defer c.Close()
	t.Logf("websocket: %v", wresp.Header)
}
