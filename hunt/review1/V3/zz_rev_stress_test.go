package engine

import (
	"fmt"
	"net"
	"testing"
	"time"
)

// malformed payload / truncated body / failing reader racing an application Close and a pending poll:
// every request must be answered, the session must end
func TestRevStress_CloseRaces(t *testing.T) {
	rs := newRevServer(t, nil)
	for round := 0; round < 120; round++ {
		eio := 4
		bad := "4hello\x1eX"
		if round%2 == 1 {
			eio = 3
			bad = "6:4helloxx:"
		}
		sid, sock := rs.handshake(t, eio, "")
		reason := closeReason(sock)
		pollRes := make(chan httpResult, 1)
		go func() { pollRes <- doReq("GET", rs.url(eio, sid, ""), "", "", 5*time.Second) }()
		if round%3 != 0 {
			for i := 0; i < 500 && !sock.Transport().Writable(); i++ {
				time.Sleep(time.Millisecond)
			}
		}
		postRes := make(chan httpResult, 1)
		switch round % 4 {
		case 0, 1:
			go func() { postRes <- doReq("POST", rs.url(eio, sid, ""), "text/plain", bad, 5*time.Second) }()
		case 2:
			go func() {
				c := rawDial(t, rs)
				fmt.Fprintf(c, "POST /engine.io/?EIO=%d&transport=polling&sid=%s HTTP/1.1\r\nHost: x\r\nContent-Type: text/plain\r\nContent-Length: 100\r\n\r\n4hel", eio, sid)
				time.Sleep(time.Duration(round%5) * 200 * time.Microsecond)
				c.(*net.TCPConn).SetLinger(0)
				c.Close()
				postRes <- httpResult{}
			}()
		case 3:
			go func() { sock.Send(&failReader{n: 2}, nil, nil); postRes <- httpResult{} }()
		}
		go func() {
			time.Sleep(time.Duration(round%7) * 100 * time.Microsecond)
			sock.Close(round%5 == 0)
		}()
		select {
		case <-postRes:
		case <-time.After(6 * time.Second):
			t.Fatalf("round %d: POST unanswered", round)
		}
		select {
		case r := <-pollRes:
			if r.err != nil {
				t.Fatalf("round %d: poll %v", round, r.err)
			}
		case <-time.After(6 * time.Second):
			t.Fatalf("round %d: poll unanswered", round)
		}
		if r := waitReason(t, reason, 3*time.Second); r == "" {
			t.Fatalf("round %d: session did not close (state %s, transport %s)", round, sock.ReadyState(), sock.Transport().ReadyState())
		}
	}
	if n := rs.eng.ClientsCount(); n != 0 {
		t.Errorf("clients %d", n)
	}
}
