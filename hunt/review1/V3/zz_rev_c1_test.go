package engine

import (
	"bytes"
	"fmt"
	"net"
	"runtime"
	"testing"
	"time"

	"github.com/zishang520/engine.io/v2/types"
)

// c244e9c: a poll aborted by its client while the response is being written
func TestRevC1_AbortWhileWriting(t *testing.T) {
	rs := newRevServer(t, nil)
	for round := 0; round < 5; round++ {
		sid, sock := rs.handshake(t, 4, "")
		reason := closeReason(sock)

		// a big message, buffered until the poll arrives
		big := bytes.Repeat([]byte("x"), 16<<20)
		sock.Send(types.NewStringBuffer(big), nil, nil)

		c := rawDial(t, rs)
		tc := c.(*net.TCPConn)
		tc.SetReadBuffer(4096)
		fmt.Fprintf(c, "GET /engine.io/?EIO=4&transport=polling&sid=%s HTTP/1.1\r\nHost: x\r\n\r\n", sid)
		// read a little so that the response has started, then abort
		buf := make([]byte, 1024)
		c.SetReadDeadline(time.Now().Add(10 * time.Second))
		if _, err := c.Read(buf); err != nil {
			t.Fatalf("no response start: %v", err)
		}
		time.Sleep(50 * time.Millisecond)
		tc.SetLinger(0)
		c.Close()

		r := waitReason(t, reason, 3*time.Second)
		t.Logf("round %d: close reason %q", round, r)
		runtime.Gosched()
	}
	time.Sleep(300 * time.Millisecond)
}

// abort of an idle poll racing an application Send (race detector run)
func TestRevC1_AbortRacingSend(t *testing.T) {
	rs := newRevServer(t, nil)
	for round := 0; round < 150; round++ {
		sid, sock := rs.handshake(t, 4, "")
		c := rawDial(t, rs)
		tc := c.(*net.TCPConn)
		fmt.Fprintf(c, "GET /engine.io/?EIO=4&transport=polling&sid=%s HTTP/1.1\r\nHost: x\r\n\r\n", sid)
		// wait until the poll is installed
		for i := 0; i < 200 && !sock.Transport().Writable(); i++ {
			time.Sleep(time.Millisecond)
		}
		done := make(chan struct{})
		go func() {
			sock.Send(types.NewStringBuffer(bytes.Repeat([]byte("y"), 1<<16)), nil, nil)
			close(done)
		}()
		if round%2 == 0 {
			time.Sleep(time.Duration(round%7) * 50 * time.Microsecond)
		}
		tc.SetLinger(0)
		c.Close()
		<-done
	}
	time.Sleep(300 * time.Millisecond)
}
