package engine

import (
	"bufio"
	"fmt"
	"io"
	"net"
	"net/http"
	"net/http/httptest"
	"regexp"
	"strings"
	"sync"
	"testing"
	"time"

	"github.com/zishang520/engine.io/v2/config"
	"github.com/zishang520/engine.io/v2/types"
)

type revServer struct {
	eng   Server
	ts    *httptest.Server
	mu    sync.Mutex
	socks []Socket
	conn  chan Socket
	errs  chan *types.ErrorMessage
}

func newRevServer(t *testing.T, tweak func(*config.ServerOptions)) *revServer {
	t.Helper()
	opts := config.DefaultServerOptions()
	opts.SetAllowEIO3(true)
	opts.SetPingInterval(60 * time.Second)
	opts.SetPingTimeout(60 * time.Second)
	if tweak != nil {
		tweak(opts)
	}
	rs := &revServer{conn: make(chan Socket, 16), errs: make(chan *types.ErrorMessage, 64)}
	rs.eng = NewServer(opts)
	rs.eng.On("connection", func(args ...any) {
		s := args[0].(Socket)
		rs.mu.Lock()
		rs.socks = append(rs.socks, s)
		rs.mu.Unlock()
		rs.conn <- s
	})
	rs.eng.On("connection_error", func(args ...any) {
		select {
		case rs.errs <- args[0].(*types.ErrorMessage):
		default:
		}
	})
	mux := http.NewServeMux()
	mux.Handle("/engine.io/", rs.eng)
	rs.ts = httptest.NewServer(mux)
	t.Cleanup(func() {
		rs.eng.Close()
		rs.ts.CloseClientConnections()
		rs.ts.Close()
	})
	return rs
}

var sidRe = regexp.MustCompile(`sid\\*":\\*"([^"\\]+)`)

func (rs *revServer) url(eio int, sid string, extra string) string {
	u := fmt.Sprintf("%s/engine.io/?EIO=%d&transport=polling", rs.ts.URL, eio)
	if sid != "" {
		u += "&sid=" + sid
	}
	return u + extra
}

// handshake over polling; returns sid and the server-side socket
func (rs *revServer) handshake(t *testing.T, eio int, extra string) (string, Socket) {
	t.Helper()
	resp, err := http.Get(rs.url(eio, "", extra))
	if err != nil {
		t.Fatal(err)
	}
	body, _ := io.ReadAll(resp.Body)
	resp.Body.Close()
	m := sidRe.FindSubmatch(body)
	if m == nil {
		t.Fatalf("no sid in handshake: %d %q", resp.StatusCode, body)
	}
	select {
	case s := <-rs.conn:
		return string(m[1]), s
	case <-time.After(2 * time.Second):
		t.Fatal("no connection event")
	}
	return "", nil
}

type httpResult struct {
	code   int
	body   string
	header http.Header
	err    error
}

func doReq(method, url, ctype, body string, timeout time.Duration) httpResult {
	var rd io.Reader
	if body != "" {
		rd = strings.NewReader(body)
	}
	req, _ := http.NewRequest(method, url, rd)
	if ctype != "" {
		req.Header.Set("Content-Type", ctype)
	}
	c := &http.Client{Timeout: timeout}
	resp, err := c.Do(req)
	if err != nil {
		return httpResult{err: err}
	}
	defer resp.Body.Close()
	b, _ := io.ReadAll(resp.Body)
	return httpResult{code: resp.StatusCode, body: string(b), header: resp.Header}
}

func closeReason(s Socket) chan string {
	ch := make(chan string, 4)
	s.On("close", func(args ...any) {
		r, _ := args[0].(string)
		select {
		case ch <- r:
		default:
		}
	})
	return ch
}

func waitReason(t *testing.T, ch chan string, d time.Duration) string {
	t.Helper()
	select {
	case r := <-ch:
		return r
	case <-time.After(d):
		return ""
	}
}

// raw TCP request helper
func rawDial(t *testing.T, rs *revServer) net.Conn {
	t.Helper()
	c, err := net.Dial("tcp", strings.TrimPrefix(rs.ts.URL, "http://"))
	if err != nil {
		t.Fatal(err)
	}
	return c
}

func readRawResponse(c net.Conn, d time.Duration) (*http.Response, string, error) {
	c.SetReadDeadline(time.Now().Add(d))
	br := bufio.NewReader(c)
	resp, err := http.ReadResponse(br, nil)
	if err != nil {
		return nil, "", err
	}
	b, _ := io.ReadAll(resp.Body)
	resp.Body.Close()
	return resp, string(b), nil
}
