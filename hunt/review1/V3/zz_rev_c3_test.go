package engine

import (
	"errors"
	"strings"
	"testing"
	"time"

	"github.com/zishang520/engine.io/v2/types"
)

type failReader struct{ n int }

func (f *failReader) Read(p []byte) (int, error) {
	if f.n > 0 {
		f.n--
		p[0] = 'a'
		return 1, nil
	}
	return 0, errors.New("boom")
}

// f9015f7: a message whose reader fails, on polling
func TestRevC3_FailingReader(t *testing.T) {
	for _, tc := range []struct {
		name       string
		eio        int
		extra      string
		pollFirst  bool
		goodBefore bool
	}{
		{"v4-poll-pending", 4, "", true, false},
		{"v4-no-poll", 4, "", false, false},
		{"v3-binary-poll-pending", 3, "", true, false},
		{"v3-b64-no-poll", 3, "&b64=1", false, false},
		{"v4-good-then-bad", 4, "", false, true},
		{"v3-jsonp", 3, "&j=0", true, false},
	} {
		t.Run(tc.name, func(t *testing.T) {
			rs := newRevServer(t, nil)
			sid, sock := rs.handshake(t, tc.eio, tc.extra)
			reason := closeReason(sock)
			res := make(chan httpResult, 1)
			poll := func() {
				go func() { res <- doReq("GET", rs.url(tc.eio, sid, tc.extra), "", "", 5*time.Second) }()
			}
			if tc.pollFirst {
				poll()
				for i := 0; i < 500 && !sock.Transport().Writable(); i++ {
					time.Sleep(time.Millisecond)
				}
			}
			if tc.goodBefore {
				sock.Send(types.NewStringBufferString("good"), nil, nil)
			}
			sock.Send(&failReader{n: 3}, nil, nil)
			if !tc.pollFirst {
				poll()
			}
			select {
			case r := <-res:
				t.Logf("poll answered: %d %q err=%v", r.code, r.body, r.err)
				if r.err != nil || r.code != 500 {
					t.Errorf("poll: want 500, got %d %v", r.code, r.err)
				}
			case <-time.After(6 * time.Second):
				t.Errorf("poll never answered")
			}
			if r := waitReason(t, reason, 2*time.Second); r != "transport error" {
				t.Errorf("close reason %q", r)
			}
			if n := rs.eng.ClientsCount(); n != 0 {
				t.Errorf("clients %d", n)
			}
			// later requests are refused, answered
			r := doReq("GET", rs.url(tc.eio, sid, tc.extra), "", "", 3*time.Second)
			if r.err != nil || r.code != 400 || !strings.Contains(r.body, "Session ID unknown") {
				t.Errorf("later poll: %d %q %v", r.code, r.body, r.err)
			}
			t.Logf("transport state after: %s", sock.Transport().ReadyState())
		})
	}
}
