package engine

import (
	"fmt"
	"net"
	"testing"
	"time"
)

// 1fda519: a data request whose body is cut off
func TestRevC5_TruncatedBody(t *testing.T) {
	for _, tc := range []struct {
		name     string
		eio      int
		head     string
		part     string
		how      string // rst | fin | halfclose
		withPoll bool
	}{
		{"v4-cl-rst", 4, "Content-Type: text/plain\r\nContent-Length: 100\r\n", "4hello\x1e4wor", "rst", false},
		{"v4-cl-fin", 4, "Content-Type: text/plain\r\nContent-Length: 100\r\n", "4hello\x1e4wor", "fin", false},
		{"v4-cl-halfclose", 4, "Content-Type: text/plain\r\nContent-Length: 100\r\n", "4hello\x1e4wor", "halfclose", false},
		{"v4-chunked-halfclose", 4, "Content-Type: text/plain\r\nTransfer-Encoding: chunked\r\n", "d\r\n4hello\x1e4world\r\n", "halfclose", false},
		{"v4-cl-halfclose-poll", 4, "Content-Type: text/plain\r\nContent-Length: 100\r\n", "4hello\x1e4wor", "halfclose", true},
		{"v3-cl-halfclose", 3, "Content-Type: text/plain\r\nContent-Length: 100\r\n", "6:4hello6:4wor", "halfclose", false},
		{"v3-bin-halfclose", 3, "Content-Type: application/octet-stream\r\nContent-Length: 100\r\n", "\x00\x06\xff4hello\x00\x06\xff4wor", "halfclose", false},
	} {
		t.Run(tc.name, func(t *testing.T) {
			rs := newRevServer(t, nil)
			sid, sock := rs.handshake(t, tc.eio, "")
			reason := closeReason(sock)
			ml := &msgLog{}
			ml.attach(sock)
			pollRes := make(chan httpResult, 1)
			if tc.withPoll {
				go func() { pollRes <- doReq("GET", rs.url(tc.eio, sid, ""), "", "", 5*time.Second) }()
				for i := 0; i < 500 && !sock.Transport().Writable(); i++ {
					time.Sleep(time.Millisecond)
				}
			}
			c := rawDial(t, rs)
			tcp := c.(*net.TCPConn)
			fmt.Fprintf(c, "POST /engine.io/?EIO=%d&transport=polling&sid=%s HTTP/1.1\r\nHost: x\r\n%s\r\n%s", tc.eio, sid, tc.head, tc.part)
			time.Sleep(50 * time.Millisecond)
			switch tc.how {
			case "rst":
				tcp.SetLinger(0)
				c.Close()
			case "fin":
				c.Close()
			case "halfclose":
				tcp.CloseWrite()
				resp, body, err := readRawResponse(c, 3*time.Second)
				if err != nil {
					t.Logf("POST response: err %v", err)
				} else {
					t.Logf("POST response: %d %q", resp.StatusCode, body)
					if resp.StatusCode == 200 {
						t.Errorf("truncated body acknowledged")
					}
				}
				c.Close()
			}
			if r := waitReason(t, reason, 2*time.Second); r != "transport error" {
				t.Errorf("close reason %q", r)
			}
			if ml.get() != "" {
				t.Errorf("messages of a truncated payload delivered: %q", ml.get())
			}
			if tc.withPoll {
				select {
				case r := <-pollRes:
					t.Logf("poll: %d %q %v", r.code, r.body, r.err)
				case <-time.After(3 * time.Second):
					t.Errorf("pending poll not answered")
				}
			}
			if n := rs.eng.ClientsCount(); n != 0 {
				t.Errorf("clients %d", n)
			}
		})
	}
}

// a complete body that arrives slowly in pieces is still a payload
func TestRevC5_SlowCompleteBody(t *testing.T) {
	rs := newRevServer(t, nil)
	sid, sock := rs.handshake(t, 4, "")
	ml := &msgLog{}
	ml.attach(sock)
	c := rawDial(t, rs)
	body := "4hello\x1e4world"
	fmt.Fprintf(c, "POST /engine.io/?EIO=4&transport=polling&sid=%s HTTP/1.1\r\nHost: x\r\nContent-Type: text/plain\r\nContent-Length: %d\r\n\r\n", sid, len(body))
	for i := 0; i < len(body); i++ {
		c.Write([]byte{body[i]})
		time.Sleep(5 * time.Millisecond)
	}
	resp, b, err := readRawResponse(c, 3*time.Second)
	if err != nil || resp.StatusCode != 200 || b != "ok" {
		t.Fatalf("%v %v %q", err, resp, b)
	}
	time.Sleep(50 * time.Millisecond)
	if ml.get() != "hello,world" {
		t.Errorf("messages %q", ml.get())
	}
}
