package engine

import (
	"io"
	"strings"
	"sync"
	"testing"
	"time"
)

type msgLog struct {
	mu   sync.Mutex
	msgs []string
}

func (m *msgLog) attach(s Socket) {
	s.On("message", func(args ...any) {
		b, _ := io.ReadAll(args[0].(io.Reader))
		m.mu.Lock()
		m.msgs = append(m.msgs, string(b))
		m.mu.Unlock()
	})
}
func (m *msgLog) get() string {
	m.mu.Lock()
	defer m.mu.Unlock()
	return strings.Join(m.msgs, ",")
}

// 78c21b4: a malformed packet in a polling payload ends the session with a parse error
func TestRevC4_MalformedPayload(t *testing.T) {
	for _, tc := range []struct {
		name, ctype, body, extra string
		eio                      int
		wantMsgs                 string
	}{
		{"v4-unknown-type", "text/plain", "4hello\x1eX\x1e4world", "", 4, "hello"},
		{"v4-bad-base64", "text/plain", "4hello\x1eb!!!!\x1e4world", "", 4, "hello"},
		{"v4-empty-chunk", "text/plain", "4hello\x1e\x1e4world", "", 4, "hello"},
		{"v3-bad-length", "text/plain", "6:4helloxx:4a6:4world", "", 3, "hello"},
		{"v3-unknown-type", "text/plain", "6:4hello1:X6:4world", "", 3, "hello"},
		{"v3-bad-base64", "text/plain", "6:4hello5:b4!!!6:4world", "", 3, "hello"},
		{"v3-b-alone", "text/plain", "6:4hello1:b6:4world", "", 3, "hello"},
		{"v3-binary-unknown-type", "application/octet-stream", "\x00\x06\xff4hello\x00\x01\xffX\x00\x06\xff4world", "", 3, "hello"},
		{"v3-jsonp-unknown-type", "application/x-www-form-urlencoded", "d=6:4hello1:X6:4world", "&j=0", 3, "hello"},
	} {
		t.Run(tc.name, func(t *testing.T) {
			rs := newRevServer(t, nil)
			sid, sock := rs.handshake(t, tc.eio, tc.extra)
			reason := closeReason(sock)
			ml := &msgLog{}
			ml.attach(sock)
			r := doReq("POST", rs.url(tc.eio, sid, tc.extra), tc.ctype, tc.body, 3*time.Second)
			t.Logf("POST answered %d %q %v", r.code, r.body, r.err)
			got := waitReason(t, reason, 1*time.Second)
			if got != "parse error" {
				t.Errorf("close reason %q, want parse error (POST answered %d %q; messages delivered %q; socket %s)", got, r.code, r.body, ml.get(), sock.ReadyState())
			}
			if r.code == 200 {
				t.Errorf("payload with a malformed packet acknowledged: %d %q", r.code, r.body)
			}
			if ml.get() != tc.wantMsgs {
				t.Errorf("messages %q want %q", ml.get(), tc.wantMsgs)
			}
		})
	}
}
