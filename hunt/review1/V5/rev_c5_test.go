package engine

import (
	"net/http"
	"strings"
	"sync/atomic"
	"testing"

	"github.com/zishang520/engine.io/v2/config"
)

// f330b3b
func TestRevC5EmptySidHandshake(t *testing.T) {
	for _, q := range []string{"EIO=4&transport=polling&sid=", "sid=&EIO=4&transport=polling", "EIO=4&transport=polling", "EIO=3&transport=polling&sid=", "EIO=4&transport=polling&sid=&j=0"} {
		t.Run(q, func(t *testing.T) {
			opts := &config.ServerOptions{}
			opts.SetCookie(&http.Cookie{Name: "io"})
			opts.SetAllowEIO3(true)
			srv, ts := revServer(t, opts)
			var initial, headers atomic.Int32
			srv.On("initial_headers", func(...any) { initial.Add(1) })
			srv.On("headers", func(...any) { headers.Add(1) })

			resp, body := revGet(t, ts.URL+"/engine.io/?"+q, nil)
			sid := revSid(body)
			if resp.StatusCode != 200 || sid == "" {
				t.Fatalf("handshake: %d %q", resp.StatusCode, body)
			}
			if c := resp.Header.Get("Set-Cookie"); !strings.HasPrefix(c, "io="+sid) {
				t.Errorf("Set-Cookie %q, want io=%s", c, sid)
			}
			if initial.Load() != 1 || headers.Load() != 1 {
				t.Errorf("initial_headers %d headers %d", initial.Load(), headers.Load())
			}
			// next requests of the session: no cookie, no initial_headers
			eio := "4"
			if strings.Contains(q, "EIO=3") {
				eio = "3"
			}
			if strings.Contains(q, "j=0") {
				return
			}
			resp, _ = revPost(t, ts.URL+"/engine.io/?EIO="+eio+"&transport=polling&sid="+sid, map[string]string{"4": "4hi", "3": "3:4hi"}[eio])
			if resp.StatusCode != 200 {
				t.Errorf("post: %d", resp.StatusCode)
			}
			if c := resp.Header.Get("Set-Cookie"); c != "" {
				t.Errorf("Set-Cookie on data response: %q", c)
			}
			if initial.Load() != 1 || headers.Load() != 2 {
				t.Errorf("after post: initial_headers %d headers %d", initial.Load(), headers.Load())
			}
		})
	}
}
