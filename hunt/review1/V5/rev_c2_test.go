package engine

import (
	"sync"
	"testing"
	"time"

	"github.com/gorilla/websocket"
	"github.com/zishang520/engine.io-go-parser/packet"
)

type revLog struct {
	mu sync.Mutex
	ev []string
}

func (l *revLog) add(s string) { l.mu.Lock(); l.ev = append(l.ev, s); l.mu.Unlock() }
func (l *revLog) get() []string {
	l.mu.Lock()
	defer l.mu.Unlock()
	return append([]string(nil), l.ev...)
}

func revAfterClose(ev []string) []string {
	for i, e := range ev {
		if e == "close" {
			return ev[i+1:]
		}
	}
	return nil
}

// 80da6c5: a packet listener closes the session: no data/message after close.
func TestRevC2ClosedByPacketListener(t *testing.T) {
	for _, tr := range []string{"websocket", "polling"} {
		for _, discard := range []bool{true, false} {
			name := tr
			if discard {
				name += "-discard"
			}
			t.Run(name, func(t *testing.T) {
				srv, ts := revServer(t, nil)
				log := &revLog{}
				srv.On("connection", func(a ...any) {
					s := a[0].(Socket)
					s.On("packet", func(a ...any) {
						if a[0].(*packet.Packet).Type == packet.MESSAGE {
							log.add("packet")
							s.Close(discard)
						}
					})
					s.On("data", func(...any) { log.add("data") })
					s.On("message", func(...any) { log.add("message") })
					s.On("close", func(...any) { log.add("close") })
				})
				if tr == "websocket" {
					c := revWsDial(t, ts, "EIO=4&transport=websocket")
					c.ReadMessage()
					c.WriteMessage(websocket.TextMessage, []byte("4hello"))
				} else {
					_, body := revGet(t, ts.URL+"/engine.io/?EIO=4&transport=polling", nil)
					sid := revSid(body)
					go revGet(t, ts.URL+"/engine.io/?EIO=4&transport=polling&sid="+sid, nil)
					time.Sleep(50 * time.Millisecond)
					revPost(t, ts.URL+"/engine.io/?EIO=4&transport=polling&sid="+sid, "4hello")
				}
				time.Sleep(200 * time.Millisecond)
				ev := log.get()
				t.Logf("events: %v", ev)
				if len(ev) == 0 || ev[0] != "packet" {
					t.Fatalf("packet listener did not run: %v", ev)
				}
				for _, e := range ev {
					if e == "data" || e == "message" {
						t.Errorf("%s delivered although the packet listener closed the session: %v", e, ev)
					}
				}
			})
		}
	}
}

// variant: a data listener closes the session: message still delivered after close?
func TestRevC2ClosedByDataListener(t *testing.T) {
	srv, ts := revServer(t, nil)
	log := &revLog{}
	srv.On("connection", func(a ...any) {
		s := a[0].(Socket)
		s.On("data", func(...any) { log.add("data"); s.Close(true) })
		s.On("message", func(...any) { log.add("message") })
		s.On("close", func(...any) { log.add("close") })
	})
	c := revWsDial(t, ts, "EIO=4&transport=websocket")
	c.ReadMessage()
	c.WriteMessage(websocket.TextMessage, []byte("4hello"))
	time.Sleep(200 * time.Millisecond)
	ev := log.get()
	t.Logf("events: %v", ev)
	if after := revAfterClose(ev); len(after) > 0 {
		t.Errorf("events delivered after the close event: %v (all: %v)", after, ev)
	}
}
