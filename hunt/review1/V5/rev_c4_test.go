package engine

import (
	"strings"
	"testing"
	"time"

	"github.com/zishang520/engine.io/v2/config"
	"github.com/zishang520/engine.io/v2/transports"
	"github.com/zishang520/engine.io/v2/types"
)

var revUpg = map[string]string{
	"Connection":            "Upgrade",
	"Upgrade":               "websocket",
	"Sec-WebSocket-Version": "13",
	"Sec-WebSocket-Key":     "dGhlIHNhbXBsZSBub25jZQ==",
}

// 2fb2bf7
func TestRevC4UpgradeWithoutWebsocket(t *testing.T) {
	opts := &config.ServerOptions{}
	opts.SetTransports(types.NewSet(transports.POLLING))
	srv, ts := revServer(t, opts)
	errs := make(chan *types.ErrorMessage, 16)
	srv.On("connection_error", func(a ...any) { errs <- a[0].(*types.ErrorMessage) })
	conns := revOnConnection(srv)

	// handshake attempt on websocket
	resp, body := revGet(t, ts.URL+"/engine.io/?EIO=4&transport=websocket", revUpg)
	if resp.StatusCode != 400 || !strings.Contains(body, `"code":0`) {
		t.Errorf("handshake: %d %q", resp.StatusCode, body)
	}
	select {
	case e := <-errs:
		if e.Code != 0 {
			t.Errorf("connection_error code %d", e.Code)
		}
	case <-time.After(time.Second):
		t.Errorf("no connection_error")
	}

	// polling session, then the upgrade attempt with its sid
	_, body = revGet(t, ts.URL+"/engine.io/?EIO=4&transport=polling", nil)
	sid := revSid(body)
	sock := <-conns
	resp, body = revGet(t, ts.URL+"/engine.io/?EIO=4&transport=websocket&sid="+sid, revUpg)
	if resp.StatusCode != 400 || !strings.Contains(body, `"code":0`) {
		t.Errorf("upgrade: %d %q", resp.StatusCode, body)
	}
	select {
	case <-errs:
	case <-time.After(time.Second):
		t.Errorf("no connection_error")
	}
	if sock.ReadyState() != "open" {
		t.Errorf("session state %s", sock.ReadyState())
	}

	// Upgrade header + transport=polling: a plain handshake
	resp, body = revGet(t, ts.URL+"/engine.io/?EIO=4&transport=polling", revUpg)
	if resp.StatusCode != 200 || revSid(body) == "" {
		t.Errorf("polling handshake with Upgrade header: %d %q", resp.StatusCode, body)
	}
	<-conns

	// Upgrade header + the polling session's poll: answered (by a message)
	done := make(chan string, 1)
	go func() {
		_, b := revGet(t, ts.URL+"/engine.io/?EIO=4&transport=polling&sid="+sid, revUpg)
		done <- b
	}()
	time.Sleep(50 * time.Millisecond)
	sock.Send(strings.NewReader("x"), nil, nil)
	select {
	case b := <-done:
		if b != "4x" {
			t.Errorf("poll body %q", b)
		}
	case <-time.After(2 * time.Second):
		t.Errorf("poll with Upgrade header not answered")
	}

	// unknown sid
	resp, body = revGet(t, ts.URL+"/engine.io/?EIO=4&transport=polling&sid=nope", revUpg)
	if resp.StatusCode != 400 || !strings.Contains(body, `"code":1`) {
		t.Errorf("unknown sid: %d %q", resp.StatusCode, body)
	}
	// POST with upgrade header and no sid
	resp, body = revPost(t, ts.URL+"/engine.io/?EIO=4&transport=polling", "x")
	if resp.StatusCode != 400 {
		t.Errorf("post: %d %q", resp.StatusCode, body)
	}
}

// websocket enabled: behaviour unchanged
func TestRevC4UpgradeWithWebsocket(t *testing.T) {
	srv, ts := revServer(t, nil)
	conns := revOnConnection(srv)
	c := revWsDial(t, ts, "EIO=4&transport=websocket")
	<-conns
	_, msg, _ := c.ReadMessage()
	if !strings.HasPrefix(string(msg), "0{") {
		t.Errorf("open packet %q", msg)
	}
	// upgrade request naming polling
	resp, body := revGet(t, ts.URL+"/engine.io/?EIO=4&transport=polling", revUpg)
	t.Logf("ws upgrade with transport=polling: %d %q", resp.StatusCode, body)
}
