package engine

import (
	"bytes"
	"strings"
	"sync"
	"testing"

	"github.com/gorilla/websocket"
	"github.com/zishang520/engine.io/v2/config"
)

// handshake on polling and return the body of the poll that follows it
func revPollSecond(t *testing.T, base string, eio string) string {
	t.Helper()
	_, body := revGet(t, base+"/engine.io/?EIO="+eio+"&transport=polling", nil)
	sid := revSid(body)
	if sid == "" {
		t.Fatalf("no sid in %q", body)
	}
	_, body = revGet(t, base+"/engine.io/?EIO="+eio+"&transport=polling&sid="+sid, nil)
	return body
}

// a567c3e: plain reader as initial packet reaches every session
func TestRevC3InitialPacketEverySession(t *testing.T) {
	opts := &config.ServerOptions{}
	opts.SetInitialPacket(strings.NewReader("0hello"))
	opts.SetAllowEIO3(true)
	_, ts := revServer(t, opts)
	for i := 0; i < 3; i++ {
		body := revPollSecond(t, ts.URL, "4")
		if body != "40hello" {
			t.Errorf("v4 polling session %d: body %q", i, body)
		}
		body = revPollSecond(t, ts.URL, "3")
		if body != "7:40hello" {
			t.Errorf("v3 polling session %d: body %q", i, body)
		}
		c := revWsDial(t, ts, "EIO=4&transport=websocket")
		c.ReadMessage()
		mt, msg, _ := c.ReadMessage()
		if mt != websocket.TextMessage || string(msg) != "40hello" {
			t.Errorf("ws session %d: %d %q", i, mt, msg)
		}
	}
}

func TestRevC3InitialPacketBinary(t *testing.T) {
	opts := &config.ServerOptions{}
	opts.SetInitialPacket(bytes.NewReader([]byte{1, 2, 3}))
	_, ts := revServer(t, opts)
	for i := 0; i < 3; i++ {
		c := revWsDial(t, ts, "EIO=4&transport=websocket")
		c.ReadMessage()
		mt, msg, _ := c.ReadMessage()
		if mt != websocket.BinaryMessage || !bytes.Equal(msg, []byte{1, 2, 3}) {
			t.Errorf("ws session %d: %d %q", i, mt, msg)
		}
		body := revPollSecond(t, ts.URL, "4")
		if body != "bAQID" {
			t.Errorf("v4 polling session %d: body %q", i, body)
		}
	}
}

func TestRevC3InitialPacketConcurrent(t *testing.T) {
	opts := &config.ServerOptions{}
	opts.SetInitialPacket(strings.NewReader("0hello"))
	_, ts := revServer(t, opts)
	var wg sync.WaitGroup
	for i := 0; i < 40; i++ {
		wg.Add(1)
		go func() {
			defer wg.Done()
			body := revPollSecond(t, ts.URL, "4")
			if body != "40hello" {
				t.Errorf("body %q", body)
			}
		}()
	}
	wg.Wait()
}

// variant: reader set through Opts() after the server was built
func TestRevC3InitialPacketSetLater(t *testing.T) {
	srv, ts := revServer(t, nil)
	srv.Opts().SetInitialPacket(strings.NewReader("0hello"))
	for i := 0; i < 2; i++ {
		body := revPollSecond(t, ts.URL, "4")
		if body != "40hello" {
			t.Errorf("session %d: body %q", i, body)
		}
	}
}

// variant: the same options value used for two servers
func TestRevC3InitialPacketTwoServers(t *testing.T) {
	opts := &config.ServerOptions{}
	opts.SetInitialPacket(strings.NewReader("0hello"))
	for i := 0; i < 2; i++ {
		_, ts := revServer(t, opts)
		body := revPollSecond(t, ts.URL, "4")
		if body != "40hello" {
			t.Errorf("server %d: body %q", i, body)
		}
	}
}

type revFailingReader struct{ n int }

func (r *revFailingReader) Read(p []byte) (int, error) {
	if r.n == 0 {
		r.n++
		return copy(p, "0he"), nil
	}
	return 0, errRevBroken
}

var errRevBroken = &revErr{}

type revErr struct{}

func (*revErr) Error() string { return "broken reader" }

// observation: a failing reader is silently truncated at construction
func TestRevC3InitialPacketFailingReader(t *testing.T) {
	opts := &config.ServerOptions{}
	opts.SetInitialPacket(&revFailingReader{})
	_, ts := revServer(t, opts)
	c := revWsDial(t, ts, "EIO=4&transport=websocket")
	c.ReadMessage()
	mt, msg, err := c.ReadMessage()
	t.Logf("second frame: %d %q %v", mt, msg, err)
}
