package engine

import (
	"fmt"
	"io"
	"strings"
	"sync"
	"sync/atomic"
	"testing"
	"time"

	"github.com/gorilla/websocket"
	"github.com/zishang520/engine.io-go-parser/packet"
	"github.com/zishang520/engine.io/v2/transports"
)

// Send with callbacks while the session upgrades polling -> websocket
func TestRevC1CallbacksAcrossUpgrade(t *testing.T) {
	srv, ts := revServer(t, nil)
	conns := revOnConnection(srv)
	_, body := revGet(t, ts.URL+"/engine.io/?EIO=4&transport=polling", nil)
	sid := revSid(body)
	sock := <-conns

	var flushed sync.Map
	sock.On("flush", func(a ...any) {
		for _, p := range a[0].([]*packet.Packet) {
			if p.Data != nil {
				flushed.Store(p.Data, true)
			}
		}
	})

	var paused, stopSend atomic.Bool
	var sent atomic.Int64
	stopPoll := make(chan struct{})
	var pollWG sync.WaitGroup
	pollWG.Add(1)
	go func() {
		defer pollWG.Done()
		for {
			select {
			case <-stopPoll:
				return
			default:
			}
			revGet(t, ts.URL+"/engine.io/?EIO=4&transport=polling&sid="+sid, nil)
			if paused.Load() {
				return
			}
		}
	}()

	const G = 4
	var early, ran atomic.Int64
	var wg sync.WaitGroup
	for g := 0; g < G; g++ {
		wg.Add(1)
		go func(g int) {
			defer wg.Done()
			for i := 0; !stopSend.Load(); i++ {
				sent.Add(1)
				var data io.Reader = strings.NewReader(fmt.Sprintf("m%d-%d", g, i))
				sock.Send(data, nil, func(transports.Transport) {
					ran.Add(1)
					if _, ok := flushed.Load(data); !ok {
						early.Add(1)
					}
				})
				time.Sleep(100 * time.Microsecond)
			}
		}(g)
	}

	c := revWsDial(t, ts, "EIO=4&transport=websocket&sid="+sid)
	time.Sleep(20 * time.Millisecond) // the reader goroutine of a new websocket transport starts before MaybeUpgrade listens (not under review)
	c.WriteMessage(websocket.TextMessage, []byte("2probe"))
	_, m, err := c.ReadMessage()
	if err != nil || string(m) != "3probe" {
		t.Fatalf("probe: %q %v", m, err)
	}
	paused.Store(true)
	pollWG.Wait()
	c.WriteMessage(websocket.TextMessage, []byte("5"))
	go func() {
		for {
			if _, _, err := c.ReadMessage(); err != nil {
				return
			}
		}
	}()
	time.Sleep(100 * time.Millisecond)
	stopSend.Store(true)
	wg.Wait()
	deadline := time.Now().Add(3 * time.Second)
	for ran.Load() < sent.Load() && time.Now().Before(deadline) {
		time.Sleep(10 * time.Millisecond)
	}
	close(stopPoll)
	if !sock.Upgraded() {
		t.Errorf("not upgraded")
	}
	if e := early.Load(); e != 0 {
		t.Errorf("%d callbacks ran before the flush event of their packet", e)
	}
	if r := ran.Load(); r != sent.Load() {
		t.Errorf("callbacks run: %d, want %d", r, sent.Load())
	}
}
