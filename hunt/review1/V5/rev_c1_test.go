package engine

import (
	"fmt"
	"io"
	"strings"
	"sync"
	"sync/atomic"
	"testing"
	"time"

	"github.com/zishang520/engine.io-go-parser/packet"
	"github.com/zishang520/engine.io/v2/transports"
)

// 7ac5715: every callback runs after the flush event of the batch that carries
// its packet, and exactly once.
func TestRevC1CallbackAfterFlush(t *testing.T) {
	for _, tr := range []string{"websocket", "polling"} {
		t.Run(tr, func(t *testing.T) {
			srv, ts := revServer(t, nil)
			conns := revOnConnection(srv)

			var sock Socket
			stop := make(chan struct{})
			var clientWG sync.WaitGroup
			if tr == "websocket" {
				c := revWsDial(t, ts, "EIO=4&transport=websocket")
				sock = <-conns
				clientWG.Add(1)
				go func() {
					defer clientWG.Done()
					for {
						if _, _, err := c.ReadMessage(); err != nil {
							return
						}
					}
				}()
			} else {
				_, body := revGet(t, ts.URL+"/engine.io/?EIO=4&transport=polling", nil)
				sid := revSid(body)
				sock = <-conns
				clientWG.Add(1)
				go func() {
					defer clientWG.Done()
					for {
						select {
						case <-stop:
							return
						default:
						}
						resp, _ := revGet(t, ts.URL+"/engine.io/?EIO=4&transport=polling&sid="+sid, nil)
						if resp.StatusCode != 200 {
							return
						}
					}
				}()
			}

			var flushed sync.Map // io.Reader -> true
			sock.On("flush", func(a ...any) {
				for _, p := range a[0].([]*packet.Packet) {
					if p.Data != nil {
						flushed.Store(p.Data, true)
					}
				}
			})

			const G, N = 8, 300
			var early, ran atomic.Int64
			var wg sync.WaitGroup
			for g := 0; g < G; g++ {
				wg.Add(1)
				go func(g int) {
					defer wg.Done()
					for i := 0; i < N; i++ {
						var data io.Reader = strings.NewReader(fmt.Sprintf("m%d-%d", g, i))
						sock.Send(data, nil, func(transports.Transport) {
							ran.Add(1)
							if _, ok := flushed.Load(data); !ok {
								early.Add(1)
							}
						})
					}
				}(g)
			}
			wg.Wait()
			deadline := time.Now().Add(5 * time.Second)
			for ran.Load() < G*N && time.Now().Before(deadline) {
				time.Sleep(10 * time.Millisecond)
			}
			close(stop)
			if e := early.Load(); e != 0 {
				t.Errorf("%d callbacks ran before the flush event of their packet", e)
			}
			if r := ran.Load(); r != G*N {
				t.Errorf("callbacks run: %d, want %d", r, G*N)
			}
			sock.Close(true)
			clientWG.Wait()
		})
	}
}
