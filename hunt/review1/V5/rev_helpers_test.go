package engine

import (
	"os"
	elog "github.com/zishang520/engine.io/v2/log"
	"io"
	"net/http"
	"net/http/httptest"
	"strings"
	"sync"
	"testing"
	"time"

	"github.com/gorilla/websocket"
	"github.com/zishang520/engine.io/v2/config"
	"github.com/zishang520/engine.io/v2/types"
)

func revServer(t *testing.T, opts *config.ServerOptions) (Server, *httptest.Server) {
	t.Helper()
	if opts == nil {
		opts = &config.ServerOptions{}
	}
	srv := NewServer(opts)
	ts := httptest.NewServer(http.HandlerFunc(func(w http.ResponseWriter, r *http.Request) {
		srv.ServeHTTP(w, r)
	}))
	t.Cleanup(func() {
		srv.Close()
		ts.CloseClientConnections()
		ts.Close()
	})
	return srv, ts
}

func revGet(t *testing.T, url string, hdr map[string]string) (*http.Response, string) {
	t.Helper()
	req, _ := http.NewRequest("GET", url, nil)
	for k, v := range hdr {
		req.Header.Set(k, v)
	}
	c := &http.Client{Timeout: 5 * time.Second}
	resp, err := c.Do(req)
	if err != nil {
		t.Fatalf("GET %s: %v", url, err)
	}
	b, _ := io.ReadAll(resp.Body)
	resp.Body.Close()
	return resp, string(b)
}

func revPost(t *testing.T, url string, body string) (*http.Response, string) {
	t.Helper()
	req, _ := http.NewRequest("POST", url, strings.NewReader(body))
	req.Header.Set("Content-Type", "text/plain;charset=UTF-8")
	c := &http.Client{Timeout: 5 * time.Second}
	resp, err := c.Do(req)
	if err != nil {
		t.Fatalf("POST %s: %v", url, err)
	}
	b, _ := io.ReadAll(resp.Body)
	resp.Body.Close()
	return resp, string(b)
}

func revWsDial(t *testing.T, ts *httptest.Server, query string) *websocket.Conn {
	t.Helper()
	u := "ws" + strings.TrimPrefix(ts.URL, "http") + "/engine.io/?" + query
	c, _, err := websocket.DefaultDialer.Dial(u, nil)
	if err != nil {
		t.Fatalf("dial %s: %v", u, err)
	}
	t.Cleanup(func() { c.Close() })
	return c
}

// waits for the next connection
func revOnConnection(srv Server) chan Socket {
	ch := make(chan Socket, 16)
	srv.On("connection", func(a ...any) { ch <- a[0].(Socket) })
	return ch
}

func revSid(body string) string {
	body = strings.ReplaceAll(body, `\"`, `"`)
	i := strings.Index(body, `"sid":"`)
	if i < 0 {
		return ""
	}
	rest := body[i+7:]
	return rest[:strings.Index(rest, `"`)]
}

var _ = sync.Mutex{}
var _ = types.NewSet[string]

func init() {
	if os.Getenv("DEBUG") != "" {
		elog.DEBUG = true
	}
}
