package engine

import (
	"testing"
	"time"

	"github.com/gorilla/websocket"
)

// Side observation S1 (older than the reviewed commits): a probe sent as soon
// as the websocket handshake completes is sometimes never answered. The
// transport's reader goroutine is started by Construct (websocket.go:54), i.e.
// by CreateTransport, before MaybeUpgrade attaches its "packet" listener
// (socket.go:483); a frame read in between is emitted to nobody.
func TestRevLostProbeStress(t *testing.T) {
	e := revNew(t, nil)
	fails := 0
	const n = 1500
	for i := 0; i < n; i++ {
		sid, s := e.handshake("4")
		ws, _, err := e.dialWS("EIO=4&transport=websocket&sid=" + sid)
		if err != nil {
			t.Fatal(err)
		}
		ws.WriteMessage(websocket.TextMessage, []byte("2probe"))
		if m, err := wsReadText(ws, 500*time.Millisecond); err != nil || m != "3probe" {
			fails++
			t.Logf("iter %d: probe answer %q %v; upgrading %v, state %s", i, m, err, s.Upgrading(), s.ReadyState())
		}
		ws.Close()
		s.Close(true)
	}
	if fails > 0 {
		t.Fatalf("%d/%d probes unanswered", fails, n)
	}
}
