package engine

import (
	"io"
	"strings"
	"testing"
	"time"

	"github.com/gorilla/websocket"
	"github.com/zishang520/engine.io/v2/config"
)

// normal upgrade flow
func (e *revEnv) upgradeWS(sid string, s Socket) *websocket.Conn {
	poll := e.pollAsync(sid, "4")
	ws, _, err := e.dialWS("EIO=4&transport=websocket&sid=" + sid)
	if err != nil {
		e.t.Fatal(err)
	}
	time.Sleep(20 * time.Millisecond)
	ws.WriteMessage(websocket.TextMessage, []byte("2probe"))
	if m, err := wsReadText(ws, 2*time.Second); err != nil || m != "3probe" {
		e.t.Fatalf("probe answer %q %v", m, err)
	}
	select {
	case r := <-poll:
		if r.body != "6" {
			e.t.Fatalf("poll answered %q", r.body)
		}
	case <-time.After(2 * time.Second):
		e.t.Fatal("poll not released by noop")
	}
	ws.WriteMessage(websocket.TextMessage, []byte("5"))
	if !waitFor(2*time.Second, func() bool { return s.Upgraded() && s.Transport().Name() == "websocket" }) {
		e.t.Fatal("not upgraded")
	}
	return ws
}

func TestRevNormalUpgrade(t *testing.T) {
	e := revNew(t, func(o *config.ServerOptions) { o.SetUpgradeTimeout(300 * time.Millisecond) })
	sid, s := e.handshake("4")
	// drain the open packet's poll? the handshake response carried it
	ws := e.upgradeWS(sid, s)
	defer ws.Close()
	time.Sleep(500 * time.Millisecond) // past the upgrade timeout
	if s.ReadyState() != "open" {
		t.Fatalf("state %s, closes %v", s.ReadyState(), e.closeReasons(sid))
	}
	got := make(chan string, 1)
	s.On("message", func(a ...any) {
		b, _ := io.ReadAll(a[0].(io.Reader))
		got <- string(b)
	})
	ws.WriteMessage(websocket.TextMessage, []byte("4hello"))
	select {
	case m := <-got:
		if m != "hello" {
			t.Fatal(m)
		}
	case <-time.After(time.Second):
		t.Fatal("no message")
	}
	s.Send(strings.NewReader("world"), nil, nil)
	if m, err := wsReadText(ws, time.Second); err != nil || m != "4world" {
		t.Fatalf("%q %v", m, err)
	}
}

// 3f64a39 (a): allowUpgrades=false
func TestRevNoUpgradesAllowed(t *testing.T) {
	e := revNew(t, func(o *config.ServerOptions) { o.SetAllowUpgrades(false) })
	sid, s := e.handshake("4")
	poll := e.pollAsync(sid, "4")
	time.Sleep(50 * time.Millisecond)
	ws, _, err := e.dialWS("EIO=4&transport=websocket&sid=" + sid)
	if err != nil {
		t.Fatal(err)
	}
	defer ws.Close()
	ws.WriteMessage(websocket.TextMessage, []byte("2probe"))
	m, err := wsReadText(ws, time.Second)
	if err == nil {
		t.Fatalf("candidate answered %q", m)
	}
	if s.Upgrading() || s.Upgraded() || s.ReadyState() != "open" || s.Transport().Name() != "polling" {
		t.Fatalf("upgrading %v upgraded %v state %s", s.Upgrading(), s.Upgraded(), s.ReadyState())
	}
	s.Send(strings.NewReader("x"), nil, nil)
	select {
	case r := <-poll:
		if r.body != "4x" {
			t.Fatalf("poll %q", r.body)
		}
	case <-time.After(time.Second):
		t.Fatal("poll unanswered")
	}
}

// 3f64a39 (b): second websocket for a websocket session
func TestRevSecondWebsocket(t *testing.T) {
	e := revNew(t, nil)
	ws1, _, err := e.dialWS("EIO=4&transport=websocket")
	if err != nil {
		t.Fatal(err)
	}
	defer ws1.Close()
	open, err := wsReadText(ws1, time.Second)
	if err != nil {
		t.Fatal(err)
	}
	s := <-e.connCh
	sid := s.Id()
	if !strings.Contains(open, sid) {
		t.Fatal(open)
	}
	ws2, _, err := e.dialWS("EIO=4&transport=websocket&sid=" + sid)
	if err != nil {
		t.Fatal(err)
	}
	defer ws2.Close()
	ws2.WriteMessage(websocket.TextMessage, []byte("2probe"))
	if m, err := wsReadText(ws2, time.Second); err == nil {
		t.Fatalf("candidate answered %q", m)
	}
	ws2.WriteMessage(websocket.TextMessage, []byte("5"))
	time.Sleep(100 * time.Millisecond)
	if s.Upgrading() || s.Upgraded() || s.ReadyState() != "open" {
		t.Fatalf("upgrading %v upgraded %v state %s", s.Upgrading(), s.Upgraded(), s.ReadyState())
	}
	s.Send(strings.NewReader("x"), nil, nil)
	if m, err := wsReadText(ws1, time.Second); err != nil || m != "4x" {
		t.Fatalf("%q %v", m, err)
	}
}

// 55be51f: upgrade packet without probe
func TestRevUpgradeWithoutProbe(t *testing.T) {
	e := revNew(t, nil)
	sid, s := e.handshake("4")
	poll := e.pollAsync(sid, "4")
	time.Sleep(50 * time.Millisecond)
	ws, _, err := e.dialWS("EIO=4&transport=websocket&sid=" + sid)
	if err != nil {
		t.Fatal(err)
	}
	defer ws.Close()
	ws.WriteMessage(websocket.TextMessage, []byte("5"))
	if m, err := wsReadText(ws, time.Second); err == nil {
		t.Fatalf("candidate got %q", m)
	}
	if !waitFor(time.Second, func() bool { return !s.Upgrading() }) {
		t.Fatal("still upgrading")
	}
	if s.Upgraded() || s.ReadyState() != "open" || s.Transport().Name() != "polling" {
		t.Fatalf("upgraded %v state %s transport %s", s.Upgraded(), s.ReadyState(), s.Transport().Name())
	}
	select {
	case r := <-poll:
		t.Fatalf("poll answered %q", r.body)
	case <-time.After(200 * time.Millisecond):
	}
	s.Send(strings.NewReader("x"), nil, nil)
	select {
	case r := <-poll:
		if r.body != "4x" {
			t.Fatalf("poll %q", r.body)
		}
	case <-time.After(time.Second):
		t.Fatal("poll unanswered")
	}
	// a later, well-formed attempt still works
	ws2 := e.upgradeWS(sid, s)
	ws2.Close()
}
