package engine

import (
	"context"
	"crypto/ecdsa"
	"crypto/elliptic"
	"crypto/rand"
	"crypto/tls"
	"crypto/x509"
	"crypto/x509/pkix"
	"fmt"
	"math/big"
	"net"
	"net/http"
	"testing"
	"time"

	"github.com/gorilla/websocket"
	"github.com/quic-go/quic-go"
	"github.com/quic-go/quic-go/http3"
	"github.com/zishang520/engine.io/v2/config"
	"github.com/zishang520/engine.io/v2/types"
	webtrans "github.com/zishang520/engine.io/v2/webtransport"
	"github.com/zishang520/webtransport-go"
)

func revTLS(t *testing.T) *tls.Config {
	key, err := ecdsa.GenerateKey(elliptic.P256(), rand.Reader)
	if err != nil {
		t.Fatal(err)
	}
	tmpl := &x509.Certificate{
		SerialNumber: big.NewInt(1),
		Subject:      pkix.Name{CommonName: "localhost"},
		NotBefore:    time.Now().Add(-time.Hour),
		NotAfter:     time.Now().Add(time.Hour),
		KeyUsage:     x509.KeyUsageDigitalSignature,
		ExtKeyUsage:  []x509.ExtKeyUsage{x509.ExtKeyUsageServerAuth},
		IPAddresses:  []net.IP{net.ParseIP("127.0.0.1")},
		DNSNames:     []string{"localhost"},
	}
	der, err := x509.CreateCertificate(rand.Reader, tmpl, tmpl, &key.PublicKey, key)
	if err != nil {
		t.Fatal(err)
	}
	return &tls.Config{Certificates: []tls.Certificate{{Certificate: [][]byte{der}, PrivateKey: key}}, NextProtos: []string{"h3"}}
}

type wtEnv struct {
	*revEnv
	url string
}

func revNewWT(t *testing.T, mod func(o *config.ServerOptions)) *wtEnv {
	e := revNew(t, mod)
	udp, err := net.ListenUDP("udp", &net.UDPAddr{IP: net.ParseIP("127.0.0.1")})
	if err != nil {
		t.Fatal(err)
	}
	mux := http.NewServeMux()
	srv := &webtransport.Server{
		H3:          http3.Server{TLSConfig: revTLS(t), Handler: mux, QUICConfig: &quic.Config{EnableDatagrams: true}},
		CheckOrigin: func(*http.Request) bool { return true },
	}
	mux.HandleFunc("/engine.io/", func(w http.ResponseWriter, r *http.Request) {
		e.eng.OnWebTransportSession(types.NewHttpContext(w, r), srv)
	})
	go srv.Serve(udp)
	t.Cleanup(func() { srv.Close(); udp.Close() })
	return &wtEnv{revEnv: e, url: fmt.Sprintf("https://127.0.0.1:%d/engine.io/", udp.LocalAddr().(*net.UDPAddr).Port)}
}

func (e *wtEnv) dialWT(first string) (*webtrans.Conn, func()) {
	d := &webtransport.Dialer{
		TLSClientConfig: &tls.Config{InsecureSkipVerify: true, NextProtos: []string{"h3"}},
		QUICConfig:      &quic.Config{EnableDatagrams: true},
	}
	ctx, cancel := context.WithTimeout(context.Background(), 5*time.Second)
	defer cancel()
	_, sess, err := d.Dial(ctx, e.url, nil)
	if err != nil {
		e.t.Fatal(err)
	}
	st, err := sess.OpenStreamSync(ctx)
	if err != nil {
		e.t.Fatal(err)
	}
	c := webtrans.NewConn(sess, st, false, 0, 0, nil, nil, nil)
	if err := c.WriteMessage(webtrans.TextMessage, []byte(first)); err != nil {
		e.t.Fatal(err)
	}
	return c, func() { sess.CloseWithError(0, ""); d.Close() }
}

func wtRead(c *webtrans.Conn, d time.Duration) (string, error) {
	type res struct {
		m   string
		err error
	}
	ch := make(chan res, 1)
	go func() {
		_, b, err := c.ReadMessage()
		ch <- res{string(b), err}
	}()
	select {
	case r := <-ch:
		return r.m, r.err
	case <-time.After(d):
		return "", context.DeadlineExceeded
	}
}

func wtTransports(o *config.ServerOptions) {
	o.SetTransports(types.NewSet("polling", "websocket", "webtransport"))
}

// the WebTransport upgrade works at all
func TestRevWTUpgrade(t *testing.T) {
	e := revNewWT(t, wtTransports)
	sid, s := e.handshake("4")
	poll := e.pollAsync(sid, "4")
	c, done := e.dialWT(`0{"sid":"` + sid + `"}`)
	defer done()
	time.Sleep(50 * time.Millisecond)
	c.WriteMessage(webtrans.TextMessage, []byte("2probe"))
	if m, err := wtRead(c, 2*time.Second); err != nil || m != "3probe" {
		t.Fatalf("probe answer %q %v", m, err)
	}
	if r := <-poll; r.body != "6" {
		t.Fatalf("poll %q", r.body)
	}
	c.WriteMessage(webtrans.TextMessage, []byte("5"))
	if !waitFor(time.Second, func() bool { return s.Upgraded() && s.Transport().Name() == "webtransport" }) {
		t.Fatal("not upgraded")
	}
}

// 3f64a39, second site: allowUpgrades=false
func TestRevWTNoUpgradesAllowed(t *testing.T) {
	e := revNewWT(t, func(o *config.ServerOptions) { wtTransports(o); o.SetAllowUpgrades(false) })
	sid, s := e.handshake("4")
	c, done := e.dialWT(`0{"sid":"` + sid + `"}`)
	defer done()
	time.Sleep(50 * time.Millisecond)
	c.WriteMessage(webtrans.TextMessage, []byte("2probe"))
	if m, err := wtRead(c, time.Second); err == nil {
		t.Fatalf("candidate answered %q", m)
	} else if err == context.DeadlineExceeded {
		t.Fatalf("candidate left open")
	}
	if s.Upgrading() || s.Upgraded() || s.ReadyState() != "open" {
		t.Fatalf("upgrading %v upgraded %v state %s", s.Upgrading(), s.Upgraded(), s.ReadyState())
	}
}

// 3f64a39, second site: a WebTransport candidate for a websocket session
func TestRevWTForWebsocketSession(t *testing.T) {
	e := revNewWT(t, wtTransports)
	ws1, _, err := e.dialWS("EIO=4&transport=websocket")
	if err != nil {
		t.Fatal(err)
	}
	defer ws1.Close()
	wsReadText(ws1, time.Second)
	s := <-e.connCh
	c, done := e.dialWT(`0{"sid":"` + s.Id() + `"}`)
	defer done()
	time.Sleep(50 * time.Millisecond)
	c.WriteMessage(webtrans.TextMessage, []byte("2probe"))
	if m, err := wtRead(c, time.Second); err == nil {
		t.Fatalf("candidate answered %q", m)
	} else if err == context.DeadlineExceeded {
		t.Fatalf("candidate left open")
	}
	if s.Upgrading() || s.Upgraded() || s.ReadyState() != "open" || s.Transport().Name() != "websocket" {
		t.Fatalf("upgrading %v upgraded %v state %s", s.Upgrading(), s.Upgraded(), s.ReadyState())
	}
	ws1.WriteMessage(websocket.TextMessage, []byte("4x"))
}

// 55be51f on WebTransport
func TestRevWTUpgradeWithoutProbe(t *testing.T) {
	e := revNewWT(t, wtTransports)
	sid, s := e.handshake("4")
	c, done := e.dialWT(`0{"sid":"` + sid + `"}`)
	defer done()
	time.Sleep(50 * time.Millisecond)
	c.WriteMessage(webtrans.TextMessage, []byte("5"))
	if m, err := wtRead(c, time.Second); err == nil {
		t.Fatalf("candidate got %q", m)
	} else if err == context.DeadlineExceeded {
		t.Fatalf("candidate left open")
	}
	if s.Upgrading() || s.Upgraded() || s.ReadyState() != "open" || s.Transport().Name() != "polling" {
		t.Fatalf("upgrading %v upgraded %v state %s %s", s.Upgrading(), s.Upgraded(), s.ReadyState(), s.Transport().Name())
	}
}

// sibling of 3f64a39: the open packet of this session did not offer
// webtransport (it is not among the server's transports)
func TestRevWTNotAmongTransports(t *testing.T) {
	e := revNewWT(t, nil) // transports: polling, websocket (default)
	sid, s := e.handshake("4")
	c, done := e.dialWT(`0{"sid":"` + sid + `"}`)
	defer done()
	time.Sleep(50 * time.Millisecond)
	c.WriteMessage(webtrans.TextMessage, []byte("2probe"))
	if m, err := wtRead(c, time.Second); err == nil {
		t.Errorf("candidate answered %q", m)
	}
	if s.Upgrading() {
		t.Errorf("session is upgrading to a transport the server does not offer")
	}
}
