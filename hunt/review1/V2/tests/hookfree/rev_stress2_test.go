package engine

import (
	"math/rand"
	"testing"
	"time"

	"github.com/gorilla/websocket"
)

// no hooks: a close cause fired at a random moment around the upgrade packet
func TestRevStressCloseVsUpgrade(t *testing.T) {
	e := revNew(t, nil)
	bad := 0
	for i := 0; i < 300; i++ {
		c := closers[i%len(closers)]
		sid, s := e.handshake("4")
		ws := e.probeWS(sid)
		d := time.Duration(rand.Intn(400)) * time.Microsecond
		go func() {
			time.Sleep(d)
			c.f(s.(*socket))
		}()
		ws.WriteMessage(websocket.TextMessage, []byte("5"))
		ok := waitFor(2*time.Second, func() bool {
			_, reg := e.eng.Clients().Load(sid)
			return s.ReadyState() == "closed" && !reg && len(e.closeReasons(sid)) == 1
		})
		if !ok {
			bad++
			_, reg := e.eng.Clients().Load(sid)
			t.Errorf("iter %d %s d=%v: state %s registered %v closes %v transport %s/%s", i, c.name, d, s.ReadyState(), reg, e.closeReasons(sid), s.Transport().Name(), s.Transport().ReadyState())
		}
		ws.SetReadDeadline(time.Now().Add(time.Second))
		for {
			_, _, err := ws.ReadMessage()
			if err != nil {
				if ne, ok := err.(interface{ Timeout() bool }); ok && ne.Timeout() {
					bad++
					t.Errorf("iter %d %s d=%v: candidate left open (upgraded %v, transport %s/%s)", i, c.name, d, s.Upgraded(), s.Transport().Name(), s.Transport().ReadyState())
				}
				break
			}
		}
		ws.Close()
		if bad > 5 {
			break
		}
	}
}
