package engine

import (
	"sync"
	"testing"
	"time"

	"github.com/gorilla/websocket"
	"github.com/zishang520/engine.io/v2/transports"
	"github.com/zishang520/engine.io/v2/types"
)

// F1, on the unpatched tree. The session ends (here: as by a ping timeout)
// after server.onWebSocket has looked it up (server.go:190) and before
// MaybeUpgrade registers its "close" listener on it (socket.go:487). The only
// statement of the library that runs in between and can be observed from
// outside is CreateTransport -> TransportCtor.New, so the close is placed there.
type closingBuilder struct {
	transports.TransportCtor
	before func(ctx *types.HttpContext)
}

func (b *closingBuilder) New(ctx *types.HttpContext) transports.Transport {
	b.before(ctx)
	return b.TransportCtor.New(ctx)
}

func TestRevF1NoHook(t *testing.T) {
	e := revNew(t, nil) // upgradeTimeout: 10 s (default)
	sid, s := e.handshake("4")

	orig := transports.Transports()[transports.WEBSOCKET]
	var once sync.Once
	transports.Transports()[transports.WEBSOCKET] = &closingBuilder{TransportCtor: orig, before: func(ctx *types.HttpContext) {
		if ctx.Query().Peek("sid") == sid {
			once.Do(func() { s.(*socket).OnClose("ping timeout") })
		}
	}}
	defer func() { transports.Transports()[transports.WEBSOCKET] = orig }()

	ws, _, err := e.dialWS("EIO=4&transport=websocket&sid=" + sid)
	if err != nil {
		t.Fatal(err)
	}
	defer ws.Close()
	time.Sleep(50 * time.Millisecond)
	if s.ReadyState() != "closed" {
		t.Fatalf("state %s", s.ReadyState())
	}
	upgrading := make(chan struct{}, 1)
	s.On("upgrading", func(...any) { upgrading <- struct{}{} })
	ws.WriteMessage(websocket.TextMessage, []byte("2probe"))
	m, err := wsReadText(ws, time.Second)
	if err == nil {
		t.Errorf("closed session: candidate answered %q", m)
	} else if ne, ok := err.(interface{ Timeout() bool }); ok && ne.Timeout() {
		t.Errorf("closed session: candidate connection left open")
	}
	select {
	case <-upgrading:
		t.Errorf("closed session emitted 'upgrading'")
	default:
	}
	if s.Upgrading() {
		t.Errorf("closed session still upgrading")
	}
}
