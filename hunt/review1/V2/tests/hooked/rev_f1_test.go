package engine

import (
	"sync"
	"testing"
	"time"

	"github.com/gorilla/websocket"
)

// needs sleep-1.diff (revHook).
// Variant of 22efbbe: the session closes after the server looked it up and
// before MaybeUpgrade has registered its "close" listener on the session.
func TestRevF1SessionClosesBeforeAttemptListens(t *testing.T) {
	for _, point := range []string{"maybe:pre-listeners", "maybe:mid-listeners"} {
		t.Run(point, func(t *testing.T) {
			var once sync.Once
			setHook(t, func(p string, s *socket) {
				if p == point {
					once.Do(func() { s.OnClose("ping timeout") })
				}
			})
			e := revNew(t, nil) // upgradeTimeout 10 s (default)
			sid, s := e.handshake("4")
			ws, _, err := e.dialWS("EIO=4&transport=websocket&sid=" + sid)
			if err != nil {
				t.Fatal(err)
			}
			defer ws.Close()
			time.Sleep(50 * time.Millisecond)
			if s.ReadyState() != "closed" {
				t.Fatalf("state %s", s.ReadyState())
			}
			upgrading := make(chan struct{}, 1)
			s.On("upgrading", func(...any) { upgrading <- struct{}{} })
			ws.WriteMessage(websocket.TextMessage, []byte("2probe"))
			m, err := wsReadText(ws, time.Second)
			if err == nil {
				t.Errorf("closed session: candidate answered %q", m)
			} else if ne, ok := err.(interface{ Timeout() bool }); ok && ne.Timeout() {
				t.Errorf("closed session: candidate connection left open")
			}
			select {
			case <-upgrading:
				t.Errorf("closed session emitted 'upgrading'")
			default:
			}
			if s.Upgrading() {
				t.Errorf("closed session still upgrading")
			}
		})
	}
}
