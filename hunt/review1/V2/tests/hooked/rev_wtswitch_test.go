package engine

import (
	"context"
	"sync"
	"testing"
	"time"

	webtrans "github.com/zishang520/engine.io/v2/webtransport"
)

// needs sleep-1.diff (revHook)

// 22efbbe with a WebTransport candidate
func TestRevWTCloseDuringSwitch(t *testing.T) {
	for _, c := range closers {
		for _, point := range switchPoints {
			t.Run(c.name+"@"+point, func(t *testing.T) {
				var once sync.Once
				setHook(t, func(p string, s *socket) {
					if p == point {
						once.Do(func() {
							done := make(chan struct{})
							go func() { c.f(s); close(done) }()
							select {
							case <-done:
							case <-time.After(time.Second):
								t.Errorf("closer blocked")
							}
						})
					}
				})
				e := revNewWT(t, wtTransports)
				sid, s := e.handshake("4")
				poll := e.pollAsync(sid, "4")
				c, done := e.dialWT(`0{"sid":"` + sid + `"}`)
				defer done()
				time.Sleep(50 * time.Millisecond)
				c.WriteMessage(webtrans.TextMessage, []byte("2probe"))
				if m, err := wtRead(c, 2*time.Second); err != nil || m != "3probe" {
					t.Fatalf("probe answer %q %v", m, err)
				}
				<-poll
				c.WriteMessage(webtrans.TextMessage, []byte("5"))
				if !waitFor(2*time.Second, func() bool { return s.ReadyState() == "closed" }) {
					t.Errorf("session state %s", s.ReadyState())
				}
				waitFor(2*time.Second, func() bool { return len(e.closeReasons(sid)) > 0 })
				if _, ok := e.eng.Clients().Load(sid); ok {
					t.Errorf("session still registered")
				}
				if r := e.closeReasons(sid); len(r) != 1 {
					t.Errorf("close events %v", r)
				}
				for {
					m, err := wtRead(c, time.Second)
					if err == context.DeadlineExceeded {
						t.Errorf("candidate left open")
					}
					if err != nil {
						break
					}
					t.Logf("candidate got %q", m)
				}
			})
		}
	}
}
