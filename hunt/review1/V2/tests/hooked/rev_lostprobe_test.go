package engine

import (
	"testing"
	"time"

	"github.com/gorilla/websocket"
)

// side observation (not one of the reviewed commits): the websocket reader
// goroutine starts in Construct, before MaybeUpgrade attaches its listeners
func TestRevLostProbe(t *testing.T) {
	setHook(t, func(p string, s *socket) {
		if p == "maybe:pre-listeners" {
			time.Sleep(50 * time.Millisecond)
		}
	})
	e := revNew(t, nil)
	sid, _ := e.handshake("4")
	ws, _, err := e.dialWS("EIO=4&transport=websocket&sid=" + sid)
	if err != nil {
		t.Fatal(err)
	}
	defer ws.Close()
	ws.WriteMessage(websocket.TextMessage, []byte("2probe"))
	if m, err := wsReadText(ws, 500*time.Millisecond); err != nil || m != "3probe" {
		t.Fatalf("probe answer %q %v", m, err)
	}
}
