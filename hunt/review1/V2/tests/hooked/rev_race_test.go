package engine

import (
	"fmt"
	"strings"
	"sync"
	"testing"
	"time"

	"github.com/gorilla/websocket"
	"github.com/zishang520/engine.io/v2/config"
)

// needs sleep-1.diff (revHook)

func setHook(t *testing.T, f func(point string, s *socket)) {
	old := revHook
	revHook = f
	t.Cleanup(func() { revHook = old })
}

// dbd3d2b A: the timeout callback has started when the upgrade packet arrives
func TestRevTimeoutVsUpgrade(t *testing.T) {
	entered := make(chan struct{})
	release := make(chan struct{})
	setHook(t, func(p string, s *socket) {
		if p == "timeout:pre-conclude" {
			close(entered)
			<-release
		}
	})
	e := revNew(t, func(o *config.ServerOptions) { o.SetUpgradeTimeout(300 * time.Millisecond) })
	sid, s := e.handshake("4")
	ws := e.probeWS(sid)
	defer ws.Close()
	<-entered
	ws.WriteMessage(websocket.TextMessage, []byte("5"))
	if !waitFor(time.Second, func() bool { return s.Upgraded() }) {
		t.Fatal("not upgraded")
	}
	close(release)
	time.Sleep(200 * time.Millisecond)
	if s.ReadyState() != "open" || s.Transport().ReadyState() != "open" {
		t.Fatalf("session %s transport %s closes %v", s.ReadyState(), s.Transport().ReadyState(), e.closeReasons(sid))
	}
	s.Send(strings.NewReader("x"), nil, nil)
	if m, err := wsReadText(ws, time.Second); err != nil || m != "4x" {
		t.Fatalf("%q %v", m, err)
	}
}

// dbd3d2b A': the upgrade path has concluded, the timeout fires while it switches
func TestRevUpgradeVsTimeout(t *testing.T) {
	for _, point := range []string{"upgrade:post-conclude", "upgrade:post-cleanup", "upgrade:post-clear", "upgrade:post-set"} {
		t.Run(point, func(t *testing.T) {
			setHook(t, func(p string, s *socket) {
				if p == point {
					time.Sleep(400 * time.Millisecond)
				}
			})
			e := revNew(t, func(o *config.ServerOptions) { o.SetUpgradeTimeout(300 * time.Millisecond) })
			sid, s := e.handshake("4")
			ws := e.probeWS(sid)
			defer ws.Close()
			time.Sleep(150 * time.Millisecond)
			ws.WriteMessage(websocket.TextMessage, []byte("5"))
			time.Sleep(700 * time.Millisecond)
			if !s.Upgraded() || s.ReadyState() != "open" || s.Transport().ReadyState() != "open" || s.Transport().Name() != "websocket" {
				t.Fatalf("upgraded %v session %s transport %s %s closes %v", s.Upgraded(), s.ReadyState(), s.Transport().Name(), s.Transport().ReadyState(), e.closeReasons(sid))
			}
			s.Send(strings.NewReader("x"), nil, nil)
			if m, err := wsReadText(ws, time.Second); err != nil || m != "4x" {
				t.Fatalf("%q %v", m, err)
			}
		})
	}
}

// dbd3d2b B: the attempt ends (timeout) while the probe is being answered
func TestRevProbeVsTimeout(t *testing.T) {
	setHook(t, func(p string, s *socket) {
		if p == "probe:pre-arm" {
			time.Sleep(300 * time.Millisecond)
		}
	})
	e := revNew(t, func(o *config.ServerOptions) { o.SetUpgradeTimeout(100 * time.Millisecond) })
	sid, s := e.handshake("4")
	ws, _, err := e.dialWS("EIO=4&transport=websocket&sid=" + sid)
	if err != nil {
		t.Fatal(err)
	}
	defer ws.Close()
	ws.WriteMessage(websocket.TextMessage, []byte("2probe"))
	time.Sleep(500 * time.Millisecond)
	if s.Upgrading() || s.Upgraded() || s.ReadyState() != "open" {
		t.Fatalf("upgrading %v upgraded %v state %s", s.Upgrading(), s.Upgraded(), s.ReadyState())
	}
	// no noop interval is left behind: polls stay pending
	for i := 0; i < 3; i++ {
		poll := e.pollAsync(sid, "4")
		select {
		case r := <-poll:
			t.Fatalf("poll %d answered %q", i, r.body)
		case <-time.After(300 * time.Millisecond):
		}
		s.Send(strings.NewReader("x"), nil, nil)
		select {
		case r := <-poll:
			if r.body != "4x" {
				t.Fatalf("poll %q", r.body)
			}
		case <-time.After(time.Second):
			t.Fatal("poll unanswered")
		}
	}
}

// 22efbbe: a close cause runs completely at one point of the switch
func TestRevCloseDuringSwitchSequential(t *testing.T) {
	for _, c := range closers {
		for _, point := range switchPoints {
			t.Run(c.name+"@"+point, func(t *testing.T) {
				var once sync.Once
				setHook(t, func(p string, s *socket) {
					if p == point {
						once.Do(func() {
							done := make(chan struct{})
							go func() { c.f(s); close(done) }()
							select {
							case <-done:
							case <-time.After(time.Second):
								t.Errorf("closer blocked")
							}
						})
					}
				})
				e := revNew(t, nil)
				sid, s := e.handshake("4")
				ws := e.probeWS(sid)
				defer ws.Close()
				ws.WriteMessage(websocket.TextMessage, []byte("5"))
				checkClosedEverything(t, e, sid, s, ws, nil)
			})
		}
	}
}

// 22efbbe: a close cause is stopped at one of its own points while the switch
// runs through completely, then goes on
func TestRevCloseDuringSwitchInterleaved(t *testing.T) {
	type cs struct {
		c     closer
		point string
	}
	cases := []cs{
		{closers[0], "onclose:post-swap"},
		{closers[1], "close:post-cas"},
		{closers[1], "closeTransport:post-discard"},
		{closers[2], "closeTransport:post-discard"},
	}
	for _, k := range cases {
		for _, start := range switchPoints {
			t.Run(fmt.Sprintf("%s@%s/from:%s", k.c.name, k.point, start), func(t *testing.T) {
				var once, once2 sync.Once
				reached := make(chan struct{})
				release := make(chan struct{})
				setHook(t, func(p string, s *socket) {
					if p == start {
						once.Do(func() {
							go k.c.f(s)
							select {
							case <-reached:
							case <-time.After(time.Second):
								t.Errorf("closer did not reach %s", k.point)
							}
						})
					}
					if p == k.point {
						once2.Do(func() {
							close(reached)
							<-release
						})
					}
				})
				e := revNew(t, nil)
				sid, s := e.handshake("4")
				ws := e.probeWS(sid)
				defer ws.Close()
				ws.WriteMessage(websocket.TextMessage, []byte("5"))
				time.Sleep(150 * time.Millisecond)
				close(release)
				checkClosedEverything(t, e, sid, s, ws, nil)
			})
		}
	}
}

// fb6b29e: the noop check and a flush both see the one pending poll
func TestRevCheckVsFlush(t *testing.T) {
	var once sync.Once
	inCheck := make(chan struct{})
	setHook(t, func(p string, s *socket) {
		if p == "check:post-test" {
			once.Do(func() {
				close(inCheck)
				time.Sleep(200 * time.Millisecond)
			})
		}
	})
	e := revNew(t, nil)
	sid, s := e.handshake("4")
	poll := e.pollAsync(sid, "4")
	time.Sleep(20 * time.Millisecond)
	ws, _, err := e.dialWS("EIO=4&transport=websocket&sid=" + sid)
	if err != nil {
		t.Fatal(err)
	}
	defer ws.Close()
	ws.WriteMessage(websocket.TextMessage, []byte("2probe"))
	<-inCheck
	sent := make(chan struct{})
	go func() { s.Send(strings.NewReader("x"), nil, nil); close(sent) }()
	r := <-poll
	<-sent
	time.Sleep(400 * time.Millisecond) // past the hook's sleep
	if s.ReadyState() != "open" {
		t.Fatalf("state %s closes %v (first poll %q)", s.ReadyState(), e.closeReasons(sid), r.body)
	}
	got := r.body
	if !strings.Contains(got, "4x") {
		r2 := <-e.pollAsync(sid, "4")
		got += "|" + r2.body
	}
	if !strings.Contains(got, "4x") {
		t.Fatalf("message lost: %q", got)
	}
}
