package engine

import (
	"fmt"
	"runtime"
	"strings"
	"sync"
	"testing"
	"time"

	"github.com/gorilla/websocket"
	"github.com/zishang520/engine.io/v2/config"
)

func (e *revEnv) probeWSv(sid, eio string) *websocket.Conn {
	poll := e.pollAsync(sid, eio)
	time.Sleep(20 * time.Millisecond)
	ws, _, err := e.dialWS("EIO=" + eio + "&transport=websocket&sid=" + sid)
	if err != nil {
		e.t.Fatal(err)
	}
	time.Sleep(20 * time.Millisecond)
	ws.WriteMessage(websocket.TextMessage, []byte("2probe"))
	if m, err := wsReadText(ws, 2*time.Second); err != nil || m != "3probe" {
		e.t.Fatalf("probe answer %q %v", m, err)
	}
	select {
	case r := <-poll:
		if !strings.HasSuffix(r.body, "6") {
			e.t.Fatalf("poll answered %q", r.body)
		}
	case <-time.After(2 * time.Second):
		e.t.Fatal("poll not released by noop")
	}
	return ws
}

func TestRevCloseDuringSwitchVariants(t *testing.T) {
	for _, eio := range []string{"3", "4"} {
		for _, repoll := range []bool{false, true} {
			for _, c := range closers {
				for _, point := range switchPoints {
					t.Run(fmt.Sprintf("eio%s/repoll=%v/%s@%s", eio, repoll, c.name, point), func(t *testing.T) {
						var once sync.Once
						setHook(t, func(p string, s *socket) {
							if p == point {
								once.Do(func() {
									done := make(chan struct{})
									go func() { c.f(s); close(done) }()
									select {
									case <-done:
									case <-time.After(time.Second):
										t.Errorf("closer blocked")
									}
								})
							}
						})
						e := revNew(t, func(o *config.ServerOptions) { o.SetAllowEIO3(true) })
						sid, s := e.handshake(eio)
						ws := e.probeWSv(sid, eio)
						defer ws.Close()
						var poll chan pollResult
						if repoll {
							poll = e.pollAsync(sid, eio)
							time.Sleep(20 * time.Millisecond)
						}
						ws.WriteMessage(websocket.TextMessage, []byte("5"))
						checkClosedEverything(t, e, sid, s, ws, nil)
						if repoll {
							select {
							case r := <-poll:
								t.Logf("poll answered %d %q", r.code, r.body)
							case <-time.After(time.Second):
								t.Errorf("pending poll left unanswered")
							}
						}
					})
				}
			}
		}
	}
}

// every exit path of an attempt, many times: nothing is left running
func TestRevLeaks(t *testing.T) {
	e := revNew(t, func(o *config.ServerOptions) {
		o.SetUpgradeTimeout(150 * time.Millisecond)
		o.SetAllowEIO3(true)
	})
	run := func(kind string) {
		sid, s := e.handshake("4")
		ws, _, err := e.dialWS("EIO=4&transport=websocket&sid=" + sid)
		if err != nil {
			t.Fatal(err)
		}
		time.Sleep(10 * time.Millisecond)
		switch kind {
		case "timeout-noprobe":
			time.Sleep(200 * time.Millisecond)
		case "timeout-probed":
			ws.WriteMessage(websocket.TextMessage, []byte("2probe"))
			time.Sleep(250 * time.Millisecond)
		case "bogus":
			ws.WriteMessage(websocket.TextMessage, []byte("4hi"))
		case "upgrade-noprobe":
			ws.WriteMessage(websocket.TextMessage, []byte("5"))
		case "candidate-closes":
			ws.WriteMessage(websocket.TextMessage, []byte("2probe"))
			time.Sleep(10 * time.Millisecond)
			ws.Close()
		case "session-closes":
			ws.WriteMessage(websocket.TextMessage, []byte("2probe"))
			time.Sleep(10 * time.Millisecond)
			s.Close(true)
		case "upgraded":
			ws.WriteMessage(websocket.TextMessage, []byte("2probe"))
			wsReadText(ws, time.Second)
			ws.WriteMessage(websocket.TextMessage, []byte("5"))
			waitFor(time.Second, func() bool { return s.Upgraded() })
		}
		time.Sleep(20 * time.Millisecond)
		if s.Upgrading() {
			t.Errorf("%s: still upgrading", kind)
		}
		s.Close(true)
		ws.Close()
		if !waitFor(time.Second, func() bool { return s.ReadyState() == "closed" }) {
			t.Errorf("%s: session %s", kind, s.ReadyState())
		}
	}
	kinds := []string{"timeout-noprobe", "timeout-probed", "bogus", "upgrade-noprobe", "candidate-closes", "session-closes", "upgraded"}
	for _, k := range kinds {
		run(k) // warm up
	}
	time.Sleep(500 * time.Millisecond)
	e.hc.CloseIdleConnections()
	time.Sleep(100 * time.Millisecond)
	base := runtime.NumGoroutine()
	for _, k := range kinds {
		for i := 0; i < 10; i++ {
			run(k)
		}
		time.Sleep(500 * time.Millisecond)
		e.hc.CloseIdleConnections()
		time.Sleep(100 * time.Millisecond)
		if n := runtime.NumGoroutine(); n > base+3 {
			t.Errorf("%s: goroutines %d -> %d", k, base, n)
			if testing.Verbose() {
				t.Log(dumpGoroutines())
			}
			base = n
		}
	}
	if e.eng.ClientsCount() != 0 {
		t.Errorf("clients %d", e.eng.ClientsCount())
	}
}
