package engine

import (
	"io"
	"net/http"
	"net/http/httptest"
	"regexp"
	"runtime"
	"strings"
	"sync"
	"sync/atomic"
	"testing"
	"time"

	ws "github.com/gorilla/websocket"
	"github.com/zishang520/engine.io/v2/config"
)

type rvServer struct {
	eng  Server
	http *httptest.Server

	mu      sync.Mutex
	sockets []Socket
	reasons map[string]string
	conn    chan Socket
}

func rvNew(t *testing.T, interval, timeout time.Duration, before func(Server)) *rvServer {
	t.Helper()
	opts := config.DefaultServerOptions()
	opts.SetPingInterval(interval)
	opts.SetPingTimeout(timeout)
	opts.SetAllowEIO3(true)
	opts.SetUpgradeTimeout(2 * time.Second)
	eng := NewServer(opts)
	r := &rvServer{eng: eng, reasons: map[string]string{}, conn: make(chan Socket, 1024)}
	if before != nil {
		before(eng)
	}
	eng.On("connection", func(args ...any) {
		s := args[0].(Socket)
		r.mu.Lock()
		r.sockets = append(r.sockets, s)
		r.mu.Unlock()
		s.On("close", func(a ...any) {
			r.mu.Lock()
			r.reasons[s.Id()] = a[0].(string)
			r.mu.Unlock()
		})
		r.conn <- s
	})
	r.http = httptest.NewServer(http.HandlerFunc(eng.ServeHTTP))
	t.Cleanup(func() {
		eng.Close()
		r.http.CloseClientConnections()
		r.http.Close()
	})
	return r
}

func (r *rvServer) reason(id string) (string, bool) {
	r.mu.Lock()
	defer r.mu.Unlock()
	v, ok := r.reasons[id]
	return v, ok
}

func (r *rvServer) wsURL(q string) string {
	return "ws" + strings.TrimPrefix(r.http.URL, "http") + "/engine.io/?" + q
}

func (r *rvServer) dial(t *testing.T, q string) *ws.Conn {
	t.Helper()
	c, _, err := ws.DefaultDialer.Dial(r.wsURL(q), nil)
	if err != nil {
		t.Fatalf("dial: %v", err)
	}
	t.Cleanup(func() { c.Close() })
	return c
}

func (r *rvServer) waitSocket(t *testing.T) Socket {
	t.Helper()
	select {
	case s := <-r.conn:
		return s
	case <-time.After(3 * time.Second):
		t.Fatalf("no connection event")
		return nil
	}
}

// reads text frames into a channel
func rvReader(c *ws.Conn) <-chan string {
	ch := make(chan string, 1024)
	go func() {
		defer close(ch)
		for {
			_, b, err := c.ReadMessage()
			if err != nil {
				return
			}
			ch <- string(b)
		}
	}()
	return ch
}

func rvExpect(t *testing.T, ch <-chan string, prefix string, within time.Duration) string {
	t.Helper()
	deadline := time.After(within)
	for {
		select {
		case m, ok := <-ch:
			if !ok {
				t.Fatalf("connection closed while waiting for %q", prefix)
			}
			if strings.HasPrefix(m, prefix) {
				return m
			}
		case <-deadline:
			t.Fatalf("no %q within %v", prefix, within)
		}
	}
}

// ---------------------------------------------------------------- 81db1f3

// A heartbeat packet that reaches the session between "open" and the arming of
// the ping timers. The window is widened from outside the library: a server
// "flush" listener runs inside onOpen's sendPacket(OPEN), before the timers
// are armed.
func TestReview_81db1f3_HeartbeatDuringHandshake(t *testing.T) {
	for _, tc := range []struct {
		name, eio, first string
	}{
		{"v3-ping", "3", "2"},
		{"v4-pong", "4", "3"},
	} {
		t.Run(tc.name, func(t *testing.T) {
			var first atomic.Bool
			r := rvNew(t, 150*time.Millisecond, 100*time.Millisecond, func(e Server) {
				e.On("flush", func(...any) {
					if first.CompareAndSwap(false, true) {
						time.Sleep(150 * time.Millisecond) // the OPEN flush
					}
				})
			})
			c := r.dial(t, "EIO="+tc.eio+"&transport=websocket")
			// straight away, and again while onOpen is held in the listener
			for i := 0; i < 5; i++ {
				if err := c.WriteMessage(ws.TextMessage, []byte(tc.first)); err != nil {
					t.Fatal(err)
				}
				time.Sleep(20 * time.Millisecond)
			}
			ch := rvReader(c)
			rvExpect(t, ch, "0{", 2*time.Second)
			s := r.waitSocket(t)
			if tc.eio == "3" {
				// the pings were answered
				rvExpect(t, ch, "3", time.Second)
				// and the deadline is armed: a silent client is closed
				time.Sleep(450 * time.Millisecond)
				if reason, ok := r.reason(s.Id()); !ok || reason != "ping timeout" {
					t.Fatalf("silent v3 client not closed by ping timeout: %q %v (state %s)", reason, ok, s.ReadyState())
				}
			} else {
				// the server pings, we answer, the session lives
				stop := time.After(700 * time.Millisecond)
				pings := 0
			loop:
				for {
					select {
					case m, ok := <-ch:
						if !ok {
							break loop
						}
						if m == "2" {
							pings++
							c.WriteMessage(ws.TextMessage, []byte("3"))
						}
					case <-stop:
						break loop
					}
				}
				if reason, ok := r.reason(s.Id()); ok {
					t.Fatalf("responsive v4 client closed: %s", reason)
				}
				if pings < 3 {
					t.Fatalf("only %d pings", pings)
				}
			}
		})
	}
}

// wrong-direction heartbeat during the handshake: session closes, no crash
func TestReview_81db1f3_WrongDirectionDuringHandshake(t *testing.T) {
	for _, tc := range []struct{ eio, first string }{{"3", "3"}, {"4", "2"}} {
		var first atomic.Bool
		r := rvNew(t, 100*time.Millisecond, 100*time.Millisecond, func(e Server) {
			e.On("flush", func(...any) {
				if first.CompareAndSwap(false, true) {
					time.Sleep(100 * time.Millisecond)
				}
			})
		})
		c := r.dial(t, "EIO="+tc.eio+"&transport=websocket")
		for i := 0; i < 3; i++ {
			c.WriteMessage(ws.TextMessage, []byte(tc.first))
			time.Sleep(20 * time.Millisecond)
		}
		time.Sleep(500 * time.Millisecond)
		if n := r.eng.ClientsCount(); n != 0 {
			t.Fatalf("EIO=%s: %d clients registered after a wrong-direction heartbeat", tc.eio, n)
		}
	}
}

// ---------------------------------------------------------------- 693c3ae

// The pong is accepted while the timer goroutine is still inside
// sendPacket(PING): a server "drain" listener (run by flush, i.e. inside
// sendPacket) holds it there. The client answers every ping at once.
func TestReview_693c3ae_PongWhilePingBeingSent(t *testing.T) {
	for _, transport := range []string{"websocket"} {
		// pingTimeout < pingInterval, as with the defaults (20s / 25s): a deadline
		// armed after the pong is not cleared by the next pong in time
		r := rvNew(t, 200*time.Millisecond, 80*time.Millisecond, func(e Server) {
			e.On("drain", func(...any) { time.Sleep(50 * time.Millisecond) })
		})
		c := r.dial(t, "EIO=4&transport="+transport)
		ch := rvReader(c)
		rvExpect(t, ch, "0{", 2*time.Second)
		s := r.waitSocket(t)
		stop := time.After(1500 * time.Millisecond)
		pings := 0
	loop:
		for {
			select {
			case m, ok := <-ch:
				if !ok {
					break loop
				}
				if m == "2" {
					pings++
					c.WriteMessage(ws.TextMessage, []byte("3"))
				}
			case <-stop:
				break loop
			}
		}
		if reason, ok := r.reason(s.Id()); ok {
			t.Fatalf("responsive client closed after %d pings: %s", pings, reason)
		}
		if pings < 4 {
			t.Fatalf("only %d pings in 1.5s", pings)
		}
		// and an unresponsive client is still detected
		time.Sleep(500 * time.Millisecond)
		if reason, ok := r.reason(s.Id()); !ok || reason != "ping timeout" {
			t.Fatalf("silent client not closed: %q %v", reason, ok)
		}
	}
}

// ---------------------------------------------------------------- 2916323

var rvSid = regexp.MustCompile(`"sid":"([^"]+)"`)

func rvGet(t *testing.T, url string) string {
	t.Helper()
	resp, err := http.Get(url)
	if err != nil {
		t.Fatalf("GET %s: %v", url, err)
	}
	defer resp.Body.Close()
	b, _ := io.ReadAll(resp.Body)
	return string(b)
}

// polling session of the given revision, upgraded to websocket; returns the
// upgraded connection
func rvUpgrade(t *testing.T, r *rvServer, eio string) (*ws.Conn, <-chan string, Socket) {
	t.Helper()
	base := r.http.URL + "/engine.io/?EIO=" + eio + "&transport=polling"
	body := rvGet(t, base)
	m := rvSid.FindStringSubmatch(body)
	if m == nil {
		t.Fatalf("no sid in %q", body)
	}
	sid := m[1]
	s := r.waitSocket(t)

	polls := make(chan string, 16)
	go func() {
		for {
			resp, err := http.Get(base + "&sid=" + sid)
			if err != nil {
				return
			}
			b, _ := io.ReadAll(resp.Body)
			resp.Body.Close()
			polls <- string(b)
			if resp.StatusCode != 200 || strings.Contains(string(b), "6") {
				return
			}
		}
	}()

	c := r.dial(t, "EIO="+eio+"&transport=websocket&sid="+sid)
	ch := rvReader(c)
	c.WriteMessage(ws.TextMessage, []byte("2probe"))
	rvExpect(t, ch, "3probe", 2*time.Second)
	select {
	case <-polls: // the noop
	case <-time.After(2 * time.Second):
		t.Fatalf("poll not released")
	}
	c.WriteMessage(ws.TextMessage, []byte("5"))
	deadline := time.Now().Add(2 * time.Second)
	for !s.Upgraded() && time.Now().Before(deadline) {
		time.Sleep(5 * time.Millisecond)
	}
	if !s.Upgraded() {
		t.Fatalf("not upgraded")
	}
	return c, ch, s
}

// revision 3: after the upgrade the client's ping arms a deadline again
func TestReview_2916323_V3PingAfterUpgrade(t *testing.T) {
	r := rvNew(t, 200*time.Millisecond, 150*time.Millisecond, nil)
	c, ch, s := rvUpgrade(t, r, "3")

	// a pinging client lives for several deadlines
	for i := 0; i < 20; i++ {
		c.WriteMessage(ws.TextMessage, []byte("2"))
		rvExpect(t, ch, "3", time.Second)
		time.Sleep(50 * time.Millisecond)
	}
	if reason, ok := r.reason(s.Id()); ok {
		t.Fatalf("pinging client closed: %s", reason)
	}
	// a client that falls silent after a ping is closed after interval+timeout
	start := time.Now()
	deadline := start.Add(1500 * time.Millisecond)
	for time.Now().Before(deadline) {
		if _, ok := r.reason(s.Id()); ok {
			break
		}
		time.Sleep(10 * time.Millisecond)
	}
	reason, ok := r.reason(s.Id())
	if !ok || reason != "ping timeout" {
		t.Fatalf("silent client not closed by the ping deadline after the upgrade: %q %v (state %s)", reason, ok, s.ReadyState())
	}
	if d := time.Since(start); d < 250*time.Millisecond || d > 700*time.Millisecond {
		t.Fatalf("closed after %v, expected about 350ms", d)
	}
}

// revision 4 sibling: the heartbeat goes on after the upgrade
func TestReview_2916323_V4HeartbeatAfterUpgrade(t *testing.T) {
	r := rvNew(t, 150*time.Millisecond, 100*time.Millisecond, nil)
	c, ch, s := rvUpgrade(t, r, "4")
	stop := time.After(1200 * time.Millisecond)
	pings := 0
loop:
	for {
		select {
		case m, ok := <-ch:
			if !ok {
				break loop
			}
			if m == "2" {
				pings++
				c.WriteMessage(ws.TextMessage, []byte("3"))
			}
		case <-stop:
			break loop
		}
	}
	if reason, ok := r.reason(s.Id()); ok {
		t.Fatalf("closed: %s (pings %d)", reason, pings)
	}
	if pings < 4 {
		t.Fatalf("only %d pings after upgrade", pings)
	}
	time.Sleep(400 * time.Millisecond)
	if reason, ok := r.reason(s.Id()); !ok || reason != "ping timeout" {
		t.Fatalf("silent client not closed: %q %v", reason, ok)
	}
}

// ---------------------------------------------------------------- new: 2916323

// Revision 3, websocket: the client pings as soon as it is connected. The
// reader goroutine's resetPingTimeout (new in 2916323) and onOpen's
// resetPingTimeout both do ClearTimeout(Load()); Store(SetTimeout(..)) with no
// ordering between them: when both load before either stores, one armed timer
// is overwritten without being cancelled and closes the (pinging) session
// with "ping timeout".
func TestReview_2916323_HandshakePingOrphansDeadline(t *testing.T) {
	interval, timeout := 300*time.Millisecond, 200*time.Millisecond
	r := rvNew(t, interval, timeout, nil)
	const n = 300
	type cl struct {
		c *ws.Conn
	}
	var cls []cl
	var wmu sync.Mutex
	for i := 0; i < n; i++ {
		c := r.dial(t, "EIO=3&transport=websocket")
		// a burst of pings straight away: one of them may be inside
		// resetPingTimeout when onOpen gets there
		for k := 0; k < 30; k++ {
			c.WriteMessage(ws.TextMessage, []byte("2"))
		}
		go func() {
			for {
				if _, _, err := c.ReadMessage(); err != nil {
					return
				}
			}
		}()
		cls = append(cls, cl{c})
	}
	// all clients keep pinging well inside the deadline
	end := time.Now().Add(3 * (interval + timeout))
	for time.Now().Before(end) {
		wmu.Lock()
		for _, c := range cls {
			c.c.WriteMessage(ws.TextMessage, []byte("2"))
		}
		wmu.Unlock()
		time.Sleep(60 * time.Millisecond)
	}
	r.mu.Lock()
	defer r.mu.Unlock()
	bad := 0
	for id, reason := range r.reasons {
		if reason == "ping timeout" {
			bad++
			_ = id
		}
	}
	if bad > 0 {
		t.Fatalf("%d of %d pinging revision-3 sessions were closed with \"ping timeout\"", bad, n)
	}
}

// ---------------------------------------------------------------- extras

// 693c3ae on polling: the ping goes out on the pending poll, the pong comes in
// on a POST handled by another goroutine while the timer goroutine is held in
// the "drain" listener.
func TestReview_693c3ae_Polling(t *testing.T) {
	r := rvNew(t, 200*time.Millisecond, 80*time.Millisecond, func(e Server) {
		e.On("drain", func(...any) { time.Sleep(50 * time.Millisecond) })
	})
	base := r.http.URL + "/engine.io/?EIO=4&transport=polling"
	body := rvGet(t, base)
	m := rvSid.FindStringSubmatch(body)
	if m == nil {
		t.Fatalf("no sid in %q", body)
	}
	sid := m[1]
	s := r.waitSocket(t)
	var pings atomic.Int64
	stop := make(chan struct{})
	go func() {
		for {
			select {
			case <-stop:
				return
			default:
			}
			resp, err := http.Get(base + "&sid=" + sid)
			if err != nil {
				return
			}
			b, _ := io.ReadAll(resp.Body)
			resp.Body.Close()
			if resp.StatusCode != 200 {
				return
			}
			if strings.Contains(string(b), "2") {
				pings.Add(1)
				select {
				case <-stop:
					return
				default:
				}
				pr, err := http.Post(base+"&sid="+sid, "text/plain;charset=UTF-8", strings.NewReader("3"))
				if err == nil {
					io.Copy(io.Discard, pr.Body)
					pr.Body.Close()
				}
			}
		}
	}()
	time.Sleep(1500 * time.Millisecond)
	if reason, ok := r.reason(s.Id()); ok {
		t.Fatalf("responsive polling client closed after %d pings: %s", pings.Load(), reason)
	}
	if pings.Load() < 4 {
		t.Fatalf("only %d pings", pings.Load())
	}
	close(stop)
}

// 2916323: every revision-3 ping now makes a new Timer (and goroutine): none
// may be left behind.
func TestReview_2916323_NoGoroutinePerPing(t *testing.T) {
	r := rvNew(t, 300*time.Millisecond, 200*time.Millisecond, nil)
	c := r.dial(t, "EIO=3&transport=websocket")
	ch := rvReader(c)
	rvExpect(t, ch, "0{", 2*time.Second)
	s := r.waitSocket(t)
	c.WriteMessage(ws.TextMessage, []byte("2"))
	rvExpect(t, ch, "3", time.Second)
	time.Sleep(50 * time.Millisecond)
	before := runtime.NumGoroutine()
	for i := 0; i < 2000; i++ {
		c.WriteMessage(ws.TextMessage, []byte("2"))
	}
	for i := 0; i < 2000; i++ {
		rvExpect(t, ch, "3", time.Second)
	}
	time.Sleep(100 * time.Millisecond)
	after := runtime.NumGoroutine()
	if after > before+5 {
		t.Fatalf("goroutines %d -> %d after 2000 pings", before, after)
	}
	if reason, ok := r.reason(s.Id()); ok {
		t.Fatalf("closed: %s", reason)
	}
}

// heartbeat packets racing the close of the session (both revisions): no
// crash, no session left registered, nothing blocked
func TestReview_HeartbeatRacingClose(t *testing.T) {
	for _, eio := range []string{"3", "4"} {
		r := rvNew(t, 30*time.Millisecond, 30*time.Millisecond, nil)
		var wg sync.WaitGroup
		for i := 0; i < 60; i++ {
			wg.Add(1)
			go func(i int) {
				defer wg.Done()
				c, _, err := ws.DefaultDialer.Dial(r.wsURL("EIO="+eio+"&transport=websocket"), nil)
				if err != nil {
					return
				}
				defer c.Close()
				hb := "2"
				if eio == "4" {
					hb = "3"
				}
				go func() {
					for {
						if _, _, err := c.ReadMessage(); err != nil {
							return
						}
					}
				}()
				for k := 0; k < 40+i; k++ {
					if c.WriteMessage(ws.TextMessage, []byte(hb)) != nil {
						return
					}
					time.Sleep(time.Duration(500+i*20) * time.Microsecond)
				}
			}(i)
		}
		go func() {
			time.Sleep(40 * time.Millisecond)
			for _, s := range r.eng.Clients().Values() {
				s.Close(i2b(len(s.Id())))
			}
		}()
		wg.Wait()
		deadline := time.Now().Add(3 * time.Second)
		for r.eng.ClientsCount() != 0 && time.Now().Before(deadline) {
			time.Sleep(10 * time.Millisecond)
		}
		if n := r.eng.ClientsCount(); n != 0 {
			t.Fatalf("EIO=%s: %d sessions still registered", eio, n)
		}
	}
}

func i2b(n int) bool { return n%2 == 0 }
