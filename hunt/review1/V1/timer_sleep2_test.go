package utils

import (
	"sync/atomic"
	"testing"
	"time"
)

// With sleep-2.diff applied (30ms between the read of the cancelled flag and
// the call of fn in SetTimeout's goroutine): Stop returns, and the callback
// starts afterwards. The window exists in the committed code as the few
// instructions between timer.go:64 and :66.
func TestReview_Sleep2_CallbackStartsAfterStopReturned(t *testing.T) {
	var stopReturned atomic.Bool
	var startedAfterStop atomic.Bool
	tm := SetTimeout(func() {
		if stopReturned.Load() {
			startedAfterStop.Store(true)
		}
	}, 10*time.Millisecond)
	time.Sleep(20 * time.Millisecond) // the tick is taken, the flag read
	tm.Stop()
	stopReturned.Store(true)
	time.Sleep(60 * time.Millisecond)
	if startedAfterStop.Load() {
		t.Fatalf("the callback of a stopped timeout started after Stop had returned")
	}
}
