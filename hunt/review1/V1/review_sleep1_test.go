package engine

import (
	"testing"
	"time"

	ws "github.com/gorilla/websocket"
)

// Deterministic form of TestReview_2916323_HandshakePingOrphansDeadline, to be
// run with sleep-1.diff applied (a 50ms sleep between ClearTimeout(Load()) and
// Store in resetPingTimeout). One revision-3 websocket client answers the open
// packet with a ping at once and then pings every 60ms.
func TestReview_Sleep1_HandshakePingOrphansDeadline(t *testing.T) {
	r := rvNew(t, 300*time.Millisecond, 200*time.Millisecond, nil)
	c := r.dial(t, "EIO=3&transport=websocket")
	ch := rvReader(c)
	rvExpect(t, ch, "0{", 2*time.Second)
	c.WriteMessage(ws.TextMessage, []byte("2"))
	s := r.waitSocket(t)
	end := time.Now().Add(1500 * time.Millisecond)
	for time.Now().Before(end) {
		time.Sleep(60 * time.Millisecond)
		c.WriteMessage(ws.TextMessage, []byte("2"))
	}
	if reason, ok := r.reason(s.Id()); ok {
		t.Fatalf("pinging session closed: %s", reason)
	}
}
