package utils

import (
	"runtime"
	"sync"
	"sync/atomic"
	"testing"
	"time"
)

// 738a64c (a): a timeout stopped at about the moment it expires must not run
// its callback once Stop has returned *and* the goroutine had not yet decided.
// The observable contract: callbacks counted after "stopped" was published and
// a grace period elapsed must be zero, i.e. no callback may START later than
// (Stop returned + scheduling slack).
func TestReview_StopNearExpiry_NoLateCallback(t *testing.T) {
	const rounds = 3000
	var late atomic.Int64
	for i := 0; i < rounds; i++ {
		var stoppedAt atomic.Int64
		d := 200 * time.Microsecond
		tm := SetTimeout(func() {
			if s := stoppedAt.Load(); s != 0 && time.Now().UnixNano()-s > int64(2*time.Millisecond) {
				late.Add(1)
			}
		}, d)
		time.Sleep(d - 20*time.Microsecond + time.Duration(i%40)*time.Microsecond)
		tm.Stop()
		stoppedAt.Store(time.Now().UnixNano())
	}
	time.Sleep(20 * time.Millisecond)
	if n := late.Load(); n != 0 {
		t.Fatalf("%d callbacks started >2ms after Stop returned", n)
	}
}

// 738a64c (b): Refresh does not revive a cancelled timer, whether it was
// cancelled before or after expiry.
func TestReview_RefreshAfterStop(t *testing.T) {
	var n atomic.Int64
	tm := SetTimeout(func() { n.Add(1) }, 20*time.Millisecond)
	tm.Stop()
	tm.Refresh()
	time.Sleep(60 * time.Millisecond)
	if n.Load() != 0 {
		t.Fatalf("cancelled-before-expiry timer revived: %d", n.Load())
	}

	n.Store(0)
	tm = SetTimeout(func() { n.Add(1) }, 5*time.Millisecond)
	time.Sleep(20 * time.Millisecond)
	if n.Load() != 1 {
		t.Fatalf("expected 1 run, got %d", n.Load())
	}
	tm.Stop()
	tm.Refresh()
	time.Sleep(30 * time.Millisecond)
	if n.Load() != 1 {
		t.Fatalf("cancelled-after-expiry timer revived: %d", n.Load())
	}
}

// Refresh of an expired (not cancelled) timeout re-arms it, once.
func TestReview_RefreshAfterExpiryRearms(t *testing.T) {
	var n atomic.Int64
	tm := SetTimeout(func() { n.Add(1) }, 5*time.Millisecond)
	time.Sleep(20 * time.Millisecond)
	tm.Refresh()
	time.Sleep(20 * time.Millisecond)
	if n.Load() != 2 {
		t.Fatalf("expected 2 runs, got %d", n.Load())
	}
	tm.Refresh()
	tm.Refresh()
	time.Sleep(20 * time.Millisecond)
	if n.Load() != 3 {
		t.Fatalf("expected 3 runs, got %d", n.Load())
	}
	tm.Stop()
}

// Refresh before expiry postpones.
func TestReview_RefreshPostpones(t *testing.T) {
	var n atomic.Int64
	tm := SetTimeout(func() { n.Add(1) }, 30*time.Millisecond)
	for i := 0; i < 10; i++ {
		time.Sleep(10 * time.Millisecond)
		tm.Refresh()
	}
	if n.Load() != 0 {
		t.Fatalf("refreshed timer fired")
	}
	time.Sleep(60 * time.Millisecond)
	if n.Load() != 1 {
		t.Fatalf("expected 1, got %d", n.Load())
	}
}

// 738a64c (c): an interval stopped at about a tick stops ticking.
func TestReview_IntervalStopNearTick(t *testing.T) {
	for i := 0; i < 1500; i++ {
		var n atomic.Int64
		var stopped atomic.Bool
		var after atomic.Int64
		d := 200 * time.Microsecond
		tm := SetInterval(func() {
			n.Add(1)
			if stopped.Load() {
				after.Add(1)
			}
		}, d)
		time.Sleep(d*2 - 30*time.Microsecond + time.Duration(i%60)*time.Microsecond)
		tm.Stop()
		time.Sleep(300 * time.Microsecond) // an already spawned `go fn()` may still run
		stopped.Store(true)
		time.Sleep(3 * d)
		if after.Load() != 0 {
			t.Fatalf("round %d: interval ticked %d times after Stop", i, after.Load())
		}
	}
}

// No goroutine is left behind by Stop / Refresh / expiry in any order, Stop
// never blocks, and the whole thing is race-clean.
func TestReview_NoLeakNoBlock(t *testing.T) {
	time.Sleep(50 * time.Millisecond)
	base := runtime.NumGoroutine()
	var wg sync.WaitGroup
	for i := 0; i < 2000; i++ {
		wg.Add(1)
		go func(i int) {
			defer wg.Done()
			d := time.Duration(100+i%200) * time.Microsecond
			tm := SetTimeout(func() {}, d)
			var w sync.WaitGroup
			for k := 0; k < 3; k++ {
				w.Add(1)
				go func(k int) {
					defer w.Done()
					time.Sleep(d - 50*time.Microsecond + time.Duration((i+k*37)%100)*time.Microsecond)
					switch (i + k) % 3 {
					case 0:
						tm.Stop()
					case 1:
						tm.Refresh()
					case 2:
						tm.Refresh()
						tm.Stop()
					}
				}(k)
			}
			w.Wait()
			tm.Stop()
			tm.Stop()
		}(i)
	}
	done := make(chan struct{})
	go func() { wg.Wait(); close(done) }()
	select {
	case <-done:
	case <-time.After(10 * time.Second):
		buf := make([]byte, 1<<16)
		t.Fatalf("Stop/Refresh blocked:\n%s", buf[:runtime.Stack(buf, true)])
	}
	deadline := time.Now().Add(2 * time.Second)
	for runtime.NumGoroutine() > base && time.Now().Before(deadline) {
		time.Sleep(10 * time.Millisecond)
	}
	if g := runtime.NumGoroutine(); g > base {
		buf := make([]byte, 1<<16)
		t.Fatalf("goroutines leaked: %d > %d\n%s", g, base, buf[:runtime.Stack(buf, true)])
	}
}

// Same for intervals (Stop only; the library never refreshes an interval).
func TestReview_IntervalNoLeak(t *testing.T) {
	time.Sleep(50 * time.Millisecond)
	base := runtime.NumGoroutine()
	var wg sync.WaitGroup
	for i := 0; i < 1000; i++ {
		wg.Add(1)
		go func(i int) {
			defer wg.Done()
			d := time.Duration(100+i%100) * time.Microsecond
			tm := SetInterval(func() {}, d)
			time.Sleep(2*d - 50*time.Microsecond + time.Duration(i%100)*time.Microsecond)
			var w sync.WaitGroup
			for k := 0; k < 2; k++ {
				w.Add(1)
				go func() { defer w.Done(); tm.Stop() }()
			}
			w.Wait()
		}(i)
	}
	done := make(chan struct{})
	go func() { wg.Wait(); close(done) }()
	select {
	case <-done:
	case <-time.After(10 * time.Second):
		buf := make([]byte, 1<<20)
		t.Fatalf("Stop blocked\n%s", buf[:runtime.Stack(buf, true)])
	}
	deadline := time.Now().Add(2 * time.Second)
	for runtime.NumGoroutine() > base && time.Now().Before(deadline) {
		time.Sleep(10 * time.Millisecond)
	}
	if g := runtime.NumGoroutine(); g > base {
		buf := make([]byte, 1<<16)
		t.Fatalf("goroutines leaked: %d > %d\n%s", g, base, buf[:runtime.Stack(buf, true)])
	}
}

// Stop and Refresh from inside the timer's own callback.
func TestReview_SelfStopSelfRefresh(t *testing.T) {
	var tm *Timer
	var n atomic.Int64
	ready := make(chan struct{})
	tm = SetTimeout(func() {
		<-ready
		if n.Add(1) < 3 {
			tm.Refresh()
		} else {
			tm.Stop()
		}
	}, 2*time.Millisecond)
	close(ready)
	time.Sleep(50 * time.Millisecond)
	if n.Load() != 3 {
		t.Fatalf("expected 3 runs, got %d", n.Load())
	}

	var iv *Timer
	var m atomic.Int64
	r2 := make(chan struct{})
	iv = SetInterval(func() {
		<-r2
		if m.Add(1) == 3 {
			iv.Stop()
		}
	}, 2*time.Millisecond)
	close(r2)
	time.Sleep(50 * time.Millisecond)
	if v := m.Load(); v < 3 || v > 4 {
		t.Fatalf("expected 3 (or 4 with one in flight) runs, got %d", v)
	}
}
