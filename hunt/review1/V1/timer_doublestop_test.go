package utils

import (
	"runtime"
	"sync"
	"testing"
	"time"
)

// Two Stop calls on the same timer at about the moment it fires: the Go
// runtime (1.23+, checked on go1.24.1) lets time.Timer.Stop return true for
// BOTH while a send is in progress (runtime.(*timer).stop: isSending > 0), so
// both callers send on stopCh, but only one goroutine receives: the second
// Stop blocks forever (utils/timer.go:91).
func testDoubleStop(t *testing.T, mk func(d time.Duration) *Timer) {
	for round := 0; round < 40; round++ {
		var wg sync.WaitGroup
		var mu sync.Mutex
		stuck := 0
		for i := 0; i < 1000; i++ {
			wg.Add(1)
			go func(i int) {
				defer wg.Done()
				d := time.Duration(100+i%100) * time.Microsecond
				tm := mk(d)
				time.Sleep(d - 50*time.Microsecond + time.Duration(i%100)*time.Microsecond)
				var w sync.WaitGroup
				for k := 0; k < 2; k++ {
					w.Add(1)
					go func() {
						defer w.Done()
						done := make(chan struct{})
						go func() { tm.Stop(); close(done) }()
						select {
						case <-done:
						case <-time.After(3 * time.Second):
							mu.Lock()
							stuck++
							mu.Unlock()
						}
					}()
				}
				w.Wait()
			}(i)
		}
		wg.Wait()
		if stuck > 0 {
			buf := make([]byte, 1<<14)
			t.Fatalf("round %d: %d Stop calls blocked for 3s\n%s", round, stuck, buf[:runtime.Stack(buf, true)])
		}
	}
}

func TestReview_DoubleStop_Timeout(t *testing.T) {
	testDoubleStop(t, func(d time.Duration) *Timer { return SetTimeout(func() {}, d) })
}

func TestReview_DoubleStop_Interval(t *testing.T) {
	testDoubleStop(t, func(d time.Duration) *Timer { return SetInterval(func() {}, d) })
}
