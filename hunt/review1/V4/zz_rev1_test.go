package transports

import (
	"sync/atomic"
	"testing"
	"time"
)

// Finding F1 (f776a3e): Discard between DoClose's Discarded() test and the store of
// shouldClose is lost. Needs sleep-1.diff to be deterministic.
//
//	goroutine A: Close(fn)   -> DoClose: Writable()==false, Discarded()==false, (window), shouldClose.Store
//	goroutine B: Discard()   -> flag set, shouldClose.Swap(nil)==nil  (what socket.Close(true) / Server.Close do)
//	             Close(fn)   -> returns: readyState is "closing"
func TestRevF1_DiscardDuringBufferedDoClose(t *testing.T) {
	p := revPolling(t)
	var closed atomic.Int32
	go p.Close(func() { closed.Add(1) })
	time.Sleep(50 * time.Millisecond) // A is inside the window
	p.Discard()
	p.Close(func() { closed.Add(1) })
	time.Sleep(500 * time.Millisecond)
	if closed.Load() != 1 || p.ReadyState() != "closed" {
		t.Fatalf("discarded transport still waits for the next poll: callback ran %d times, state %q", closed.Load(), p.ReadyState())
	}
}

// a14a18c validated deterministically with sleep-1.diff: the poll is installed between
// DoClose's tests and the store of shouldClose. Passes on HEAD (+sleep-1), fails with a14a18c reverted.
func TestRevS1_PollDuringBufferedDoClose(t *testing.T) {
	p := revPolling(t)
	var closed atomic.Int32
	go p.Close(func() { closed.Add(1) })
	time.Sleep(50 * time.Millisecond)
	ctx, w := revCtx("GET", "/engine.io/?EIO=4&transport=polling&sid=x", nil)
	p.OnRequest(ctx)
	if !revAnswered(ctx, time.Second) {
		t.Fatalf("poll not answered")
	}
	time.Sleep(50 * time.Millisecond)
	if closed.Load() != 1 || p.ReadyState() != "closed" {
		t.Fatalf("closed %d state %s", closed.Load(), p.ReadyState())
	}
	t.Logf("answered %d %q", w.Code, w.Body.String())
}

// 46aa1a3, second test in OnClose, validated with sleep-5.diff: the poll is installed between the
// first writable test of OnClose and the state change. Passes on HEAD (+sleep-5).
func TestRevS5_PollDuringOnClose(t *testing.T) {
	p := revPolling(t)
	go p.OnClose()
	time.Sleep(50 * time.Millisecond)
	ctx, w := revCtx("GET", "/engine.io/?EIO=4&transport=polling&sid=x", nil)
	p.OnRequest(ctx)
	if !revAnswered(ctx, time.Second) {
		t.Fatalf("poll not answered")
	}
	t.Logf("answered %d %q", w.Code, w.Body.String())
}
