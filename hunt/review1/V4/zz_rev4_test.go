package engine

import (
	"math/rand"
	"sync"
	"testing"
	"time"
)

// chaos: polls, posts, Close(false), Close(true) at random offsets. Every request is answered,
// and after Close(true) returned the session is closed and unregistered.
func TestRevChaos_CloseVariants(t *testing.T) {
	e := revNew(t, nil)
	for i := 0; i < 400; i++ {
		eio := 4
		if i%3 == 0 {
			eio = 3
		}
		sid := e.handshake(eio)
		s := e.socket(sid)
		var wg sync.WaitGroup
		jitter := func() { time.Sleep(time.Duration(rand.Intn(400)) * time.Microsecond) }
		res := make([]revResp, 4)
		wg.Add(5)
		go func() { defer wg.Done(); jitter(); res[0] = e.do("GET", e.url(eio, sid), "", 3*time.Second) }()
		go func() {
			defer wg.Done()
			jitter()
			msg := "4hello"
			if eio == 3 {
				msg = "6:4hello"
			}
			res[1] = e.do("POST", e.url(eio, sid), msg, 3*time.Second)
		}()
		go func() { defer wg.Done(); jitter(); s.Send(nil, nil, nil); jitter(); s.Close(false) }()
		closedAfterDiscard := true
		go func() {
			defer wg.Done()
			jitter()
			jitter()
			s.Close(true)
			closedAfterDiscard = s.ReadyState() == "closed"
		}()
		go func() { defer wg.Done(); jitter(); jitter(); res[2] = e.do("GET", e.url(eio, sid), "", 3*time.Second) }()
		wg.Wait()
		for k, r := range res[:3] {
			if r.err != nil {
				t.Fatalf("iteration %d: request %d not answered: %+v err=%v (state %s)", i, k, r, r.err, s.ReadyState())
			}
		}
		if !closedAfterDiscard {
			// Close(true) may have lost against a Close(false) that is inside DoClose (finding F1)
			t.Logf("iteration %d: session not closed when Close(true) returned", i)
			revWait(t, "closed", 1*time.Second, func() bool { return s.ReadyState() == "closed" })
		}
		if rs := e.closeReasons(sid); len(rs) != 1 {
			t.Fatalf("iteration %d: close reasons %v", i, rs)
		}
	}
	if n := e.srv.ClientsCount(); n != 0 {
		t.Fatalf("clients %d", n)
	}
}
