package transports

import (
	"io"
	"net/http"
	"net/http/httptest"
	"strings"
	"sync"
	"sync/atomic"
	"testing"
	"time"

	"github.com/zishang520/engine.io-go-parser/packet"
	"github.com/zishang520/engine.io/v2/types"
)

func revCtx(method, target string, body io.Reader) (*types.HttpContext, *httptest.ResponseRecorder) {
	r := httptest.NewRequest(method, target, body)
	w := httptest.NewRecorder()
	return types.NewHttpContext(w, r), w
}

func revAnswered(ctx *types.HttpContext, d time.Duration) bool {
	select {
	case <-ctx.Done():
		return true
	case <-time.After(d):
		return false
	}
}

func revPolling(t *testing.T) Polling {
	ctx, _ := revCtx("GET", "/engine.io/?EIO=4&transport=polling", nil)
	p := NewPolling(ctx)
	p.SetMaxHttpBufferSize(1e6)
	return p
}

// 46aa1a3, branch in onPollRequest: poll on a closed transport
func TestRev_PollOnClosedTransport(t *testing.T) {
	p := revPolling(t)
	p.OnClose()
	ctx, w := revCtx("GET", "/engine.io/?EIO=4&transport=polling&sid=x", nil)
	p.OnRequest(ctx)
	if !revAnswered(ctx, 2*time.Second) {
		t.Fatalf("poll on closed transport not answered")
	}
	t.Logf("answered %d %q", w.Code, w.Body.String())
}

// 46aa1a3, poll installed from inside the close event (state is closed, first check of OnClose is over)
func TestRev_PollInstalledDuringCloseEvent(t *testing.T) {
	p := revPolling(t)
	ctx, w := revCtx("GET", "/engine.io/?EIO=4&transport=polling&sid=x", nil)
	p.Once("close", func(...any) {
		p.OnRequest(ctx)
	})
	p.OnClose()
	if !revAnswered(ctx, 2*time.Second) {
		t.Fatalf("poll not answered")
	}
	time.Sleep(100 * time.Millisecond)
	t.Logf("answered %d %q", w.Code, w.Body.String())
}

// a14a18c: poll installed between the writable test of DoClose and the store of shouldClose.
// Without a sleep we cannot hit the window; the deterministic part: poll AFTER DoClose buffered
func TestRev_PollAfterBufferedClose(t *testing.T) {
	p := revPolling(t)
	var closed atomic.Bool
	p.Close(func() { closed.Store(true) })
	if closed.Load() {
		t.Fatalf("closed right away")
	}
	ctx, w := revCtx("GET", "/engine.io/?EIO=4&transport=polling&sid=x", nil)
	p.OnRequest(ctx)
	if !revAnswered(ctx, 2*time.Second) {
		t.Fatalf("poll not answered")
	}
	time.Sleep(50 * time.Millisecond)
	if !closed.Load() || p.ReadyState() != "closed" {
		t.Fatalf("not closed: %v %s", closed.Load(), p.ReadyState())
	}
	t.Logf("answered %d %q", w.Code, w.Body.String())
}

// f776a3e: Discard completes a buffered close
func TestRev_DiscardCompletesBufferedClose(t *testing.T) {
	p := revPolling(t)
	var closed atomic.Int32
	p.Close(func() { closed.Add(1) })
	p.Discard()
	if closed.Load() != 1 || p.ReadyState() != "closed" {
		t.Fatalf("not closed: %v %s", closed.Load(), p.ReadyState())
	}
	// a later poll is answered and the callback does not run twice
	ctx, w := revCtx("GET", "/engine.io/?EIO=4&transport=polling&sid=x", nil)
	p.OnRequest(ctx)
	if !revAnswered(ctx, 2*time.Second) {
		t.Fatalf("poll not answered")
	}
	time.Sleep(50 * time.Millisecond)
	if closed.Load() != 1 {
		t.Fatalf("callback ran %d times", closed.Load())
	}
	t.Logf("answered %d %q", w.Code, w.Body.String())
}

// f776a3e on JSONP
func TestRev_DiscardCompletesBufferedCloseJSONP(t *testing.T) {
	ctx, _ := revCtx("GET", "/engine.io/?EIO=4&transport=polling&j=1", nil)
	p := NewJSONP(ctx)
	var closed atomic.Int32
	p.Close(func() { closed.Add(1) })
	p.Discard()
	if closed.Load() != 1 || p.ReadyState() != "closed" || !p.Discarded() {
		t.Fatalf("not closed: %v %s", closed.Load(), p.ReadyState())
	}
}

// f776a3e: concurrent Discard and send: callback once
func TestRev_DiscardVsSend(t *testing.T) {
	for i := 0; i < 300; i++ {
		p := revPolling(t)
		var closed atomic.Int32
		p.Close(func() { closed.Add(1) })
		ctx, _ := revCtx("GET", "/engine.io/?EIO=4&transport=polling&sid=x", nil)
		var wg sync.WaitGroup
		wg.Add(2)
		go func() { defer wg.Done(); p.OnRequest(ctx) }()
		go func() { defer wg.Done(); p.Discard() }()
		wg.Wait()
		if !revAnswered(ctx, 2*time.Second) {
			t.Fatalf("iteration %d: poll not answered (state %s writable %v)", i, p.ReadyState(), p.Writable())
		}
		time.Sleep(time.Millisecond)
		if closed.Load() != 1 || p.ReadyState() != "closed" {
			t.Fatalf("iteration %d: closed %d state %s", i, closed.Load(), p.ReadyState())
		}
	}
}

// a14a18c / 46aa1a3: concurrent Close and poll: always answered, always closed
func TestRev_CloseVsPoll(t *testing.T) {
	for i := 0; i < 500; i++ {
		p := revPolling(t)
		var closed atomic.Int32
		var errs atomic.Int32
		p.On("error", func(...any) { errs.Add(1) })
		ctx, _ := revCtx("GET", "/engine.io/?EIO=4&transport=polling&sid=x", nil)
		var wg sync.WaitGroup
		wg.Add(2)
		go func() { defer wg.Done(); p.OnRequest(ctx) }()
		go func() { defer wg.Done(); p.Close(func() { closed.Add(1) }) }()
		wg.Wait()
		if !revAnswered(ctx, 2*time.Second) {
			t.Fatalf("iteration %d: poll not answered (state %s writable %v)", i, p.ReadyState(), p.Writable())
		}
		time.Sleep(time.Millisecond)
		if closed.Load() != 1 || p.ReadyState() != "closed" {
			t.Fatalf("iteration %d: closed %d state %s", i, closed.Load(), p.ReadyState())
		}
	}
}

// 46aa1a3: concurrent OnClose and poll
func TestRev_OnCloseVsPoll(t *testing.T) {
	for i := 0; i < 500; i++ {
		p := revPolling(t)
		ctx, _ := revCtx("GET", "/engine.io/?EIO=4&transport=polling&sid=x", nil)
		var wg sync.WaitGroup
		wg.Add(2)
		go func() { defer wg.Done(); p.OnRequest(ctx) }()
		go func() { defer wg.Done(); p.OnClose() }()
		wg.Wait()
		if !revAnswered(ctx, 2*time.Second) {
			t.Fatalf("iteration %d: poll not answered (state %s writable %v)", i, p.ReadyState(), p.Writable())
		}
	}
}

// dba1c10: Close during a data request: no transport error
func TestRev_CloseDuringDataRequest(t *testing.T) {
	p := revPolling(t)
	var errs atomic.Int32
	p.On("error", func(a ...any) { errs.Add(1); t.Logf("error: %v", a) })
	var closed atomic.Int32
	p.On("packet", func(a ...any) {
		if a[0].(*packet.Packet).Type == packet.MESSAGE {
			p.Close(func() { closed.Add(1) })
		}
	})
	ctx, w := revCtx("POST", "/engine.io/?EIO=4&transport=polling&sid=x", strings.NewReader("4hello"))
	ctx.Request().Header.Set("Content-Type", "text/plain;charset=UTF-8")
	p.OnRequest(ctx)
	if !revAnswered(ctx, 2*time.Second) {
		t.Fatalf("post not answered")
	}
	time.Sleep(100 * time.Millisecond)
	if errs.Load() != 0 {
		t.Fatalf("%d errors", errs.Load())
	}
	t.Logf("answered %d %q state %s", w.Code, w.Body.String(), p.ReadyState())
	_ = http.StatusOK
}
