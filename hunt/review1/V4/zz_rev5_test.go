package engine

import (
	"io"
	"net/http"
	"sync"
	"testing"
	"time"
)

// Observation O1 (not introduced by the reviewed commits; same scenario as dba1c10):
// polling.DoClose aborts the data request (429) while onDataRequest is answering it (200 ok);
// both write status/headers into the same HttpContext without a common lock, and the client can
// receive "200, Content-Length: 2" with an empty body.
func TestRevO1_PostVsAppClose(t *testing.T) {
	e := revNew(t, nil)
	bad := 0
	for i := 0; i < 3000 && bad == 0; i++ {
		sid := e.handshake(4)
		s := e.socket(sid)
		var wg sync.WaitGroup
		var r revResp
		wg.Add(2)
		go func() { defer wg.Done(); r = e.do("POST", e.url(4, sid), "4hello", 3*time.Second) }()
		go func() { defer wg.Done(); time.Sleep(time.Duration(i%40) * 10 * time.Microsecond); s.Close(false) }()
		wg.Wait()
		s.Close(true)
		switch {
		case r.err == nil && r.code == 200 && r.body == "ok":
		case r.err == nil && r.code == 429:
		case r.err == nil && r.code == 400: // session already closed
		default:
			bad++
			t.Errorf("iteration %d: malformed answer to the data request: code %d body %q err %v", i, r.code, r.body, r.err)
		}
	}
}

// O1 made deterministic by sleep-4.diff:
//
//	app goroutine, polling.DoClose:   dataCtx.SetStatusCode(429) .................. dataCtx.Write(nil)
//	handler, polling.onDataRequest:        ctx.ResponseHeaders.With(Content-Length: 2), ctx.SetStatusCode(200) ....... io.WriteString(ctx, "ok")
func TestRevO1_PostVsAppClose_Sleep4(t *testing.T) {
	e := revNew(t, nil)
	sid := e.handshake(4)
	s := e.socket(sid)
	pr, pw := io.Pipe()
	req, _ := http.NewRequest("POST", e.url(4, sid), pr)
	req.Header.Set("Content-Type", "text/plain;charset=UTF-8")
	req.ContentLength = 6
	done := make(chan revResp, 1)
	go func() {
		res, err := e.client.Do(req)
		if err != nil {
			done <- revResp{err: err}
			return
		}
		b, err := io.ReadAll(res.Body)
		res.Body.Close()
		done <- revResp{code: res.StatusCode, body: string(b), err: err}
	}()
	pw.Write([]byte("4he"))
	time.Sleep(50 * time.Millisecond)
	go s.Close(false) // DoClose: loads dataCtx, sets 429, sleeps (4a)
	time.Sleep(20 * time.Millisecond)
	pw.Write([]byte("llo")) // handler: cleanup, Content-Length 2, 200, sleeps (4b)
	pw.Close()
	r := <-done
	if !(r.err == nil && (r.code == 200 && r.body == "ok" || r.code == 429)) {
		t.Fatalf("malformed answer to the data request: code %d body %q err %v", r.code, r.body, r.err)
	}
}
