package engine

import (
	"math/rand"
	"sync"
	"testing"
	"time"

	"github.com/gorilla/websocket"
)

// chaos: upgrade packet racing polls, posts, Close(false), Close(true)
func TestRevChaos_UpgradeVsClose(t *testing.T) {
	e := revNew(t, nil)
	for i := 0; i < 300; i++ {
		sid := e.handshake(4)
		s := e.socket(sid)
		c, _, err := websocket.DefaultDialer.Dial(e.wsURL(4, sid), nil)
		if err != nil {
			t.Fatal(err)
		}
		time.Sleep(3 * time.Millisecond) // observation O2: a probe that arrives before MaybeUpgrade listens is lost
		c.WriteMessage(websocket.TextMessage, []byte("2probe"))
		if _, m, err := c.ReadMessage(); err != nil || string(m) != "3probe" {
			t.Fatalf("probe: %q %v", m, err)
		}
		jitter := func() { time.Sleep(time.Duration(rand.Intn(300)) * time.Microsecond) }
		var wg sync.WaitGroup
		res := make([]revResp, 2)
		wg.Add(5)
		go func() { defer wg.Done(); jitter(); res[0] = e.do("GET", e.url(4, sid), "", 3*time.Second) }()
		go func() { defer wg.Done(); jitter(); res[1] = e.do("POST", e.url(4, sid), "4hello", 3*time.Second) }()
		go func() { defer wg.Done(); jitter(); c.WriteMessage(websocket.TextMessage, []byte("5")) }()
		go func() {
			defer wg.Done()
			jitter()
			if i%2 == 0 {
				s.Close(false)
			}
		}()
		go func() { defer wg.Done(); jitter(); jitter(); s.Close(true) }()
		wg.Wait()
		for k, r := range res {
			if r.err != nil && !(k == 1 && r.code == 200) { // O1 is known
				t.Fatalf("iteration %d: request %d not answered: %+v err=%v (state %s)", i, k, r, r.err, s.ReadyState())
			}
		}
		revWait(t, "closed", 2*time.Second, func() bool { return s.ReadyState() == "closed" })
		c.SetReadDeadline(time.Now().Add(2 * time.Second))
		for {
			if _, _, err := c.ReadMessage(); err != nil {
				if ne, ok := err.(interface{ Timeout() bool }); ok && ne.Timeout() {
					t.Fatalf("iteration %d: websocket of the closed session is still open (transport %s state %s)", i, s.Transport().Name(), s.Transport().ReadyState())
				}
				break
			}
		}
		c.Close()
		revWait(t, "close event", time.Second, func() bool { return len(e.closeReasons(sid)) == 1 })
	}
	revWait(t, "unregistered", time.Second, func() bool { return e.srv.ClientsCount() == 0 })
}
