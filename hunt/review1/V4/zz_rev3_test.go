package engine

import (
	"sync/atomic"
	"testing"
	"time"
)

// Residual window of 3864419 (needs sleep-3.diff): the upgrade completes between
// the name test and transport.OnRequest: the request goes to the discarded polling transport.
func TestRevN_RequestHandedToDiscardedTransport(t *testing.T) {
	for _, method := range []string{"GET", "POST"} {
		t.Run(method, func(t *testing.T) {
			e := revNew(t, nil)
			var msgs atomic.Int32
			e.srv.On("connection", func(a ...any) {
				a[0].(Socket).On("message", func(...any) { msgs.Add(1) })
			})
			sid := e.handshake(4)
			s := e.socket(sid)
			done := make(chan revResp, 1)
			go func() { done <- e.do(method, e.url(4, sid), "4hello", 3*time.Second) }()
			time.Sleep(100 * time.Millisecond)
			c := revUpgrade(t, e, sid)
			defer c.Close()
			revWait(t, "upgrade", 2*time.Second, func() bool { return s.Upgraded() && s.Transport().Name() == "websocket" })
			r := <-done
			time.Sleep(100 * time.Millisecond)
			t.Logf("%s: %+v; connection_errors %d; messages delivered %d; state %s %v", method, r, e.connErr.Load(), msgs.Load(), s.ReadyState(), e.closeReasons(sid))
			if r.err != nil {
				t.Fatalf("request not answered: %v", r.err)
			}
			if method == "POST" && r.code == 200 && msgs.Load() == 0 {
				t.Errorf("POST acknowledged with ok but its message was dropped")
			}
		})
	}
}
