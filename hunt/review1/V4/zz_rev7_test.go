package engine

import (
	"testing"
	"time"

	"github.com/gorilla/websocket"
)

func TestRevX_ProbeLoop(t *testing.T) {
	e := revNew(t, nil)
	for i := 0; i < 2000; i++ {
		sid := e.handshake(4)
		s := e.socket(sid)
		c, _, err := websocket.DefaultDialer.Dial(e.wsURL(4, sid), nil)
		if err != nil {
			t.Fatal(err)
		}
		c.WriteMessage(websocket.TextMessage, []byte("2probe"))
		c.SetReadDeadline(time.Now().Add(2 * time.Second))
		if _, m, err := c.ReadMessage(); err != nil || string(m) != "3probe" {
			t.Fatalf("iteration %d: probe: %q %v upgrading %v", i, m, err, s.Upgrading())
		}
		c.Close()
		s.Close(true)
	}
}
