package transports

import (
	"sync"
	"sync/atomic"
	"testing"
	"time"
)

// how often do the paired tests (46aa1a3, a14a18c) both fire for one poll? The second send finds no
// request and reports "polling write error" (harmless: the session's listeners are gone by then)
func TestRevInfo_DoubleSend(t *testing.T) {
	var errs atomic.Int32
	n := 3000
	for i := 0; i < n; i++ {
		p := revPolling(t)
		p.On("error", func(a ...any) { errs.Add(1) })
		ctx, _ := revCtx("GET", "/engine.io/?EIO=4&transport=polling&sid=x", nil)
		var wg sync.WaitGroup
		wg.Add(2)
		go func() { defer wg.Done(); p.OnRequest(ctx) }()
		if i%2 == 0 {
			go func() { defer wg.Done(); p.OnClose() }()
		} else {
			go func() { defer wg.Done(); p.Close() }()
		}
		wg.Wait()
		if !revAnswered(ctx, 2*time.Second) {
			t.Fatalf("iteration %d: poll not answered", i)
		}
	}
	time.Sleep(100 * time.Millisecond)
	t.Logf("%d write errors in %d iterations", errs.Load(), n)
}
