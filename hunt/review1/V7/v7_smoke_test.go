package engine

import (
	"io"
	"net/http"
	"strings"
	"sync"
	"sync/atomic"
	"testing"
	"time"

	"github.com/gorilla/websocket"
	"github.com/zishang520/engine.io/v2/config"
	"github.com/zishang520/engine.io/v2/types"
)

// polling handshake, websocket upgrade, echo, close in every way; checks that
// every session's close event is seen once and nothing stays registered
func TestV7SmokeLifecycle(t *testing.T) {
	s, hs := v7server(t, func(o *config.ServerOptions) {
		o.SetPingInterval(200 * time.Millisecond)
		o.SetPingTimeout(300 * time.Millisecond)
		o.SetCors(&types.Cors{Origin: true, Credentials: true})
		o.SetCookie(&http.Cookie{})
	})
	var opened, closed int32
	s.On("connection", func(args ...any) {
		so := args[0].(Socket)
		atomic.AddInt32(&opened, 1)
		var once int32
		so.On("close", func(...any) {
			if atomic.AddInt32(&once, 1) != 1 {
				t.Errorf("close emitted twice for %s", so.Id())
			}
			atomic.AddInt32(&closed, 1)
		})
		so.On("message", func(args ...any) {
			b, _ := io.ReadAll(args[0].(io.Reader))
			so.Send(strings.NewReader(string(b)), nil, nil)
		})
	})
	wsurl := "ws" + strings.TrimPrefix(hs.URL, "http") + "/engine.io/?EIO=4&transport=websocket"
	var wg sync.WaitGroup
	for i := 0; i < 40; i++ {
		wg.Add(1)
		go func(i int) {
			defer wg.Done()
			_, body := v7get(t, hs.URL+"/engine.io/?EIO=4&transport=polling", map[string]string{"Origin": "https://a.example"})
			m := v7sidRe.FindStringSubmatch(body)
			if m == nil {
				t.Errorf("handshake: %q", body)
				return
			}
			sid := m[1]
			switch i % 4 {
			case 0: // upgrade, echo, client closes the websocket
				c, _, err := websocket.DefaultDialer.Dial(wsurl+"&sid="+sid, nil)
				if err != nil {
					t.Error(err)
					return
				}
				c.WriteMessage(websocket.TextMessage, []byte("2probe"))
				c.ReadMessage()
				c.WriteMessage(websocket.TextMessage, []byte("5"))
				c.WriteMessage(websocket.TextMessage, []byte("4hi"))
				c.SetReadDeadline(time.Now().Add(2 * time.Second))
				for {
					_, p, err := c.ReadMessage()
					if err != nil {
						t.Errorf("echo: %v", err)
						break
					}
					if string(p) == "4hi" {
						break
					}
				}
				c.Close()
			case 1: // polling, close packet
				req, _ := http.NewRequest("POST", hs.URL+"/engine.io/?EIO=4&transport=polling&sid="+sid, strings.NewReader("1"))
				res, err := http.DefaultClient.Do(req)
				if err == nil {
					res.Body.Close()
				}
			case 2: // server side close
				if so, ok := s.Clients().Load(sid); ok {
					so.Close(i%8 == 2)
				}
				v7get(t, hs.URL+"/engine.io/?EIO=4&transport=polling&sid="+sid, nil)
			case 3: // abandoned: ping timeout
			}
		}(i)
	}
	wg.Wait()
	deadline := time.Now().Add(5 * time.Second)
	for time.Now().Before(deadline) && (atomic.LoadInt32(&closed) != atomic.LoadInt32(&opened) || s.ClientsCount() != 0) {
		time.Sleep(50 * time.Millisecond)
	}
	if o, c := atomic.LoadInt32(&opened), atomic.LoadInt32(&closed); o != 40 || c != 40 || s.ClientsCount() != 0 || s.Clients().Len() != 0 {
		t.Fatalf("opened=%d closed=%d count=%d len=%d", o, c, s.ClientsCount(), s.Clients().Len())
	}
}
