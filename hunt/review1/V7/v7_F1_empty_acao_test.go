package engine

import (
	"net/http"
	"net/http/httptest"
	"strings"
	"testing"

	"github.com/gorilla/websocket"
	"github.com/zishang520/engine.io/v2/config"
	"github.com/zishang520/engine.io/v2/types"
)

// F1 through the server: cors {origin: true}, requests without an Origin
// header (same-origin GET, curl, non-browser clients)
//
//	cd /tmp/rev/V7 && go test -vet=off -count=1 -run TestV7F1 ./engine
func TestV7F1EmptyAllowOriginServer(t *testing.T) {
	opts := config.DefaultServerOptions()
	opts.SetCors(&types.Cors{Origin: true, Credentials: true})
	s := NewServer(opts)
	hs := httptest.NewServer(http.HandlerFunc(s.ServeHTTP))
	defer func() { s.Close(); hs.Close() }()

	res, err := http.Get(hs.URL + "/engine.io/?EIO=4&transport=polling")
	if err != nil {
		t.Fatal(err)
	}
	res.Body.Close()
	if v, ok := res.Header["Access-Control-Allow-Origin"]; ok {
		t.Errorf("polling handshake: Access-Control-Allow-Origin: %q", v)
	}

	d := websocket.Dialer{}
	c, wres, err := d.Dial("ws"+strings.TrimPrefix(hs.URL, "http")+"/engine.io/?EIO=4&transport=websocket", nil)
	if err != nil {
		t.Fatal(err)
	}
	defer c.Close()
	if v, ok := wres.Header["Access-Control-Allow-Origin"]; ok {
		t.Errorf("websocket handshake: Access-Control-Allow-Origin: %q", v)
	}
}
