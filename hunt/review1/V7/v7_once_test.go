package types

import (
	"sync"
	"sync/atomic"
	"testing"
	"time"
)

// scenario of the commit message, part 1: On(f) then Once(f)
func TestV7OnceRemovesItselfNotFirstRegistration(t *testing.T) {
	e := NewEventEmitter()
	var n int32
	f := func(...any) { atomic.AddInt32(&n, 1) }
	e.On("x", f)
	e.Once("x", f)
	e.Emit("x")
	if n != 2 {
		t.Fatalf("first emit: want 2 calls, got %d", n)
	}
	if c := e.ListenerCount("x"); c != 1 {
		t.Fatalf("want the On registration to remain, count=%d", c)
	}
	e.Emit("x")
	if n != 3 {
		t.Fatalf("second emit: want 3 calls, got %d", n)
	}
	e.Emit("x")
	if n != 4 {
		t.Fatalf("third emit: want 4 calls, got %d", n)
	}
}

// Once(f) then On(f): the once is the first registration
func TestV7OnceThenOn(t *testing.T) {
	e := NewEventEmitter()
	var n int32
	f := func(...any) { atomic.AddInt32(&n, 1) }
	e.Once("x", f)
	e.On("x", f)
	e.Emit("x")
	e.Emit("x")
	if n != 3 || e.ListenerCount("x") != 1 {
		t.Fatalf("n=%d count=%d", n, e.ListenerCount("x"))
	}
}

// two once registrations of one function in one call and in two calls
func TestV7OnceTwice(t *testing.T) {
	e := NewEventEmitter()
	var n int32
	f := func(...any) { atomic.AddInt32(&n, 1) }
	e.Once("x", f, f)
	e.Once("x", f)
	e.Emit("x")
	if n != 3 || e.ListenerCount("x") != 0 {
		t.Fatalf("n=%d count=%d", n, e.ListenerCount("x"))
	}
	e.Emit("x")
	if n != 3 {
		t.Fatalf("n=%d", n)
	}
}

// part 2 of the message: the once listener emits the same event
func TestV7OnceReentrantEmit(t *testing.T) {
	e := NewEventEmitter()
	var n, other int32
	e.On("x", func(...any) { atomic.AddInt32(&other, 1) })
	e.Once("x", func(...any) {
		atomic.AddInt32(&n, 1)
		if c := e.ListenerCount("x"); c != 1 {
			t.Errorf("inside fn the once registration must be gone, count=%d", c)
		}
		e.Emit("x")
	})
	done := make(chan struct{})
	go func() { e.Emit("x"); close(done) }()
	select {
	case <-done:
	case <-time.After(2 * time.Second):
		t.Fatal("deadlock")
	}
	if n != 1 || other != 2 {
		t.Fatalf("n=%d other=%d", n, other)
	}
}

// mutual recursion through two events
func TestV7OnceMutual(t *testing.T) {
	e := NewEventEmitter()
	var a, b int32
	e.Once("x", func(...any) { atomic.AddInt32(&a, 1); e.Emit("y") })
	e.Once("y", func(...any) { atomic.AddInt32(&b, 1); e.Emit("x") })
	done := make(chan struct{})
	go func() { e.Emit("x"); close(done) }()
	select {
	case <-done:
	case <-time.After(2 * time.Second):
		t.Fatal("deadlock")
	}
	if a != 1 || b != 1 {
		t.Fatalf("a=%d b=%d", a, b)
	}
}

// a once listener that re-registers itself once from inside
func TestV7OnceReRegister(t *testing.T) {
	e := NewEventEmitter()
	var n int32
	var f Listener
	f = func(...any) {
		if atomic.AddInt32(&n, 1) < 3 {
			e.Once("x", f)
		}
	}
	e.Once("x", f)
	for i := 0; i < 5; i++ {
		e.Emit("x")
	}
	if n != 3 || e.ListenerCount("x") != 0 {
		t.Fatalf("n=%d count=%d", n, e.ListenerCount("x"))
	}
}

// RemoveListener of a pending once registration, and of one that has fired
func TestV7OnceRemoveListener(t *testing.T) {
	e := NewEventEmitter()
	var n int32
	f := func(...any) { atomic.AddInt32(&n, 1) }
	e.Once("x", f)
	if !e.RemoveListener("x", f) {
		t.Fatal("not removed")
	}
	e.Emit("x")
	if n != 0 {
		t.Fatalf("n=%d", n)
	}
	e.Once("x", f)
	e.Emit("x")
	if e.RemoveListener("x", f) {
		t.Fatal("removed something after it fired")
	}
}

// RemoveAllListeners then a new registration under the same name: the old
// once entry (still in an Emit snapshot) must not remove anything of the new slice
func TestV7OnceRemoveAllThenReAdd(t *testing.T) {
	e := NewEventEmitter()
	var n, m int32
	g := func(...any) { atomic.AddInt32(&m, 1) }
	e.Once("x", func(...any) {
		atomic.AddInt32(&n, 1)
	})
	e.On("x", func(...any) {})
	ls := e.Listeners("x") // snapshot
	e.RemoveAllListeners("x")
	e.Once("x", g)
	e.On("x", g)
	ls[0]() // the stale once fires
	if n != 1 || e.ListenerCount("x") != 2 {
		t.Fatalf("n=%d count=%d", n, e.ListenerCount("x"))
	}
	e.Emit("x")
	if m != 2 || e.ListenerCount("x") != 1 {
		t.Fatalf("m=%d count=%d", m, e.ListenerCount("x"))
	}
}

// a panic in fn: registration is gone anyway
func TestV7OncePanic(t *testing.T) {
	e := NewEventEmitter()
	e.Once("x", func(...any) { panic("boom") })
	func() {
		defer func() { recover() }()
		e.Emit("x")
	}()
	if c := e.ListenerCount("x"); c != 0 {
		t.Fatalf("count=%d", c)
	}
}

// many concurrent emitters, several once listeners of the same function mixed with On
func TestV7OnceConcurrent(t *testing.T) {
	for round := 0; round < 200; round++ {
		e := NewEventEmitter()
		var once, on int32
		f := func(...any) { atomic.AddInt32(&once, 1) }
		g := func(...any) { atomic.AddInt32(&on, 1) }
		e.On("x", g)
		e.Once("x", f)
		e.On("x", g)
		e.Once("x", f)
		e.Once("x", f)
		var wg sync.WaitGroup
		const emitters = 8
		for i := 0; i < emitters; i++ {
			wg.Add(1)
			go func() { defer wg.Done(); e.Emit("x") }()
		}
		wg.Wait()
		if once != 3 || on != 2*emitters || e.ListenerCount("x") != 2 {
			t.Fatalf("once=%d on=%d count=%d", once, on, e.ListenerCount("x"))
		}
	}
}

// a once listener that removes ANOTHER listener registered later: that one is
// in the snapshot and still runs (as in Node); only checks no crash / counts
func TestV7OnceRemovesOther(t *testing.T) {
	e := NewEventEmitter()
	var n int32
	g := func(...any) { atomic.AddInt32(&n, 1) }
	e.Once("x", func(...any) { e.RemoveListener("x", g) })
	e.On("x", g)
	e.Emit("x")
	e.Emit("x")
	if n != 1 || e.ListenerCount("x") != 0 {
		t.Fatalf("n=%d count=%d", n, e.ListenerCount("x"))
	}
}

// Concurrent Emit with a slow once listener: the second Emit no longer waits
// for the listener to finish (sync.Once.Do did). Informational.
func TestV7OnceSecondEmitDoesNotWait(t *testing.T) {
	e := NewEventEmitter()
	started := make(chan struct{})
	release := make(chan struct{})
	var finished atomic.Bool
	e.Once("x", func(...any) { close(started); <-release; finished.Store(true) })
	go e.Emit("x")
	<-started
	// the registration is already gone: a second Emit has nothing to call
	e.Emit("x")
	t.Logf("second Emit returned while the once listener was still running: finished=%v", finished.Load())
	close(release)
}
