package engine

import (
	"io"
	"net/http"
	"net/http/httptest"
	"regexp"
	"strings"
	"testing"
	"time"

	"github.com/gorilla/websocket"
	"github.com/zishang520/engine.io/v2/config"
	"github.com/zishang520/engine.io/v2/types"
)

func v7server(t *testing.T, mod func(*config.ServerOptions)) (Server, *httptest.Server) {
	t.Helper()
	opts := config.DefaultServerOptions()
	if mod != nil {
		mod(opts)
	}
	s := NewServer(opts)
	hs := httptest.NewServer(http.HandlerFunc(func(w http.ResponseWriter, r *http.Request) {
		if strings.HasPrefix(r.URL.Path, "/engine.io/") {
			s.ServeHTTP(w, r)
			return
		}
		http.NotFound(w, r)
	}))
	t.Cleanup(func() { s.Close(); hs.Close() })
	return s, hs
}

func v7get(t *testing.T, url string, hdr map[string]string) (*http.Response, string) {
	t.Helper()
	req, _ := http.NewRequest("GET", url, nil)
	for k, v := range hdr {
		req.Header.Set(k, v)
	}
	res, err := http.DefaultClient.Do(req)
	if err != nil {
		t.Fatal(err)
	}
	b, _ := io.ReadAll(res.Body)
	res.Body.Close()
	return res, string(b)
}

var v7sidRe = regexp.MustCompile(`"sid":"([^"]+)"`)

// ---- ffdb8f0 -----------------------------------------------------------

func TestV7CookieSameSiteDefault(t *testing.T) {
	for name, tc := range map[string]struct {
		in   http.SameSite
		want string
	}{
		"unset":   {0, "SameSite=Lax"},
		"default": {http.SameSiteDefaultMode, "SameSite=Lax"},
		"lax":     {http.SameSiteLaxMode, "SameSite=Lax"},
		"strict":  {http.SameSiteStrictMode, "SameSite=Strict"},
		"none":    {http.SameSiteNoneMode, "SameSite=None"},
	} {
		for _, eio := range []string{"4", "3"} {
			_, hs := v7server(t, func(o *config.ServerOptions) {
				o.SetCookie(&http.Cookie{SameSite: tc.in})
				o.SetAllowEIO3(true)
				o.SetPingInterval(100 * time.Millisecond)
				o.SetPingTimeout(100 * time.Millisecond)
			})
			res, body := v7get(t, hs.URL+"/engine.io/?EIO="+eio+"&transport=polling", nil)
			if res.StatusCode != 200 {
				t.Fatalf("%s: status %d %s", name, res.StatusCode, body)
			}
			sc := res.Header.Values("Set-Cookie")
			if len(sc) != 1 {
				t.Fatalf("%s EIO=%s: Set-Cookie lines %q", name, eio, sc)
			}
			m := v7sidRe.FindStringSubmatch(body)
			if m == nil {
				t.Fatalf("no sid in %q", body)
			}
			if !strings.HasPrefix(sc[0], "io="+m[1]+";") || !strings.Contains(sc[0], "Path=/") || !strings.Contains(sc[0], "HttpOnly") || !strings.HasSuffix(sc[0], tc.want) {
				t.Errorf("%s EIO=%s: Set-Cookie %q, want suffix %q", name, eio, sc[0], tc.want)
			}
			// a later poll of the session carries no cookie
			res2, _ := v7get(t, hs.URL+"/engine.io/?EIO="+eio+"&transport=polling&sid="+m[1], nil)
			if sc := res2.Header.Values("Set-Cookie"); len(sc) != 0 {
				t.Errorf("%s: second poll Set-Cookie %q", name, sc)
			}
		}
	}
}

// no cookie configured: none is sent
func TestV7CookieNone(t *testing.T) {
	_, hs := v7server(t, nil)
	res, _ := v7get(t, hs.URL+"/engine.io/?EIO=4&transport=polling", nil)
	if sc := res.Header.Values("Set-Cookie"); len(sc) != 0 {
		t.Errorf("Set-Cookie %q", sc)
	}
}

// the configured cookie is shared by two servers: the default is applied to
// the caller's object (informational)
func TestV7CookieSharedObject(t *testing.T) {
	c := &http.Cookie{Name: "x"}
	v7server(t, func(o *config.ServerOptions) { o.SetCookie(c) })
	t.Logf("caller's cookie after Construct: SameSite=%d Path=%q HttpOnly=%v", c.SameSite, c.Path, c.HttpOnly)
}

// websocket-only handshake: is there a cookie at all? (informational)
func TestV7CookieWebsocketHandshake(t *testing.T) {
	_, hs := v7server(t, func(o *config.ServerOptions) { o.SetCookie(&http.Cookie{}) })
	c, res, err := websocket.DefaultDialer.Dial("ws"+strings.TrimPrefix(hs.URL, "http")+"/engine.io/?EIO=4&transport=websocket", nil)
	if err != nil {
		t.Fatal(err)
	}
	defer c.Close()
	t.Logf("websocket handshake Set-Cookie: %q", res.Header.Values("Set-Cookie"))
}

// ---- CORS through the server ------------------------------------------

func TestV7ServerCorsDisallowed(t *testing.T) {
	_, hs := v7server(t, func(o *config.ServerOptions) {
		o.SetCors(&types.Cors{Origin: []any{"https://good.example"}, Credentials: true})
		o.SetPingInterval(100 * time.Millisecond)
	})
	// polling handshake
	res, body := v7get(t, hs.URL+"/engine.io/?EIO=4&transport=polling", map[string]string{"Origin": "https://evil.example"})
	if _, ok := res.Header["Access-Control-Allow-Origin"]; ok || res.StatusCode != 200 {
		t.Errorf("polling: %d ACAO=%q", res.StatusCode, res.Header.Values("Access-Control-Allow-Origin"))
	}
	if v := res.Header.Values("Vary"); len(v) != 1 || v[0] != "Origin" {
		t.Errorf("polling: Vary %q", v)
	}
	sid := v7sidRe.FindStringSubmatch(body)[1]
	// error answer (unknown sid)
	res, _ = v7get(t, hs.URL+"/engine.io/?EIO=4&transport=polling&sid=nope", map[string]string{"Origin": "https://evil.example"})
	if _, ok := res.Header["Access-Control-Allow-Origin"]; ok || res.StatusCode != 400 {
		t.Errorf("error answer: %d ACAO=%q", res.StatusCode, res.Header.Values("Access-Control-Allow-Origin"))
	}
	// allowed origin
	res, _ = v7get(t, hs.URL+"/engine.io/?EIO=4&transport=polling&sid="+sid, map[string]string{"Origin": "https://good.example"})
	if v := res.Header.Get("Access-Control-Allow-Origin"); v != "https://good.example" {
		t.Errorf("allowed: ACAO=%q", v)
	}
	// websocket handshake, disallowed and allowed
	for origin, want := range map[string][]string{"https://evil.example": nil, "https://good.example": {"https://good.example"}} {
		c, wres, err := websocket.DefaultDialer.Dial("ws"+strings.TrimPrefix(hs.URL, "http")+"/engine.io/?EIO=4&transport=websocket", http.Header{"Origin": {origin}})
		if err != nil {
			t.Fatal(err)
		}
		got := wres.Header.Values("Access-Control-Allow-Origin")
		if strings.Join(got, "|") != strings.Join(want, "|") {
			t.Errorf("websocket %s: ACAO=%q", origin, got)
		}
		if v := wres.Header.Values("Vary"); len(v) != 1 || v[0] != "Origin" {
			t.Errorf("websocket %s: Vary %q", origin, v)
		}
		c.Close()
	}
}

// Vary lines set by a handler in front of the engine survive, on polling and
// on the websocket handshake
func TestV7ServerCorsVary(t *testing.T) {
	opts := config.DefaultServerOptions()
	opts.SetCors(&types.Cors{Origin: []any{"https://good.example"}})
	s := NewServer(opts)
	hs := httptest.NewServer(http.HandlerFunc(func(w http.ResponseWriter, r *http.Request) {
		w.Header().Add("Vary", "Accept-Encoding")
		w.Header().Add("Vary", "Cookie")
		s.ServeHTTP(w, r)
	}))
	defer func() { s.Close(); hs.Close() }()
	res, _ := v7get(t, hs.URL+"/engine.io/?EIO=4&transport=polling", map[string]string{"Origin": "https://good.example"})
	toks := map[string]bool{}
	for _, l := range res.Header.Values("Vary") {
		for _, tok := range strings.Split(l, ",") {
			toks[strings.TrimSpace(tok)] = true
		}
	}
	if len(toks) != 3 || !toks["Accept-Encoding"] || !toks["Cookie"] || !toks["Origin"] {
		t.Errorf("polling Vary %q", res.Header.Values("Vary"))
	}
	c, wres, err := websocket.DefaultDialer.Dial("ws"+strings.TrimPrefix(hs.URL, "http")+"/engine.io/?EIO=4&transport=websocket", http.Header{"Origin": {"https://good.example"}})
	if err != nil {
		t.Fatal(err)
	}
	defer c.Close()
	toks = map[string]bool{}
	for _, l := range wres.Header.Values("Vary") {
		for _, tok := range strings.Split(l, ",") {
			toks[strings.TrimSpace(tok)] = true
		}
	}
	if len(toks) != 3 || !toks["Accept-Encoding"] || !toks["Cookie"] || !toks["Origin"] {
		t.Errorf("websocket Vary %q", wres.Header.Values("Vary"))
	}
}

// a Set-Cookie set in front of the engine and the session cookie (informational)
func TestV7CookieKeepsForeignSetCookie(t *testing.T) {
	opts := config.DefaultServerOptions()
	opts.SetCookie(&http.Cookie{})
	s := NewServer(opts)
	hs := httptest.NewServer(http.HandlerFunc(func(w http.ResponseWriter, r *http.Request) {
		http.SetCookie(w, &http.Cookie{Name: "csrf", Value: "1"})
		s.ServeHTTP(w, r)
	}))
	defer func() { s.Close(); hs.Close() }()
	res, _ := v7get(t, hs.URL+"/engine.io/?EIO=4&transport=polling", nil)
	t.Logf("Set-Cookie lines: %q", res.Header.Values("Set-Cookie"))
}
