package types

import (
	"net/http"
	"net/http/httptest"
	"regexp"
	"sort"
	"strings"
	"testing"
)

// runs the CORS middleware for one request through a real net/http server and
// returns the response; `pre` may set response headers before the middleware
func v7cors(t *testing.T, opts *Cors, method string, reqHeaders map[string]string, pre func(http.ResponseWriter)) *http.Response {
	t.Helper()
	mw := MiddlewareWrapper(opts)
	srv := httptest.NewServer(http.HandlerFunc(func(w http.ResponseWriter, r *http.Request) {
		if pre != nil {
			pre(w)
		}
		ctx := NewHttpContext(w, r)
		mw(ctx, func(error) {
			ctx.Write([]byte("ok"))
		})
		<-ctx.Done()
	}))
	defer srv.Close()
	req, _ := http.NewRequest(method, srv.URL+"/", nil)
	for k, v := range reqHeaders {
		req.Header.Set(k, v)
	}
	res, err := http.DefaultClient.Do(req)
	if err != nil {
		t.Fatal(err)
	}
	res.Body.Close()
	return res
}

func v7varyTokens(h http.Header) []string {
	var toks []string
	for _, line := range h.Values("Vary") {
		for _, tok := range strings.Split(line, ",") {
			if tok = strings.TrimSpace(tok); tok != "" {
				toks = append(toks, tok)
			}
		}
	}
	sort.Strings(toks)
	return toks
}

// ---- f59ecdc -----------------------------------------------------------

func TestV7CorsDisallowedOrigin(t *testing.T) {
	for name, origin := range map[string]any{
		"list":   []any{"https://good.example"},
		"regexp": regexp.MustCompile(`^https://good\.`),
		"false":  false,
	} {
		for _, method := range []string{"GET", "POST", "OPTIONS"} {
			res := v7cors(t, &Cors{Origin: origin, Credentials: true}, method, map[string]string{"Origin": "https://evil.example"}, nil)
			if v, ok := res.Header["Access-Control-Allow-Origin"]; ok {
				t.Errorf("%s %s: Access-Control-Allow-Origin present: %q", name, method, v)
			}
			if got := v7varyTokens(res.Header); len(got) == 0 || got[len(got)-1] != "Origin" {
				t.Errorf("%s %s: Vary=%v", name, method, got)
			}
		}
	}
	// allowed
	res := v7cors(t, &Cors{Origin: []any{"https://good.example"}}, "GET", map[string]string{"Origin": "https://good.example"}, nil)
	if v := res.Header.Get("Access-Control-Allow-Origin"); v != "https://good.example" {
		t.Errorf("allowed origin: %q", v)
	}
}

// ---- ee3c41e -----------------------------------------------------------

func TestV7CorsVaryKeepsEveryLine(t *testing.T) {
	res := v7cors(t, &Cors{Origin: "https://good.example"}, "GET", map[string]string{"Origin": "https://good.example"}, func(w http.ResponseWriter) {
		w.Header().Add("Vary", "Accept-Encoding")
		w.Header().Add("Vary", "Accept-Language, Cookie")
		w.Header().Add("Vary", "X-Last")
	})
	got := strings.Join(v7varyTokens(res.Header), "|")
	if got != "Accept-Encoding|Accept-Language|Cookie|Origin|X-Last" {
		t.Errorf("Vary tokens: %s", got)
	}
}

func TestV7CorsVaryStar(t *testing.T) {
	for name, lines := range map[string][]string{
		"single star":  {"*"},
		"star last":    {"Accept-Encoding", "*"},
		"star first":   {"*", "Accept-Encoding"},
		"star twice":   {"*", "*"},
		"star in list": {"Accept-Encoding, *"},
	} {
		res := v7cors(t, &Cors{Origin: "https://good.example"}, "GET", nil, func(w http.ResponseWriter) {
			for _, l := range lines {
				w.Header().Add("Vary", l)
			}
		})
		t.Logf("%-12s -> Vary lines %q", name, res.Header.Values("Vary"))
		toks := v7varyTokens(res.Header)
		hasStar := false
		for _, tok := range toks {
			hasStar = hasStar || tok == "*"
		}
		if !hasStar {
			t.Errorf("%s: star lost: %v", name, toks)
		}
	}
}

// nothing to add (Origin "*"): the lines that are there stay as they are
func TestV7CorsVaryUntouched(t *testing.T) {
	res := v7cors(t, &Cors{Origin: "*"}, "GET", map[string]string{"Origin": "https://x.example"}, func(w http.ResponseWriter) {
		w.Header().Add("Vary", "A")
		w.Header().Add("Vary", "B")
	})
	if got := res.Header.Values("Vary"); len(got) != 2 || got[0] != "A" || got[1] != "B" {
		t.Errorf("Vary lines: %q", got)
	}
	if v := res.Header.Get("Access-Control-Allow-Origin"); v != "*" {
		t.Errorf("ACAO %q", v)
	}
}

// preflight: Access-Control-Request-Headers reflected and added to Vary together with Origin
func TestV7CorsVaryPreflight(t *testing.T) {
	res := v7cors(t, &Cors{Origin: []any{"https://good.example"}}, "OPTIONS", map[string]string{
		"Origin":                         "https://good.example",
		"Access-Control-Request-Headers": "x-a, x-b",
		"Access-Control-Request-Method":  "POST",
	}, func(w http.ResponseWriter) {
		w.Header().Add("Vary", "Accept-Encoding")
		w.Header().Add("Vary", "Origin")
	})
	got := strings.Join(v7varyTokens(res.Header), "|")
	if got != "Accept-Encoding|Access-Control-Request-Headers|Origin" {
		t.Errorf("Vary tokens: %s", got)
	}
	if res.StatusCode != 204 {
		t.Errorf("status %d", res.StatusCode)
	}
}

// a Vary line set under a non-canonical key directly in the header map
func TestV7CorsVaryNonCanonicalKey(t *testing.T) {
	res := v7cors(t, &Cors{Origin: "https://good.example"}, "GET", nil, func(w http.ResponseWriter) {
		w.Header()["vary"] = []string{"Accept-Encoding"}
	})
	t.Logf("Vary lines %q (raw map %v)", res.Header.Values("Vary"), res.Header)
}
