package types

import (
	"net/http"
	"net/http/httptest"
	"testing"
)

// F2 (behaviour changed by ee3c41e): a Vary that is already "*" on one of
// several field lines. Node's `vary` answers "*" as soon as "*" is a member.
// Before ee3c41e "star last" and "star twice" gave "Vary: *" (only the last
// line was looked at; "star first" lost the star altogether, which the commit
// repaired); now every multi-line case appends to the star.
//
//	cd /tmp/rev/V7 && go test -vet=off -count=1 -run TestV7F2 ./types
func TestV7F2VaryStarCollapses(t *testing.T) {
	for _, tc := range []struct {
		name  string
		lines []string
	}{
		{"single star", []string{"*"}},
		{"star last", []string{"Accept-Encoding", "*"}},
		{"star twice", []string{"*", "*"}},
		{"star first", []string{"*", "Accept-Encoding"}},
		{"star in list", []string{"Accept-Encoding, *"}},
	} {
		mw := MiddlewareWrapper(&Cors{Origin: "https://good.example"})
		srv := httptest.NewServer(http.HandlerFunc(func(w http.ResponseWriter, r *http.Request) {
			for _, l := range tc.lines {
				w.Header().Add("Vary", l)
			}
			ctx := NewHttpContext(w, r)
			mw(ctx, func(error) { ctx.Write([]byte("ok")) })
			<-ctx.Done()
		}))
		res, err := http.Get(srv.URL + "/")
		if err != nil {
			t.Fatal(err)
		}
		res.Body.Close()
		srv.Close()
		if got := res.Header.Values("Vary"); len(got) != 1 || got[0] != "*" {
			t.Errorf("%s: Vary lines %q, want [\"*\"]", tc.name, got)
		}
	}
}
