package types

import (
	"fmt"
	"sync"
	"testing"
	"unsafe"
)

type v7empty struct{}
type v7emptyArr [0]int
type v7nested struct {
	a struct{}
	b [0]string
}

func v7exerciseZeroSize[V comparable](t *testing.T, zero V) {
	t.Helper()
	var m Map[string, V]
	m.Store("a", zero)
	if _, ok := m.Load("a"); !ok {
		t.Fatal("Load after Store: missing")
	}
	if _, loaded := m.LoadOrStore("a", zero); !loaded {
		t.Fatal("LoadOrStore: existing not seen")
	}
	if _, loaded := m.LoadOrStore("b", zero); loaded {
		t.Fatal("LoadOrStore: new key reported loaded")
	}
	if m.Len() != 2 {
		t.Fatalf("Len=%d", m.Len())
	}
	if _, loaded := m.Swap("a", zero); !loaded {
		t.Fatal("Swap: existing not seen")
	}
	if !m.CompareAndSwap("a", zero, zero) {
		t.Fatal("CompareAndSwap failed")
	}
	// promote dirty -> read
	for i := 0; i < 10; i++ {
		m.Load("a")
		m.Load("zz")
	}
	m.Range(func(string, V) bool { return true })
	// delete a (p=nil in read), then store a new key: dirtyLocked expunges a
	if _, loaded := m.LoadAndDelete("a"); !loaded {
		t.Fatal("LoadAndDelete: missing")
	}
	m.Store("c", zero)
	if _, ok := m.Load("a"); ok {
		t.Fatal("expunged entry visible")
	}
	if _, ok := m.Load("b"); !ok {
		t.Fatal("b lost after the dirty copy")
	}
	if _, ok := m.Load("c"); !ok {
		t.Fatal("c missing")
	}
	// unexpunge by Store and by LoadOrStore
	m.Store("a", zero)
	if _, ok := m.Load("a"); !ok {
		t.Fatal("a missing after re-store over expunged")
	}
	m.Range(func(string, V) bool { return true })
	m.Delete("b")
	m.Store("d", zero) // expunges b
	if _, loaded := m.LoadOrStore("b", zero); loaded {
		t.Fatal("LoadOrStore over expunged reported loaded")
	}
	if _, ok := m.Load("b"); !ok {
		t.Fatal("b missing after LoadOrStore over expunged")
	}
	if !m.CompareAndDelete("b", zero) {
		t.Fatal("CompareAndDelete failed")
	}
	if _, ok := m.Load("b"); ok {
		t.Fatal("b still there")
	}
	got := map[string]bool{}
	for _, k := range m.Keys() {
		got[k] = true
	}
	if len(got) != 3 || !got["a"] || !got["c"] || !got["d"] {
		t.Fatalf("keys=%v", got)
	}
	m.Clear()
	if m.Len() != 0 {
		t.Fatal("not cleared")
	}
}

func TestV7MapZeroSize(t *testing.T) {
	t.Run("struct{}", func(t *testing.T) { v7exerciseZeroSize(t, v7empty{}) })
	t.Run("[0]int", func(t *testing.T) { v7exerciseZeroSize(t, v7emptyArr{}) })
	t.Run("nested", func(t *testing.T) { v7exerciseZeroSize(t, v7nested{}) })
	t.Run("Void", func(t *testing.T) { v7exerciseZeroSize(t, NULL) })
	// non-zero-size for comparison
	t.Run("int", func(t *testing.T) { v7exerciseZeroSize(t, 0) })
	t.Run("string", func(t *testing.T) { v7exerciseZeroSize(t, "") })
}

// the sentinel must differ from the address of any stored zero-size value
func TestV7MapSentinelAddress(t *testing.T) {
	e := newEntry(v7empty{})
	p := e.p.Load()
	if unsafe.Pointer(p) == unsafe.Pointer(e.expunged) {
		t.Fatal("sentinel equals the stored pointer")
	}
	seen := map[unsafe.Pointer]bool{}
	for i := 0; i < 1000; i++ {
		e := newEntry(v7empty{})
		if unsafe.Pointer(e.p.Load()) == unsafe.Pointer(e.expunged) {
			t.Fatal("sentinel equals the stored pointer")
		}
		seen[unsafe.Pointer(e.expunged)] = true
	}
	t.Logf("distinct sentinels: %d, box size %d", len(seen), unsafe.Sizeof(expungedBox[v7empty]{}))
}

func TestV7MapZeroSizeConcurrent(t *testing.T) {
	var m Map[int, struct{}]
	var wg sync.WaitGroup
	for g := 0; g < 8; g++ {
		wg.Add(1)
		go func(g int) {
			defer wg.Done()
			for i := 0; i < 2000; i++ {
				k := (i*7 + g) % 64
				switch i % 5 {
				case 0:
					m.Store(k, struct{}{})
				case 1:
					m.Load(k)
				case 2:
					m.Delete(k)
				case 3:
					m.LoadOrStore(k, struct{}{})
				case 4:
					m.Range(func(int, struct{}) bool { return true })
				}
			}
		}(g)
	}
	wg.Wait()
	// final: deterministic content
	m.Clear()
	for i := 0; i < 64; i++ {
		m.Store(i, struct{}{})
	}
	if m.Len() != 64 {
		t.Fatalf("Len=%d", m.Len())
	}
}

func TestV7MapPtrValueStillWorks(t *testing.T) {
	var m Map[string, *int]
	m.Store("nil", nil)
	if v, ok := m.Load("nil"); !ok || v != nil {
		t.Fatal("nil pointer value lost")
	}
	var mi Map[string, any]
	mi.Store("nil", nil)
	if v, ok := mi.Load("nil"); !ok || v != nil {
		t.Fatal(fmt.Sprint("nil any lost ", v, ok))
	}
}
