package engine

import (
	"bytes"
	"testing"
	"time"

	"github.com/zishang520/engine.io/v2/config"
	"github.com/zishang520/engine.io/v2/types"
	webtrans "github.com/zishang520/engine.io/v2/webtransport"
)

// observation for aa663d0: a revision-3 polling session that upgrades to WebTransport
func TestRev_WTUpgradeFromV3Session(t *testing.T) {
	e := revWT(t, func(o *config.ServerOptions) { o.SetAllowEIO3(true) })
	var sock Socket
	ready := make(chan struct{})
	e.eng.On("connection", func(a ...any) { sock = a[0].(Socket); close(ready) })
	open := httpGet(t, e.ts.URL+"/engine.io/?EIO=3&transport=polling&b64=1")
	t.Logf("open: %s", open)
	sid := sidOf(t, open)
	<-ready
	_, c := e.dial(t)
	c.WriteMessage(webtrans.TextMessage, []byte(`0{"sid":"`+sid+`"}`))
	c.WriteMessage(webtrans.TextMessage, []byte("2probe"))
	_, b := readWT(t, c)
	t.Logf("probe answer %q", b)
	go httpGet(t, e.ts.URL+"/engine.io/?EIO=3&transport=polling&b64=1&sid="+sid)
	time.Sleep(200 * time.Millisecond)
	c.WriteMessage(webtrans.TextMessage, []byte("5"))
	time.Sleep(200 * time.Millisecond)
	t.Logf("session protocol %d, transport %s protocol %d", sock.Protocol(), sock.Transport().Name(), sock.Transport().Protocol())
	sock.Send(types.NewBytesBuffer([]byte{9, 8, 7}), nil, nil)
	mt, b := readWT(t, c)
	t.Logf("client received %d %v", mt, b)
	if !bytes.Equal(b, []byte{9, 8, 7}) {
		t.Logf("(a revision-3 client would expect [4 9 8 7])")
	}
}
