package transports

import "testing"

func TestRev_acceptedCoding(t *testing.T) {
	offered := []string{"gzip", "deflate", "br", "zstd"}
	for _, c := range [][2]string{
		{"gzip", "gzip"}, {"gzip;q=0", ""}, {"gzip ; q = 0", ""}, {"gzip;Q=0", ""}, {"gzip;q=0.000", ""},
		{"gzip;q=0.001", "gzip"}, {"gzip;q=1", "gzip"}, {"gzip;q=", ""}, {"gzip;q", ""}, {"gzip;q=abc", ""},
		{"gzip;q=NaN", ""}, {"gzip;q=-1", ""}, {"gzip;level=9", "gzip"}, {"gzip;level=9;q=0", ""},
		{"pack200-gzip", ""}, {"x-gzip", ""}, {"gzipp", ""}, {"br", "br"}, {"brotli", ""}, {"zstd;q=0, br;q=0, deflate", "deflate"},
		{"*", ""}, {"gzip;q=0, *", ""}, {"", ""}, {",", ""}, {";q=1", ""}, {"GZip , DEFLATE", "gzip"},
		{"deflate,gzip", "gzip"}, {"gzip;q=0,gzip", "gzip"}, {"gzip,gzip;q=0", ""}, {"\tgzip\t", "gzip"},
	} {
		if got := acceptedCoding(c[0], offered); got != c[1] {
			t.Errorf("%q: %q, want %q", c[0], got, c[1])
		}
	}
}
