package engine

import (
	"bytes"
	"compress/gzip"
	"encoding/base64"
	"encoding/json"
	"io"
	"net/http"
	"strings"
	"testing"
	"time"

	"github.com/zishang520/engine.io/v2/config"
	"github.com/zishang520/engine.io/v2/types"
)

func rawGet(t *testing.T, url string, hdr map[string]string) (*http.Response, []byte) {
	req, _ := http.NewRequest("GET", url, nil)
	for k, v := range hdr {
		req.Header.Set(k, v)
	}
	// no transparent decompression: we want to see the coding
	tr := &http.Transport{DisableCompression: true}
	defer tr.CloseIdleConnections()
	resp, err := (&http.Client{Transport: tr}).Do(req)
	if err != nil {
		t.Fatal(err)
	}
	defer resp.Body.Close()
	b, _ := io.ReadAll(resp.Body)
	return resp, b
}

func jsonpBody(t *testing.T, body string, idx string) string {
	head, foot := "___eio["+idx+"](", ");"
	if !strings.HasPrefix(body, head) || !strings.HasSuffix(body, foot) {
		t.Fatalf("not a jsonp response: %q", body)
	}
	var s string
	if err := json.Unmarshal([]byte(body[len(head):len(body)-len(foot)]), &s); err != nil {
		t.Fatalf("jsonp argument is not a JSON string: %v (%q)", err, body)
	}
	return s
}

// 660910c: revision 3, JSONP, no b64 in the query
func TestRev_JSONPv3Binary(t *testing.T) {
	for _, q := range []string{"EIO=3&transport=polling&j=7", "EIO=3&transport=polling&j=7&b64=1", "EIO=4&transport=polling&j=7"} {
		eng, ts := revServer(t, func(o *config.ServerOptions) {
			o.SetAllowEIO3(true)
			o.SetPingInterval(5 * time.Second)
		})
		var sock Socket
		ready := make(chan struct{})
		eng.On("connection", func(a ...any) { sock = a[0].(Socket); close(ready) })
		open := jsonpBody(t, httpGet(t, ts.URL+"/engine.io/?"+q), "7")
		sid := sidOf(t, open)
		<-ready
		bin := []byte{0, 1, 2, 0xff, 0xfe, 0x80, '"', '\n'}
		sock.Send(types.NewStringBufferString("héllo"), nil, nil)
		sock.Send(types.NewBytesBuffer(bin), nil, nil)
		payload := jsonpBody(t, httpGet(t, ts.URL+"/engine.io/?"+q+"&sid="+sid), "7")
		b64 := base64.StdEncoding.EncodeToString(bin)
		var want string
		if strings.HasPrefix(q, "EIO=3") {
			want = "6:4héllo" + "14:b4" + b64
			if len("b4"+b64) != 14 {
				t.Fatalf("test arithmetic: %d", len("b4"+b64))
			}
		} else {
			want = "4héllo\x1eb" + b64
		}
		if payload != want {
			t.Errorf("%s: payload %q, want %q", q, payload, want)
		}
	}
}

// 660910c, other direction: a JSONP client posts base64 binary in d=
func TestRev_JSONPv3BinaryInbound(t *testing.T) {
	eng, ts := revServer(t, func(o *config.ServerOptions) {
		o.SetAllowEIO3(true)
		o.SetPingInterval(5 * time.Second)
	})
	o := observe(eng)
	q := "EIO=3&transport=polling&j=0"
	sid := sidOf(t, jsonpBody(t, httpGet(t, ts.URL+"/engine.io/?"+q), "0"))
	b64 := base64.StdEncoding.EncodeToString([]byte{1, 2, 3})
	body := "d=" + strings.ReplaceAll("6:b4"+b64, "+", "%2B")
	resp, err := http.Post(ts.URL+"/engine.io/?"+q+"&sid="+sid, "application/x-www-form-urlencoded", strings.NewReader(body))
	if err != nil {
		t.Fatal(err)
	}
	resp.Body.Close()
	time.Sleep(100 * time.Millisecond)
	if o.messages.Load() != 1 || o.maxLen.Load() != 3 {
		t.Errorf("messages %d, len %d", o.messages.Load(), o.maxLen.Load())
	}
}

// e5a0b03: gzip;q=0 and pack200-gzip must not select gzip
func TestRev_AcceptEncodingE2E(t *testing.T) {
	cases := []struct{ header, coding string }{
		{"gzip", "gzip"},
		{"gzip;q=0", ""},
		{"gzip; q=0", ""},
		{"gzip;q=0.0", ""},
		{"pack200-gzip", ""},
		{"x-gzip", ""},
		{"gzip;q=0, deflate", "deflate"},
		{"GZIP", "gzip"},
		{"br;q=1.0, gzip;q=0.8, *;q=0.1", "gzip"},
		{"deflate, br", "deflate"},
		{"identity", ""},
		{"", ""},
		{"zstd", "zstd"},
	}
	for _, c := range cases {
		eng, ts := revServer(t, func(o *config.ServerOptions) {
			o.SetPingInterval(5 * time.Second)
			o.SetHttpCompression(&types.HttpCompression{Threshold: 10})
		})
		var sock Socket
		ready := make(chan struct{})
		eng.On("connection", func(a ...any) { sock = a[0].(Socket); close(ready) })
		sid := sidOf(t, httpGet(t, ts.URL+"/engine.io/?EIO=4&transport=polling"))
		<-ready
		sock.Send(types.NewStringBufferString(strings.Repeat("z", 500)), nil, nil)
		hdr := map[string]string{}
		if c.header != "" {
			hdr["Accept-Encoding"] = c.header
		}
		resp, body := rawGet(t, ts.URL+"/engine.io/?EIO=4&transport=polling&sid="+sid, hdr)
		if got := resp.Header.Get("Content-Encoding"); got != c.coding {
			t.Errorf("Accept-Encoding %q: Content-Encoding %q, want %q", c.header, got, c.coding)
		}
		if c.coding == "gzip" {
			zr, err := gzip.NewReader(bytes.NewReader(body))
			if err != nil {
				t.Errorf("%q: %v", c.header, err)
				continue
			}
			b, _ := io.ReadAll(zr)
			if string(b) != "4"+strings.Repeat("z", 500) {
				t.Errorf("%q: body %q", c.header, b)
			}
		}
		if c.coding == "" && string(body) != "4"+strings.Repeat("z", 500) {
			t.Errorf("%q: body %q", c.header, body)
		}
	}
}
