package engine

import (
	"bytes"
	"context"
	"crypto/ecdsa"
	"crypto/elliptic"
	"crypto/rand"
	"crypto/tls"
	"crypto/x509"
	"crypto/x509/pkix"
	"fmt"
	"io"
	"math/big"
	"net"
	"net/http"
	"net/http/httptest"
	"testing"
	"time"

	"github.com/quic-go/quic-go/http3"
	"github.com/zishang520/engine.io/v2/config"
	"github.com/zishang520/engine.io/v2/transports"
	"github.com/zishang520/engine.io/v2/types"
	webtrans "github.com/zishang520/engine.io/v2/webtransport"
	"github.com/zishang520/webtransport-go"
)

func revTLS(t *testing.T) *tls.Config {
	key, err := ecdsa.GenerateKey(elliptic.P256(), rand.Reader)
	if err != nil {
		t.Fatal(err)
	}
	tmpl := &x509.Certificate{
		SerialNumber: big.NewInt(1),
		Subject:      pkix.Name{CommonName: "localhost"},
		DNSNames:     []string{"localhost"},
		IPAddresses:  []net.IP{net.ParseIP("127.0.0.1")},
		NotBefore:    time.Now().Add(-time.Hour),
		NotAfter:     time.Now().Add(time.Hour),
		KeyUsage:     x509.KeyUsageDigitalSignature,
		ExtKeyUsage:  []x509.ExtKeyUsage{x509.ExtKeyUsageServerAuth},
	}
	der, err := x509.CreateCertificate(rand.Reader, tmpl, tmpl, &key.PublicKey, key)
	if err != nil {
		t.Fatal(err)
	}
	return &tls.Config{
		Certificates: []tls.Certificate{{Certificate: [][]byte{der}, PrivateKey: key}},
		NextProtos:   []string{http3.NextProtoH3},
	}
}

type wtEnv struct {
	eng  Server
	ts   *httptest.Server
	port int
	d    *webtransport.Dialer
}

func revWT(t *testing.T, mutate func(*config.ServerOptions)) *wtEnv {
	opts := config.DefaultServerOptions()
	opts.SetPingInterval(5 * time.Second)
	opts.SetPingTimeout(2 * time.Second)
	opts.SetTransports(types.NewSet(transports.POLLING, transports.WEBSOCKET, transports.WEBTRANSPORT))
	if mutate != nil {
		mutate(opts)
	}
	eng := NewServer(opts)
	ts := httptest.NewServer(http.HandlerFunc(eng.ServeHTTP))

	wts := &webtransport.Server{
		H3:          http3.Server{TLSConfig: revTLS(t)},
		CheckOrigin: func(*http.Request) bool { return true },
	}
	wts.H3.Handler = http.HandlerFunc(func(w http.ResponseWriter, r *http.Request) {
		if webtrans.IsWebTransportUpgrade(r) {
			eng.OnWebTransportSession(types.NewHttpContext(w, r), wts)
			return
		}
		eng.ServeHTTP(w, r)
	})
	udp, err := net.ListenUDP("udp", &net.UDPAddr{IP: net.ParseIP("127.0.0.1")})
	if err != nil {
		t.Fatal(err)
	}
	go wts.Serve(udp)
	d := &webtransport.Dialer{TLSClientConfig: &tls.Config{InsecureSkipVerify: true}}
	t.Cleanup(func() { d.Close(); eng.Close(); wts.Close(); udp.Close(); ts.Close() })
	return &wtEnv{eng: eng, ts: ts, port: udp.LocalAddr().(*net.UDPAddr).Port, d: d}
}

func (e *wtEnv) dial(t *testing.T) (*webtransport.Session, *webtrans.Conn) {
	ctx, cancel := context.WithTimeout(context.Background(), 5*time.Second)
	defer cancel()
	_, sess, err := e.d.Dial(ctx, fmt.Sprintf("https://127.0.0.1:%d/engine.io/", e.port), nil)
	if err != nil {
		t.Fatalf("wt dial: %v", err)
	}
	str, err := sess.OpenStreamSync(ctx)
	if err != nil {
		t.Fatalf("wt stream: %v", err)
	}
	return sess, webtrans.NewConn(sess, str, false, 0, 0, nil, nil, nil)
}

func readWT(t *testing.T, c *webtrans.Conn) (int, []byte) {
	t.Helper()
	c.SetReadDeadline(time.Now().Add(3 * time.Second))
	mt, b, err := c.ReadMessage()
	if err != nil {
		t.Fatalf("wt read: %v", err)
	}
	return mt, b
}

// scenario of aa663d0: polling session (revision 4) upgrades to WebTransport,
// then binary messages in both directions
func TestRev_WTUpgradeSpeaksV4(t *testing.T) {
	e := revWT(t, nil)
	type rx struct {
		data []byte
		bin  bool
	}
	got := make(chan rx, 8)
	var sock Socket
	ready := make(chan struct{})
	e.eng.On("connection", func(a ...any) {
		sock = a[0].(Socket)
		sock.On("message", func(m ...any) {
			_, bin := m[0].(*types.BytesBuffer)
			b, _ := io.ReadAll(m[0].(io.Reader))
			got <- rx{b, bin}
		})
		close(ready)
	})
	open := httpGet(t, e.ts.URL+"/engine.io/?EIO=4&transport=polling")
	if !bytes.Contains([]byte(open), []byte(`"webtransport"`)) {
		t.Fatalf("webtransport not offered: %s", open)
	}
	sid := sidOf(t, open)
	<-ready

	_, c := e.dial(t)
	if err := c.WriteMessage(webtrans.TextMessage, []byte(`0{"sid":"`+sid+`"}`)); err != nil {
		t.Fatal(err)
	}
	c.WriteMessage(webtrans.TextMessage, []byte("2probe"))
	if mt, b := readWT(t, c); mt != webtrans.TextMessage || string(b) != "3probe" {
		t.Fatalf("probe answer: %d %q", mt, b)
	}
	poll := make(chan string, 1)
	go func() { poll <- httpGet(t, e.ts.URL+"/engine.io/?EIO=4&transport=polling&sid="+sid) }()
	select {
	case p := <-poll:
		if p != "6" {
			t.Fatalf("poll answered %q", p)
		}
	case <-time.After(2 * time.Second):
		t.Fatal("pending poll not released with a noop")
	}
	c.WriteMessage(webtrans.TextMessage, []byte("5"))
	time.Sleep(200 * time.Millisecond)
	if !sock.Upgraded() || sock.Transport().Name() != "webtransport" {
		t.Fatalf("not upgraded: %v %s", sock.Upgraded(), sock.Transport().Name())
	}
	if p := sock.Transport().Protocol(); p != 4 {
		t.Errorf("upgraded transport speaks revision %d", p)
	}

	// client -> server, binary: revision 4 = the bare bytes
	c.WriteMessage(webtrans.BinaryMessage, []byte{1, 2, 3, 4})
	select {
	case m := <-got:
		if !m.bin || !bytes.Equal(m.data, []byte{1, 2, 3, 4}) {
			t.Errorf("server received %v (binary %v)", m.data, m.bin)
		}
	case <-time.After(time.Second):
		t.Errorf("binary message not delivered")
	}
	// client -> server, text
	c.WriteMessage(webtrans.TextMessage, []byte("4hello"))
	select {
	case m := <-got:
		if m.bin || string(m.data) != "hello" {
			t.Errorf("server received %q (binary %v)", m.data, m.bin)
		}
	case <-time.After(time.Second):
		t.Errorf("text message not delivered")
	}
	// server -> client, binary
	sock.Send(types.NewBytesBuffer([]byte{9, 8, 7}), nil, nil)
	if mt, b := readWT(t, c); mt != webtrans.BinaryMessage || !bytes.Equal(b, []byte{9, 8, 7}) {
		t.Errorf("client received %d %v", mt, b)
	}
	sock.Send(types.NewStringBufferString("x"), nil, nil)
	if mt, b := readWT(t, c); mt != webtrans.TextMessage || string(b) != "4x" {
		t.Errorf("client received %d %q", mt, b)
	}
}

// sibling: the WebTransport handshake (no prior session)
func TestRev_WTHandshakeSpeaksV4(t *testing.T) {
	e := revWT(t, nil)
	got := make(chan []byte, 8)
	var sock Socket
	ready := make(chan struct{})
	e.eng.On("connection", func(a ...any) {
		sock = a[0].(Socket)
		sock.On("message", func(m ...any) {
			b, _ := io.ReadAll(m[0].(io.Reader))
			got <- b
		})
		close(ready)
	})
	_, c := e.dial(t)
	c.WriteMessage(webtrans.TextMessage, []byte("0"))
	mt, b := readWT(t, c)
	if mt != webtrans.TextMessage || b[0] != '0' {
		t.Fatalf("open: %q", b)
	}
	<-ready
	c.WriteMessage(webtrans.BinaryMessage, []byte{1, 2, 3, 4})
	select {
	case m := <-got:
		if !bytes.Equal(m, []byte{1, 2, 3, 4}) {
			t.Errorf("server received %v", m)
		}
	case <-time.After(time.Second):
		t.Errorf("binary message not delivered")
	}
	sock.Send(types.NewBytesBuffer([]byte{9, 8, 7}), nil, nil)
	if mt, b := readWT(t, c); mt != webtrans.BinaryMessage || !bytes.Equal(b, []byte{9, 8, 7}) {
		t.Errorf("client received %d %v", mt, b)
	}
}

// 11aa8ff in situ: the client writes one large frame and finishes its stream
// right away (FIN rides on the last STREAM frame)
func TestRev_WTFinWithLastFrame(t *testing.T) {
	for _, size := range []int{10, 6000, 200000} {
		e := revWT(t, nil)
		got := make(chan int, 8)
		closed := make(chan string, 1)
		e.eng.On("connection", func(a ...any) {
			sock := a[0].(Socket)
			sock.On("message", func(m ...any) {
				b, _ := io.ReadAll(m[0].(io.Reader))
				got <- len(b)
			})
			sock.On("close", func(a ...any) {
				closed <- fmt.Sprint(a[0])
			})
		})
		sess, c := e.dial(t)
		c.WriteMessage(webtrans.TextMessage, []byte("0"))
		readWT(t, c)
		msg := append([]byte("4"), bytes.Repeat([]byte("m"), size)...)
		// frame written by hand, in one Write, then FIN
		var f []byte
		switch {
		case len(msg) < 126:
			f = append(f, byte(len(msg)))
		case len(msg) < 65536:
			f = append(f, 126, byte(len(msg)>>8), byte(len(msg)))
		default:
			f = append(f, 127, 0, 0, 0, 0, byte(len(msg)>>24), byte(len(msg)>>16), byte(len(msg)>>8), byte(len(msg)))
		}
		f = append(f, msg...)
		if _, err := c.Stream().Write(f); err != nil {
			t.Fatal(err)
		}
		c.Stream().Close()
		select {
		case n := <-got:
			if n != size {
				t.Errorf("size %d: delivered %d", size, n)
			}
		case <-time.After(2 * time.Second):
			t.Errorf("size %d: message not delivered", size)
		}
		select {
		case r := <-closed:
			t.Logf("size %d: session closed: %s", size, r)
			if r != "transport close" {
				t.Errorf("size %d: close reason %q", size, r)
			}
		case <-time.After(2 * time.Second):
			t.Errorf("size %d: session not closed after the stream ended", size)
		}
		// does the server release the WebTransport session?
		select {
		case <-sess.Context().Done():
			t.Logf("size %d: WebTransport session closed by the server", size)
		case <-time.After(1500 * time.Millisecond):
			t.Logf("size %d: (note, see TestRev_Adjacent_WTSessionNotReleased) WebTransport session still open 1.5 s after the engine session closed", size)
		}
	}
}

// ADJACENT, not caused by the six commits (same result with 11aa8ff reverted):
// when the peer ends its stream, webTransport.message() emits "close" on the
// session object, Transport.OnClose sets readyState "closed", and the socket's
// clearTransport -> Transport.Close() returns early on "closed": DoClose (the
// only caller of session.CloseWithError) never runs. The QUIC connection and
// the server's half of the stream stay open until the client goes away.
func TestRev_Adjacent_WTSessionNotReleased(t *testing.T) {
	e := revWT(t, nil)
	closed := make(chan string, 1)
	e.eng.On("connection", func(a ...any) {
		a[0].(Socket).On("close", func(a ...any) { closed <- fmt.Sprint(a[0]) })
	})
	sess, c := e.dial(t)
	c.WriteMessage(webtrans.TextMessage, []byte("0"))
	readWT(t, c)
	c.Stream().Close()
	select {
	case r := <-closed:
		t.Logf("engine session closed: %s", r)
	case <-time.After(2 * time.Second):
		t.Fatal("engine session not closed")
	}
	select {
	case <-sess.Context().Done():
	case <-time.After(1500 * time.Millisecond):
		t.Errorf("WebTransport session still open 1.5 s after the engine session closed")
	}
}
