package engine

import (
	"bytes"
	"runtime"
	"testing"
	"time"

	ws "github.com/gorilla/websocket"
	"github.com/zishang520/engine.io/v2/config"
	"github.com/zishang520/engine.io/v2/types"
)

// Finding 1 (32ab2cd), functional side, to be run WITH sleep-1.diff applied:
// the reader goroutine is started by websocket.Construct (`go w.message()`),
// the limit is stored afterwards by the caller of CreateTransport. A message
// read in between is read with limit 0 = unbounded.
//
// Without the sleep patch the test passes almost always (the window is a few
// statements wide); with it, it fails: the bomb is inflated completely and
// the connection is not closed with 1009.
func TestRev_WsLimitWindow(t *testing.T) {
	for _, path := range []string{"handshake", "upgrade"} {
		_, ts := revServer(t, func(o *config.ServerOptions) {
			o.SetMaxHttpBufferSize(100000)
			o.SetPerMessageDeflate(&types.PerMessageDeflate{Threshold: 0})
			o.SetPingInterval(5 * time.Second)
		})
		q := "EIO=4&transport=websocket"
		if path == "upgrade" {
			q += "&sid=" + sidOf(t, httpGet(t, ts.URL+"/engine.io/?EIO=4&transport=polling"))
		}
		var before, after runtime.MemStats
		runtime.ReadMemStats(&before)
		// one frame on the wire, so that the client is not still writing when the
		// server refuses the message
		d := ws.Dialer{EnableCompression: true, WriteBufferSize: 1 << 20}
		c, _, derr := d.Dial(wsURL(ts, q), nil)
		if derr != nil {
			t.Fatal(derr)
		}
		defer c.Close()
		// 10 MB that deflate to a few KB: under the wire limit, 100x the message limit
		bomb := append([]byte("4"), bytes.Repeat([]byte("a"), 10<<20)...)
		if err := c.WriteMessage(ws.TextMessage, bomb); err != nil {
			t.Fatal(err)
		}
		bomb = nil
		c.SetReadDeadline(time.Now().Add(1500 * time.Millisecond))
		var err error
		for err == nil {
			_, _, err = c.ReadMessage()
		}
		runtime.ReadMemStats(&after)
		// the client's own copy of the bomb is ~10 MB (+ the append): the server's
		// inflated copy shows as a further >= 10 MB (the buffer grows by doubling)
		t.Logf("%s: client read ended with %v; allocated %d MB", path, err, (after.TotalAlloc-before.TotalAlloc)>>20)
		if !ws.IsCloseError(err, ws.CloseMessageTooBig) {
			t.Errorf("%s: the bomb was not refused with 1009: %v", path, err)
		}
	}
}

// Finding 1 (32ab2cd), on the unmodified tree: run with -race. The reader
// goroutine started by websocket.Construct reads transport.maxHttpBufferSize
// (transport.go:135, from websocket.go:124) without synchronisation with the
// HTTP handler goroutine that stores it afterwards (transport.go:139, from
// server.go:215). An ordinary upgrade (probe) is enough.
func TestRev_F1_LimitStoredAfterReaderStarted(t *testing.T) {
	_, ts := revServer(t, func(o *config.ServerOptions) { o.SetPingInterval(5 * time.Second) })
	sid := sidOf(t, httpGet(t, ts.URL+"/engine.io/?EIO=4&transport=polling"))
	c := dial(t, ts, "EIO=4&transport=websocket&sid="+sid, false)
	defer c.Close()
	c.WriteMessage(ws.TextMessage, []byte("2probe"))
	if _, m, _ := c.ReadMessage(); string(m) != "3probe" {
		t.Fatalf("got %q", m)
	}
}
