package engine

import (
	"math"
	"testing"
	"time"

	ws "github.com/gorilla/websocket"
	"github.com/zishang520/engine.io/v2/config"
)

// Finding 2 (32ab2cd): maxHttpBufferSize = math.MaxInt64 ("no limit" spelled as
// the largest value). readMessage computes limit+1, which overflows to a
// negative number; io.LimitReader with N <= 0 returns EOF at once, so every
// websocket message is read as empty.
func TestRev_WsMaxInt64Limit(t *testing.T) {
	eng, ts := revServer(t, func(o *config.ServerOptions) {
		o.SetMaxHttpBufferSize(math.MaxInt64)
		o.SetPingInterval(5 * time.Second)
	})
	o := observe(eng)
	c := dial(t, ts, "EIO=4&transport=websocket", false)
	defer c.Close()
	c.ReadMessage()
	c.WriteMessage(ws.TextMessage, []byte("4hello"))
	time.Sleep(300 * time.Millisecond)
	if o.messages.Load() != 1 {
		t.Errorf("message not delivered (messages=%d)", o.messages.Load())
	}
	select {
	case r := <-o.closed:
		t.Errorf("session closed: %s", r)
	default:
	}
}
