package webtransport

import (
	"bytes"
	"encoding/binary"
	"io"
	"testing"
	"time"

	"github.com/quic-go/quic-go"
	wt "github.com/zishang520/webtransport-go"
)

type step struct {
	data []byte
	err  error
}

// a stream that returns scripted (data, err) pairs: data and err of one step
// are returned by the same Read call when the caller's buffer is large enough
type scriptStream struct {
	steps []step
	reads int
}

func (s *scriptStream) Read(p []byte) (int, error) {
	s.reads++
	if len(s.steps) == 0 {
		return 0, io.EOF
	}
	st := &s.steps[0]
	n := copy(p, st.data)
	st.data = st.data[n:]
	if len(st.data) > 0 {
		return n, nil
	}
	err := st.err
	s.steps = s.steps[1:]
	return n, err
}
func (s *scriptStream) Write(p []byte) (int, error)         { return len(p), nil }
func (s *scriptStream) Close() error                        { return nil }
func (s *scriptStream) StreamID() quic.StreamID             { return 0 }
func (s *scriptStream) CancelWrite(wt.StreamErrorCode)      {}
func (s *scriptStream) CancelRead(wt.StreamErrorCode)       {}
func (s *scriptStream) SetWriteDeadline(time.Time) error    { return nil }
func (s *scriptStream) SetReadDeadline(time.Time) error     { return nil }
func (s *scriptStream) SetDeadline(time.Time) error         { return nil }

func frame(binaryType bool, payload []byte) []byte {
	var b []byte
	t := byte(0)
	if binaryType {
		t = 0x80
	}
	switch {
	case len(payload) < 126:
		b = append(b, t|byte(len(payload)))
	case len(payload) < 65536:
		b = append(b, t|126, 0, 0)
		binary.BigEndian.PutUint16(b[1:], uint16(len(payload)))
	default:
		b = append(b, t|127, 0, 0, 0, 0, 0, 0, 0, 0)
		binary.BigEndian.PutUint64(b[1:], uint64(len(payload)))
	}
	return append(b, payload...)
}

func conn(readBuf int, steps ...step) (*Conn, *scriptStream) {
	s := &scriptStream{steps: steps}
	return NewConn(nil, s, true, readBuf, 0, nil, nil, nil), s
}

func isAbnormal(err error) bool {
	return IsCloseError(err, CloseAbnormalClosure)
}

// 11aa8ff: the end of the stream arrives in the same Read as the last bytes of
// a complete frame (what a QUIC stream does when FIN rides on the last frame)
func TestRev_EOFWithLastBytes(t *testing.T) {
	for _, size := range []int{1, 100, 125, 126, 5000, 70000} {
		for _, rb := range []int{16, 4096} {
			for _, chunk := range []int{1, 7, 512, 100000} {
				payload := bytes.Repeat([]byte{'x'}, size)
				f := frame(false, payload)
				// header alone, then the payload with EOF
				hl := len(f) - size
				c, _ := conn(rb, step{f[:hl], nil}, step{f[hl:], io.EOF})
				mt, r, err := c.NextReader()
				if err != nil || mt != TextMessage {
					t.Fatalf("size %d: NextReader %d %v", size, mt, err)
				}
				var got []byte
				buf := make([]byte, chunk)
				var rerr error
				for {
					n, e := r.Read(buf)
					got = append(got, buf[:n]...)
					if e != nil {
						rerr = e
						break
					}
				}
				if rerr != io.EOF || !bytes.Equal(got, payload) {
					t.Errorf("size %d rb %d chunk %d: read %d bytes, err %v", size, rb, chunk, len(got), rerr)
				}
				// the same answer when asked again
				if n, e := r.Read(buf); n != 0 || e != io.EOF {
					t.Errorf("size %d rb %d chunk %d: second read %d %v", size, rb, chunk, n, e)
				}
				_, _, err = c.NextReader()
				if !isAbnormal(err) {
					t.Errorf("size %d rb %d chunk %d: next NextReader: %v", size, rb, chunk, err)
				}
				_, _, err2 := c.NextReader()
				if err2 != err {
					t.Errorf("size %d: NextReader error not permanent: %v then %v", size, err, err2)
				}
			}
		}
	}
}

// whole frame and EOF in one step (header included)
func TestRev_EOFWithWholeFrame(t *testing.T) {
	for _, size := range []int{0, 1, 100, 5000, 70000} {
		for _, rb := range []int{16, 4096} {
			payload := bytes.Repeat([]byte{'x'}, size)
			c, _ := conn(rb, step{frame(true, payload), io.EOF})
			mt, p, err := c.ReadMessage()
			if err != nil || mt != BinaryMessage || !bytes.Equal(p, payload) {
				t.Errorf("size %d rb %d: %d %d bytes %v", size, rb, mt, len(p), err)
			}
			if _, _, err = c.NextReader(); !isAbnormal(err) {
				t.Errorf("size %d rb %d: next NextReader: %v", size, rb, err)
			}
		}
	}
}

// two frames, EOF with the second
func TestRev_TwoFramesThenEOF(t *testing.T) {
	for _, size := range []int{10, 5000} {
		for _, rb := range []int{16, 4096} {
			p1 := bytes.Repeat([]byte{'a'}, size)
			p2 := bytes.Repeat([]byte{'b'}, size+1)
			c, _ := conn(rb, step{append(frame(false, p1), frame(true, p2)...), io.EOF})
			_, g1, e1 := c.ReadMessage()
			_, g2, e2 := c.ReadMessage()
			if e1 != nil || e2 != nil || !bytes.Equal(g1, p1) || !bytes.Equal(g2, p2) {
				t.Errorf("size %d rb %d: %v %v %d %d", size, rb, e1, e2, len(g1), len(g2))
			}
			if _, _, err := c.NextReader(); !isAbnormal(err) {
				t.Errorf("size %d rb %d: end: %v", size, rb, err)
			}
		}
	}
}

// truncated inside the payload: still truncated
func TestRev_TruncatedFrame(t *testing.T) {
	for _, size := range []int{10, 5000, 70000} {
		for _, rb := range []int{16, 4096} {
			for _, with := range []bool{true, false} {
				f := frame(false, bytes.Repeat([]byte{'x'}, size))
				f = f[:len(f)-1]
				steps := []step{{f, io.EOF}}
				if !with {
					steps = []step{{f, nil}, {nil, io.EOF}}
				}
				c, _ := conn(rb, steps...)
				_, p, err := c.ReadMessage()
				if !isAbnormal(err) {
					t.Errorf("size %d rb %d with %v: %d bytes err %v", size, rb, with, len(p), err)
				}
				if _, _, err2 := c.NextReader(); !isAbnormal(err2) {
					t.Errorf("size %d rb %d with %v: NextReader after truncation: %v", size, rb, with, err2)
				}
			}
		}
	}
}

// 0888524: the stream ends inside a frame that NextReader is skipping
func TestRev_EOFInsideSkippedFrame(t *testing.T) {
	for _, size := range []int{100, 5000, 70000} {
		for _, rb := range []int{16, 4096} {
			for _, with := range []bool{true, false} {
				f := frame(false, bytes.Repeat([]byte{'x'}, size))
				f = f[:len(f)-1]
				steps := []step{{f, io.EOF}}
				if !with {
					steps = []step{{f, nil}, {nil, io.EOF}}
				}
				c, _ := conn(rb, steps...)
				_, r, err := c.NextReader()
				if err != nil {
					t.Fatal(err)
				}
				r.Read(make([]byte, 3))
				_, _, err = c.NextReader()
				if !isAbnormal(err) {
					t.Errorf("size %d rb %d with %v: skip: %v", size, rb, with, err)
				}
			}
		}
	}
}

// the skipped frame is complete and the end of the stream comes with its last
// bytes: the frame is skipped, the end is reported by the next header read
func TestRev_EOFWithLastBytesOfSkippedFrame(t *testing.T) {
	for _, size := range []int{100, 5000, 70000} {
		for _, rb := range []int{16, 4096} {
			f := frame(false, bytes.Repeat([]byte{'x'}, size))
			c, _ := conn(rb, step{f, io.EOF})
			_, r, _ := c.NextReader()
			r.Read(make([]byte, 3))
			_, _, err := c.NextReader()
			if !isAbnormal(err) {
				t.Errorf("size %d rb %d: %v", size, rb, err)
			}
		}
	}
	// and a second frame follows the skipped one
	for _, size := range []int{100, 5000, 70000} {
		for _, rb := range []int{16, 4096} {
			f := frame(false, bytes.Repeat([]byte{'x'}, size))
			g := frame(true, []byte("second"))
			c, _ := conn(rb, step{append(f, g...), io.EOF})
			_, r, _ := c.NextReader()
			r.Read(make([]byte, 3))
			mt, p, err := c.ReadMessage()
			if err != nil || mt != BinaryMessage || string(p) != "second" {
				t.Errorf("size %d rb %d: %d %q %v", size, rb, mt, p, err)
			}
		}
	}
}

// a stream error that is not EOF, arriving with the last bytes of a frame
func TestRev_OtherErrorWithLastBytes(t *testing.T) {
	boom := io.ErrClosedPipe
	f := frame(false, bytes.Repeat([]byte{'x'}, 5000))
	c, _ := conn(16, step{f, boom})
	_, p, err := c.ReadMessage()
	t.Logf("read %d bytes, err %v", len(p), err)
	_, _, err = c.NextReader()
	if err != boom {
		t.Errorf("NextReader: %v", err)
	}
}
