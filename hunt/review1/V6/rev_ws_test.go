package engine

import (
	"bytes"
	"io"
	"net/http"
	"net/http/httptest"
	"strings"
	"sync/atomic"
	"testing"
	"time"

	ws "github.com/gorilla/websocket"
	"github.com/zishang520/engine.io/v2/config"
	"github.com/zishang520/engine.io/v2/types"
)

func revServer(t *testing.T, mutate func(*config.ServerOptions)) (Server, *httptest.Server) {
	opts := config.DefaultServerOptions()
	opts.SetPingInterval(300 * time.Millisecond)
	opts.SetPingTimeout(200 * time.Millisecond)
	if mutate != nil {
		mutate(opts)
	}
	eng := NewServer(opts)
	ts := httptest.NewServer(http.HandlerFunc(eng.ServeHTTP))
	t.Cleanup(func() { eng.Close(); ts.Close() })
	return eng, ts
}

func wsURL(ts *httptest.Server, q string) string {
	return "ws" + strings.TrimPrefix(ts.URL, "http") + "/engine.io/?" + q
}

type revObs struct {
	messages atomic.Int64
	maxLen   atomic.Int64
	closed   chan string
}

func observe(eng Server) *revObs {
	o := &revObs{closed: make(chan string, 8)}
	eng.On("connection", func(args ...any) {
		s := args[0].(Socket)
		s.On("message", func(a ...any) {
			o.messages.Add(1)
			b, _ := io.ReadAll(a[0].(io.Reader))
			if int64(len(b)) > o.maxLen.Load() {
				o.maxLen.Store(int64(len(b)))
			}
		})
		s.On("close", func(a ...any) {
			o.closed <- a[0].(string)
		})
	})
	return o
}

func dial(t *testing.T, ts *httptest.Server, q string, compress bool) *ws.Conn {
	d := ws.Dialer{EnableCompression: compress}
	c, resp, err := d.Dial(wsURL(ts, q), nil)
	if err != nil {
		t.Fatalf("dial: %v", err)
	}
	if compress && !strings.Contains(resp.Header.Get("Sec-Websocket-Extensions"), "permessage-deflate") {
		t.Fatalf("compression not negotiated: %v", resp.Header)
	}
	return c
}

// scenario of 32ab2cd: websocket handshake, deflate negotiated, a message that
// is small on the wire and large once inflated
func TestRev_WsInflatedBounded_Handshake(t *testing.T) {
	for _, kind := range []int{ws.TextMessage, ws.BinaryMessage} {
		eng, ts := revServer(t, func(o *config.ServerOptions) {
			o.SetMaxHttpBufferSize(1000)
			o.SetPerMessageDeflate(&types.PerMessageDeflate{Threshold: 0})
		})
		o := observe(eng)
		c := dial(t, ts, "EIO=4&transport=websocket", true)
		defer c.Close()
		c.ReadMessage() // open
		c.EnableWriteCompression(true)
		payload := append([]byte("4"), bytes.Repeat([]byte("a"), 200000)...)
		if err := c.WriteMessage(kind, payload); err != nil {
			t.Fatal(err)
		}
		select {
		case r := <-o.closed:
			t.Logf("kind %d closed: %s", kind, r)
		case <-time.After(2 * time.Second):
			t.Errorf("kind %d: session not closed", kind)
		}
		if o.messages.Load() != 0 {
			t.Errorf("kind %d: message delivered (%d bytes)", kind, o.maxLen.Load())
		}
		// the peer sees 1009
		c.SetReadDeadline(time.Now().Add(time.Second))
		for {
			_, _, err := c.ReadMessage()
			if err != nil {
				t.Logf("client read end: %v", err)
				if !ws.IsCloseError(err, ws.CloseMessageTooBig) {
					t.Logf("kind %d: (note) client did not see 1009", kind)
				}
				break
			}
		}
	}
}

// boundary: exactly the limit is accepted, limit+1 is refused
func TestRev_WsInflatedBoundary(t *testing.T) {
	for _, extra := range []int{0, 1} {
		eng, ts := revServer(t, func(o *config.ServerOptions) {
			o.SetMaxHttpBufferSize(1000)
			o.SetPerMessageDeflate(&types.PerMessageDeflate{Threshold: 0})
		})
		o := observe(eng)
		c := dial(t, ts, "EIO=4&transport=websocket", true)
		defer c.Close()
		c.ReadMessage()
		payload := append([]byte("4"), bytes.Repeat([]byte("a"), 999+extra)...)
		c.WriteMessage(ws.TextMessage, payload)
		time.Sleep(300 * time.Millisecond)
		if extra == 0 && o.messages.Load() != 1 {
			t.Errorf("message of exactly the limit not delivered")
		}
		if extra == 1 && o.messages.Load() != 0 {
			t.Errorf("message of limit+1 delivered")
		}
	}
}

func httpGet(t *testing.T, url string) string {
	resp, err := http.Get(url)
	if err != nil {
		t.Fatal(err)
	}
	defer resp.Body.Close()
	b, _ := io.ReadAll(resp.Body)
	return string(b)
}

func sidOf(t *testing.T, open string) string {
	i := strings.Index(open, `"sid":"`)
	if i < 0 {
		t.Fatalf("no sid in %q", open)
	}
	rest := open[i+7:]
	return rest[:strings.Index(rest, `"`)]
}

// upgrade path: polling session, websocket candidate, probe, upgrade, then bomb
func TestRev_WsInflatedBounded_Upgrade(t *testing.T) {
	for _, when := range []string{"probe", "after"} {
		eng, ts := revServer(t, func(o *config.ServerOptions) {
			o.SetMaxHttpBufferSize(1000)
			o.SetPerMessageDeflate(&types.PerMessageDeflate{Threshold: 0})
			o.SetPingInterval(5 * time.Second)
		})
		o := observe(eng)
		open := httpGet(t, ts.URL+"/engine.io/?EIO=4&transport=polling")
		sid := sidOf(t, open)
		c := dial(t, ts, "EIO=4&transport=websocket&sid="+sid, true)
		defer c.Close()
		bomb := append([]byte("4"), bytes.Repeat([]byte("a"), 200000)...)
		if when == "probe" {
			// before the upgrade completes: the candidate must be dropped, the
			// session stays
			c.WriteMessage(ws.TextMessage, bomb)
			c.SetReadDeadline(time.Now().Add(time.Second))
			_, _, err := c.ReadMessage()
			if err == nil {
				t.Errorf("candidate still open after bomb")
			}
			time.Sleep(100 * time.Millisecond)
			if o.messages.Load() != 0 {
				t.Errorf("bomb delivered")
			}
			if s, ok := eng.Clients().Load(sid); !ok || s.Upgrading() {
				t.Errorf("session gone or still upgrading: %v", ok)
			}
			continue
		}
		c.WriteMessage(ws.TextMessage, []byte("2probe"))
		_, m, _ := c.ReadMessage()
		if string(m) != "3probe" {
			t.Fatalf("got %q", m)
		}
		go httpGet(t, ts.URL+"/engine.io/?EIO=4&transport=polling&sid="+sid)
		time.Sleep(150 * time.Millisecond)
		c.WriteMessage(ws.TextMessage, []byte("5"))
		time.Sleep(100 * time.Millisecond)
		c.WriteMessage(ws.TextMessage, []byte("4hello"))
		time.Sleep(100 * time.Millisecond)
		if o.messages.Load() != 1 {
			t.Fatalf("upgrade did not work: %d", o.messages.Load())
		}
		c.WriteMessage(ws.TextMessage, bomb)
		select {
		case r := <-o.closed:
			t.Logf("closed: %s", r)
		case <-time.After(2 * time.Second):
			t.Errorf("session not closed")
		}
		if o.messages.Load() != 1 {
			t.Errorf("bomb delivered")
		}
	}
}
