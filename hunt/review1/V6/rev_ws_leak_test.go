package engine

import (
	"bytes"
	"runtime"
	"strings"
	"testing"
	"time"

	ws "github.com/gorilla/websocket"
	"github.com/zishang520/engine.io/v2/config"
	"github.com/zishang520/engine.io/v2/types"
)

func countStacks(sub string) int {
	buf := make([]byte, 1<<20)
	buf = buf[:runtime.Stack(buf, true)]
	return strings.Count(string(buf), sub)
}

// after a refused message: reader and sender goroutines gone, session unregistered
func TestRev_WsRefusalLeavesNothing(t *testing.T) {
	eng, ts := revServer(t, func(o *config.ServerOptions) {
		o.SetMaxHttpBufferSize(1000)
		o.SetPerMessageDeflate(&types.PerMessageDeflate{Threshold: 0})
		o.SetPingInterval(5 * time.Second)
	})
	for i := 0; i < 20; i++ {
		c := dial(t, ts, "EIO=4&transport=websocket", true)
		c.ReadMessage()
		c.WriteMessage(ws.TextMessage, append([]byte("4"), bytes.Repeat([]byte("a"), 100000)...))
		c.SetReadDeadline(time.Now().Add(time.Second))
		for {
			if _, _, err := c.ReadMessage(); err != nil {
				break
			}
		}
		c.Close()
	}
	time.Sleep(300 * time.Millisecond)
	if n := countStacks("(*websocket).message"); n != 0 {
		t.Errorf("%d reader goroutines left", n)
	}
	if n := countStacks("(*websocket).send"); n != 0 {
		t.Errorf("%d send goroutines left", n)
	}
	if n := eng.ClientsCount(); n != 0 {
		t.Errorf("%d sessions left", n)
	}
}
