package engine

// Review of 0b717b1 (clearTransport no longer cancels the ping deadline).
// Needs rev_helpers_test.go. Run:
//   go test -vet=off -count=1 -run TestX3 ./engine/
//   go test -vet=off -count=1 -race -run TestX3 ./engine/

import (
	"fmt"
	"math/rand"
	"strconv"
	"strings"
	"sync"
	"sync/atomic"
	"testing"
	"time"

	"github.com/gorilla/websocket"
	"github.com/zishang520/engine.io/v2/config"
)

// ---------------------------------------------------------------- helpers

func x3Env(t *testing.T, pi, pt time.Duration, mod func(o *config.ServerOptions)) *revEnv {
	return revNew(t, func(o *config.ServerOptions) {
		o.SetPingInterval(pi)
		o.SetPingTimeout(pt)
		o.SetAllowEIO3(true)
		if mod != nil {
			mod(o)
		}
	})
}

// splits a polling payload into its packets
func x3Split(eio, body string) []string {
	if eio == "4" {
		if body == "" {
			return nil
		}
		return strings.Split(body, "\x1e")
	}
	var out []string
	for len(body) > 0 {
		i := strings.IndexByte(body, ':')
		if i < 0 {
			return append(out, body)
		}
		n, err := strconv.Atoi(body[:i])
		if err != nil || i+1+n > len(body) {
			return append(out, body)
		}
		out = append(out, body[i+1:i+1+n])
		body = body[i+1+n:]
	}
	return out
}

func x3Enc(eio, pkt string) string {
	if eio == "4" {
		return pkt
	}
	return fmt.Sprintf("%d:%s", len(pkt), pkt)
}

func (e *revEnv) x3Q(eio string) string {
	if eio == "3" {
		return "3&b64=1"
	}
	return eio
}

// handshake with either revision; the time of the answer is the client's origin
func (e *revEnv) x3Open(eio string) (string, Socket, time.Time) {
	// (the helper pairs the answer with the next 'connection' event: with
	// concurrent handshakes that is another session's socket)
	sid, _ := e.handshake(e.x3Q(eio))
	now := time.Now()
	s, ok := e.eng.Clients().Load(sid)
	if !ok {
		e.t.Fatalf("session %s not registered", sid)
	}
	return sid, s, now
}

func (e *revEnv) x3Post(sid, eio, pkt string) {
	e.t.Helper()
	if code, body := e.post(sid, e.x3Q(eio), x3Enc(eio, pkt)); code != 200 {
		e.t.Logf("post %q answered %d %q", pkt, code, body)
	}
}

// one poll, synchronous
func (e *revEnv) x3Poll(sid, eio string, d time.Duration) ([]string, bool) {
	select {
	case r := <-e.pollAsync(sid, e.x3Q(eio)):
		if r.err != nil || r.code != 200 {
			return nil, false
		}
		return x3Split(eio, r.body), true
	case <-time.After(d):
		return nil, false
	}
}

// candidate connection, probed; the pending poll (if given) has been released
func (e *revEnv) x3Probe(sid, eio string, poll chan pollResult) *websocket.Conn {
	e.t.Helper()
	ws, _, err := e.dialWS("EIO=" + e.x3Q(eio) + "&transport=websocket&sid=" + sid)
	if err != nil {
		e.t.Fatal(err)
	}
	ws.WriteMessage(websocket.TextMessage, []byte("2probe"))
	if m, err := wsReadText(ws, 3*time.Second); err != nil || m != "3probe" {
		e.t.Fatalf("probe answer %q %v", m, err)
	}
	if poll != nil {
		select {
		case <-poll:
		case <-time.After(3 * time.Second):
			e.t.Fatal("poll not released")
		}
	}
	return ws
}

type x3Watch struct {
	hb     atomic.Int32
	closed chan string
	at     atomic.Pointer[time.Time]
}

func x3WatchSocket(s Socket) *x3Watch {
	w := &x3Watch{closed: make(chan string, 4)}
	s.On("heartbeat", func(...any) { w.hb.Add(1) })
	s.On("close", func(a ...any) {
		n := time.Now()
		w.at.Store(&n)
		w.closed <- fmt.Sprint(a[0])
	})
	return w
}

func (w *x3Watch) mustStayOpen(t *testing.T, s Socket, d time.Duration, what string) {
	t.Helper()
	select {
	case r := <-w.closed:
		t.Fatalf("%s: session closed (%s)", what, r)
	case <-time.After(d):
	}
	if s.ReadyState() != "open" {
		t.Fatalf("%s: session is %s", what, s.ReadyState())
	}
}

// closes with 'ping timeout' inside [from+lo, from+hi]
func (w *x3Watch) mustCloseBetween(t *testing.T, from time.Time, lo, hi time.Duration, what string) {
	t.Helper()
	select {
	case r := <-w.closed:
		at := w.at.Load().Sub(from)
		if r != "ping timeout" {
			t.Fatalf("%s: closed with %q after %v", what, r, at)
		}
		if at < lo || at > hi {
			t.Fatalf("%s: closed after %v, expected within [%v, %v]", what, at, lo, hi)
		}
		t.Logf("%s: closed after %v (window [%v, %v])", what, at, lo, hi)
	case <-time.After(time.Until(from.Add(hi + time.Second))):
		t.Fatalf("%s: not closed %v after the origin (expected within [%v, %v])", what, time.Since(from), lo, hi)
	}
}

func x3TimerGoroutines() (n int, sample string) {
	for _, g := range strings.Split(dumpGoroutines(), "\n\n") {
		if strings.Contains(g, "utils.SetTimeout.func1") || strings.Contains(g, "utils.SetInterval.func1") {
			n++
			sample = g
		}
	}
	return
}

// answers the server's pings on the websocket until it fails
func x3PongLoop(ws *websocket.Conn, pings *atomic.Int32, stop *atomic.Bool) {
	for {
		ws.SetReadDeadline(time.Now().Add(5 * time.Second))
		_, m, err := ws.ReadMessage()
		if err != nil {
			return
		}
		if string(m) == "2" {
			if pings != nil {
				pings.Add(1)
			}
			if stop != nil && stop.Load() {
				continue
			}
			ws.WriteMessage(websocket.TextMessage, []byte("3"))
		}
	}
}

// ------------------------------------------------- 1. closed too early?

const (
	x3PI = 200 * time.Millisecond
	x3PT = 600 * time.Millisecond
)

// revision 4, ping outstanding at the switch, pong on the NEW transport right
// after it: the surviving deadline must be cancelled by that pong and the
// heartbeat must go on.
func TestX3_V4_PongOnNewTransportAfterSwitch(t *testing.T) {
	e := x3Env(t, x3PI, x3PT, nil)
	sid, s, _ := e.x3Open("4")
	w := x3WatchSocket(s)
	pk, ok := e.x3Poll(sid, "4", 2*time.Second)
	if !ok || len(pk) != 1 || pk[0] != "2" {
		t.Fatalf("expected the ping, got %q", pk)
	}
	tPing := time.Now()
	ws := e.x3Probe(sid, "4", nil)
	defer ws.Close()
	ws.WriteMessage(websocket.TextMessage, []byte("5"))
	if !waitFor(time.Second, s.Upgraded) {
		t.Fatal("no upgrade")
	}
	ws.WriteMessage(websocket.TextMessage, []byte("3"))
	var pings atomic.Int32
	go x3PongLoop(ws, &pings, nil)
	// well past the deadline of the first ping
	w.mustStayOpen(t, s, time.Until(tPing.Add(x3PT+4*x3PI)), "pong on the new transport")
	if pings.Load() < 2 || w.hb.Load() < 3 {
		t.Fatalf("heartbeat did not go on: %d pings on the websocket, %d heartbeats", pings.Load(), w.hb.Load())
	}
}

// revision 4, pong on the OLD transport just before the switch
func TestX3_V4_PongOnOldTransportBeforeSwitch(t *testing.T) {
	e := x3Env(t, x3PI, x3PT, nil)
	sid, s, _ := e.x3Open("4")
	w := x3WatchSocket(s)
	pk, ok := e.x3Poll(sid, "4", 2*time.Second)
	if !ok || len(pk) != 1 || pk[0] != "2" {
		t.Fatalf("expected the ping, got %q", pk)
	}
	tPing := time.Now()
	ws := e.x3Probe(sid, "4", nil)
	defer ws.Close()
	e.x3Post(sid, "4", "3")
	ws.WriteMessage(websocket.TextMessage, []byte("5"))
	var pings atomic.Int32
	go x3PongLoop(ws, &pings, nil)
	w.mustStayOpen(t, s, time.Until(tPing.Add(x3PT+4*x3PI)), "pong on the old transport")
	if !s.Upgraded() || pings.Load() < 2 || w.hb.Load() < 3 {
		t.Fatalf("upgraded %v, %d pings on the websocket, %d heartbeats", s.Upgraded(), pings.Load(), w.hb.Load())
	}
}

// revision 4, the deadline is about to fire during the probe; the pong comes
// just in time (old transport / new transport)
func TestX3_V4_DeadlineAlmostFiresDuringProbe(t *testing.T) {
	for _, where := range []string{"old", "new"} {
		t.Run(where, func(t *testing.T) {
			t.Parallel()
			e := x3Env(t, x3PI, x3PT, nil)
			sid, s, _ := e.x3Open("4")
			w := x3WatchSocket(s)
			pk, ok := e.x3Poll(sid, "4", 2*time.Second)
			if !ok || len(pk) != 1 || pk[0] != "2" {
				t.Fatalf("expected the ping, got %q", pk)
			}
			tPing := time.Now()
			poll := e.pollAsync(sid, "4")
			time.Sleep(x3PT / 3)
			ws := e.x3Probe(sid, "4", poll)
			defer ws.Close()
			time.Sleep(time.Until(tPing.Add(x3PT - 150*time.Millisecond)))
			if where == "old" {
				e.x3Post(sid, "4", "3")
				ws.WriteMessage(websocket.TextMessage, []byte("5"))
			} else {
				ws.WriteMessage(websocket.TextMessage, []byte("5"))
				ws.WriteMessage(websocket.TextMessage, []byte("3"))
			}
			var pings atomic.Int32
			go x3PongLoop(ws, &pings, nil)
			w.mustStayOpen(t, s, time.Until(tPing.Add(x3PT+4*x3PI)), "pong just in time on the "+where+" transport")
			if !s.Upgraded() || pings.Load() < 2 {
				t.Fatalf("upgraded %v, %d pings on the websocket", s.Upgraded(), pings.Load())
			}
		})
	}
}

// revision 4, the ping fires while the client has paused polling (between the
// noop and the upgrade packet): it waits in the write buffer with its deadline
// armed, is flushed to the websocket by the switch and answered there.
func TestX3_V4_PingBufferedDuringPause(t *testing.T) {
	e := x3Env(t, x3PI, x3PT, nil)
	sid, s, t0 := e.x3Open("4")
	w := x3WatchSocket(s)
	poll := e.pollAsync(sid, "4")
	time.Sleep(20 * time.Millisecond)
	ws := e.x3Probe(sid, "4", poll)
	defer ws.Close()
	if time.Since(t0) > x3PI-50*time.Millisecond {
		t.Skip("too slow")
	}
	time.Sleep(time.Until(t0.Add(x3PI + 100*time.Millisecond)))
	ws.WriteMessage(websocket.TextMessage, []byte("5"))
	if m, err := wsReadText(ws, time.Second); err != nil || m != "2" {
		t.Fatalf("the buffered ping was not flushed to the websocket: %q %v", m, err)
	}
	ws.WriteMessage(websocket.TextMessage, []byte("3"))
	var pings atomic.Int32
	go x3PongLoop(ws, &pings, nil)
	w.mustStayOpen(t, s, x3PT+4*x3PI, "buffered ping answered on the websocket")
	if pings.Load() < 2 {
		t.Fatalf("%d further pings", pings.Load())
	}
}

// the same, but the client never answers the flushed ping: closed at ping + pingTimeout
func TestX3_V4_PingBufferedDuringPause_Silent(t *testing.T) {
	e := x3Env(t, x3PI, x3PT, nil)
	sid, s, t0 := e.x3Open("4")
	w := x3WatchSocket(s)
	poll := e.pollAsync(sid, "4")
	time.Sleep(20 * time.Millisecond)
	ws := e.x3Probe(sid, "4", poll)
	defer ws.Close()
	if time.Since(t0) > x3PI-50*time.Millisecond {
		t.Skip("too slow")
	}
	time.Sleep(time.Until(t0.Add(x3PI + 100*time.Millisecond)))
	ws.WriteMessage(websocket.TextMessage, []byte("5"))
	if m, err := wsReadText(ws, time.Second); err != nil || m != "2" {
		t.Fatalf("the buffered ping was not flushed to the websocket: %q %v", m, err)
	}
	w.mustCloseBetween(t, t0, x3PI+x3PT-100*time.Millisecond, x3PI+x3PT+300*time.Millisecond, "ping buffered during the pause, never answered")
}

// revision 4: the pong that cancelled the surviving deadline: the session must
// not be closed at ping + pingTimeout, but (peer silent from then on) at
// nextPing + pingTimeout.
func TestX3_V4_CancelledDeadlineDoesNotFire(t *testing.T) {
	e := x3Env(t, x3PI, x3PT, nil)
	sid, s, _ := e.x3Open("4")
	w := x3WatchSocket(s)
	pk, ok := e.x3Poll(sid, "4", 2*time.Second)
	if !ok || len(pk) != 1 || pk[0] != "2" {
		t.Fatalf("expected the ping, got %q", pk)
	}
	ws := e.x3Probe(sid, "4", nil)
	defer ws.Close()
	ws.WriteMessage(websocket.TextMessage, []byte("5"))
	if !waitFor(time.Second, s.Upgraded) {
		t.Fatal("no upgrade")
	}
	time.Sleep(x3PT / 2)
	ws.WriteMessage(websocket.TextMessage, []byte("3"))
	tPong := time.Now()
	// silent from here: next ping at tPong+PI, closed at tPong+PI+PT
	w.mustCloseBetween(t, tPong, x3PI+x3PT-100*time.Millisecond, x3PI+x3PT+300*time.Millisecond, "second ping unanswered")
}

// revision 3: ping on polling at t0, upgrade, ping on the websocket at t1; then
// silent. Must be closed at t1 + PI + PT, not at t0 + PI + PT (the deadline
// that survived the switch is replaced, not left to fire).
func TestX3_V3_SurvivingDeadlineIsReplaced(t *testing.T) {
	e := x3Env(t, x3PI, x3PT, nil)
	sid, s, _ := e.x3Open("3")
	w := x3WatchSocket(s)
	poll := e.pollAsync(sid, e.x3Q("3"))
	time.Sleep(20 * time.Millisecond)
	e.x3Post(sid, "3", "2")
	t0 := time.Now()
	select {
	case r := <-poll:
		if p := x3Split("3", r.body); len(p) != 1 || p[0] != "3" {
			t.Fatalf("expected the pong, got %q", r.body)
		}
	case <-time.After(time.Second):
		t.Fatal("no pong")
	}
	poll = e.pollAsync(sid, e.x3Q("3"))
	time.Sleep(20 * time.Millisecond)
	ws := e.x3Probe(sid, "3", poll)
	defer ws.Close()
	ws.WriteMessage(websocket.TextMessage, []byte("5"))
	if !waitFor(time.Second, s.Upgraded) {
		t.Fatal("no upgrade")
	}
	time.Sleep(time.Until(t0.Add((x3PI + x3PT) * 3 / 4)))
	ws.WriteMessage(websocket.TextMessage, []byte("2"))
	t1 := time.Now()
	if m, err := wsReadText(ws, time.Second); err != nil || m != "3" {
		t.Fatalf("pong on the websocket: %q %v", m, err)
	}
	w.mustCloseBetween(t, t1, x3PI+x3PT-100*time.Millisecond, x3PI+x3PT+300*time.Millisecond, "revision 3, silent after a ping on the websocket")
	if w.hb.Load() != 2 {
		t.Fatalf("%d heartbeats", w.hb.Load())
	}
}

// A well-behaved client of either revision that upgrades at an arbitrary phase
// of the heartbeat cycle stays open. The client follows engine.io-client: pongs
// (rev 4) / pings (rev 3) produced while it is upgrading wait and go out on the
// websocket after the upgrade packet.
type x3Auto struct {
	e        *revEnv
	eio, sid string
	s        Socket

	mu        sync.Mutex
	upgrading bool
	ws        *websocket.Conn // set once upgraded
	wsMu      sync.Mutex
	held      []string
	stop      atomic.Bool
	pollDone  chan struct{}
	pausePoll atomic.Bool
	posts     sync.WaitGroup
}

func (c *x3Auto) send(pkt string) {
	c.mu.Lock()
	if c.upgrading {
		c.held = append(c.held, pkt)
		c.mu.Unlock()
		return
	}
	ws := c.ws
	if ws == nil {
		c.posts.Add(1)
		defer c.posts.Done()
	}
	c.mu.Unlock()
	if ws != nil {
		c.wsMu.Lock()
		ws.WriteMessage(websocket.TextMessage, []byte(pkt))
		c.wsMu.Unlock()
		return
	}
	c.e.post(c.sid, c.e.x3Q(c.eio), x3Enc(c.eio, pkt))
}

func (c *x3Auto) onPacket(p string) {
	if p == "2" && c.eio == "4" {
		c.send("3")
	}
}

func (c *x3Auto) pollLoop() {
	defer close(c.pollDone)
	for !c.stop.Load() && !c.pausePoll.Load() {
		r := <-c.e.pollAsync(c.sid, c.e.x3Q(c.eio))
		if r.err != nil || r.code != 200 {
			return
		}
		for _, p := range x3Split(c.eio, r.body) {
			if p == "1" {
				return
			}
			c.onPacket(p)
		}
	}
}

func (c *x3Auto) v3PingLoop(pi time.Duration) {
	for !c.stop.Load() {
		c.send("2")
		time.Sleep(pi)
	}
}

func (c *x3Auto) upgrade() error {
	ws, _, err := c.e.dialWS("EIO=" + c.e.x3Q(c.eio) + "&transport=websocket&sid=" + c.sid)
	if err != nil {
		return err
	}
	ws.WriteMessage(websocket.TextMessage, []byte("2probe"))
	if m, err := wsReadText(ws, 3*time.Second); err != nil || m != "3probe" {
		return fmt.Errorf("probe answer %q %v", m, err)
	}
	c.mu.Lock()
	c.upgrading = true
	c.mu.Unlock()
	c.pausePoll.Store(true)
	select {
	case <-c.pollDone:
	case <-time.After(3 * time.Second):
		return fmt.Errorf("poll not released")
	}
	c.posts.Wait() // a write in flight completes before the upgrade packet
	ws.WriteMessage(websocket.TextMessage, []byte("5"))
	c.mu.Lock()
	c.upgrading = false
	c.ws = ws
	held := c.held
	c.held = nil
	c.mu.Unlock()
	for _, p := range held {
		c.wsMu.Lock()
		ws.WriteMessage(websocket.TextMessage, []byte(p))
		c.wsMu.Unlock()
	}
	go func() {
		for {
			ws.SetReadDeadline(time.Now().Add(10 * time.Second))
			_, m, err := ws.ReadMessage()
			if err != nil {
				return
			}
			c.onPacket(string(m))
		}
	}()
	return nil
}

func x3RunAuto(t *testing.T, e *revEnv, eio string, pi time.Duration, offset, after time.Duration) (*x3Auto, *x3Watch) {
	sid, s, _ := e.x3Open(eio)
	w := x3WatchSocket(s)
	c := &x3Auto{e: e, eio: eio, sid: sid, s: s, pollDone: make(chan struct{})}
	go c.pollLoop()
	if eio == "3" {
		go c.v3PingLoop(pi)
	}
	time.Sleep(offset)
	if err := c.upgrade(); err != nil {
		t.Errorf("offset %v: %v", offset, err)
	}
	time.Sleep(after)
	return c, w
}

func TestX3_ResponsiveClientUpgradesAtAnyPhase(t *testing.T) {
	const pi, pt = 100 * time.Millisecond, 400 * time.Millisecond
	for _, eio := range []string{"4", "3"} {
		for off := time.Duration(0); off <= 2*pi+pi/2; off += pi / 10 {
			t.Run(fmt.Sprintf("EIO%s/%v", eio, off), func(t *testing.T) {
				t.Parallel()
				e := x3Env(t, pi, pt, nil)
				c, w := x3RunAuto(t, e, eio, pi, off, pt+6*pi)
				defer func() {
					c.stop.Store(true)
					if c.ws != nil {
						c.ws.Close()
					}
				}()
				select {
				case r := <-w.closed:
					t.Fatalf("responsive client closed: %s", r)
				default:
				}
				if c.s.ReadyState() != "open" || !c.s.Upgraded() {
					t.Fatalf("state %s upgraded %v", c.s.ReadyState(), c.s.Upgraded())
				}
				if w.hb.Load() < 6 {
					t.Fatalf("only %d heartbeats", w.hb.Load())
				}
			})
		}
	}
}

// ------------------------------------------------- 2. closed too late?

// revision 4: silent since BEFORE the upgrade (the ping was never answered),
// the upgrade completes late: closed at ping + pingTimeout
func TestX3_V4_SilentSinceBeforeUpgrade(t *testing.T) {
	e := x3Env(t, x3PI, x3PT, nil)
	sid, s, _ := e.x3Open("4")
	w := x3WatchSocket(s)
	pk, ok := e.x3Poll(sid, "4", 2*time.Second)
	if !ok || len(pk) != 1 || pk[0] != "2" {
		t.Fatalf("expected the ping, got %q", pk)
	}
	tPing := time.Now()
	time.Sleep(x3PT / 2)
	ws := e.x3Probe(sid, "4", nil)
	defer ws.Close()
	ws.WriteMessage(websocket.TextMessage, []byte("5"))
	if !waitFor(time.Second, s.Upgraded) {
		t.Fatal("no upgrade")
	}
	w.mustCloseBetween(t, tPing, x3PT-100*time.Millisecond, x3PT+300*time.Millisecond, "silent since before the upgrade")
}

// revision 4: ping unanswered, the upgrade fails (candidate closed after the probe) / times out
func TestX3_V4_SilentAndUpgradeFailsOrTimesOut(t *testing.T) {
	for _, how := range []string{"fails", "timesout", "garbage"} {
		t.Run(how, func(t *testing.T) {
			t.Parallel()
			e := x3Env(t, x3PI, x3PT, func(o *config.ServerOptions) { o.SetUpgradeTimeout(150 * time.Millisecond) })
			sid, s, _ := e.x3Open("4")
			w := x3WatchSocket(s)
			pk, ok := e.x3Poll(sid, "4", 2*time.Second)
			if !ok || len(pk) != 1 || pk[0] != "2" {
				t.Fatalf("expected the ping, got %q", pk)
			}
			tPing := time.Now()
			ws := e.x3Probe(sid, "4", nil)
			defer ws.Close()
			switch how {
			case "fails":
				ws.Close()
			case "garbage":
				ws.WriteMessage(websocket.TextMessage, []byte("4hello"))
			}
			w.mustCloseBetween(t, tPing, x3PT-100*time.Millisecond, x3PT+300*time.Millisecond, "upgrade "+how)
			if s.Upgraded() {
				t.Fatal("upgraded?")
			}
			if !waitFor(time.Second, func() bool { return !s.Upgrading() }) {
				t.Fatal("still upgrading")
			}
		})
	}
}

// revision 3: silent since the handshake, the upgrade completes in between:
// closed at handshake + PI + PT
func TestX3_V3_SilentSinceHandshake(t *testing.T) {
	for _, how := range []string{"upgrades", "fails", "none"} {
		t.Run(how, func(t *testing.T) {
			t.Parallel()
			e := x3Env(t, x3PI, x3PT, nil)
			sid, s, t0 := e.x3Open("3")
			w := x3WatchSocket(s)
			if how != "none" {
				poll := e.pollAsync(sid, e.x3Q("3"))
				time.Sleep((x3PI + x3PT) / 2)
				ws := e.x3Probe(sid, "3", poll)
				defer ws.Close()
				if how == "upgrades" {
					ws.WriteMessage(websocket.TextMessage, []byte("5"))
					if !waitFor(time.Second, s.Upgraded) {
						t.Fatal("no upgrade")
					}
				} else {
					ws.Close()
				}
			}
			w.mustCloseBetween(t, t0, x3PI+x3PT-100*time.Millisecond, x3PI+x3PT+300*time.Millisecond, "revision 3 silent since the handshake, upgrade "+how)
		})
	}
}

// ------------------------------------------------- 3. timers after close

// Sessions that upgrade and are then closed in every way leave no timer behind
// (ping interval 25 s / timeout 20 s would keep a leaked timer visible), with or
// without a deadline armed at the switch.
func TestX3_NoTimersAfterUpgradeAndClose(t *testing.T) {
	base, _ := x3TimerGoroutines()
	type variant struct {
		eio      string
		pi, pt   time.Duration
		deadline bool // a ping deadline is armed when the switch happens
	}
	variants := []variant{
		{"4", 25 * time.Second, 20 * time.Second, false},
		{"4", 40 * time.Millisecond, 20 * time.Second, true},
		{"3", 10 * time.Second, 10 * time.Second, true},
	}
	hows := []string{"client-ws-close", "Close(true)", "Close(false)", "OnClose"}
	for _, v := range variants {
		e := x3Env(t, v.pi, v.pt, nil)
		var wg sync.WaitGroup
		for i := 0; i < 40; i++ {
			how := hows[i%len(hows)]
			sid, s, _ := e.x3Open(v.eio)
			wg.Add(1)
			go func() {
				defer wg.Done()
				w := x3WatchSocket(s)
				var tmo atomic.Int32
				s.On("close", func(a ...any) {
					if fmt.Sprint(a[0]) == "ping timeout" {
						tmo.Add(1)
					}
				})
				if v.eio == "4" && v.deadline {
					if pk, ok := e.x3Poll(sid, "4", 2*time.Second); !ok || len(pk) != 1 || pk[0] != "2" {
						t.Errorf("expected the ping, got %q", pk)
						return
					}
				}
				poll := e.pollAsync(sid, e.x3Q(v.eio))
				time.Sleep(10 * time.Millisecond)
				ws := e.x3Probe(sid, v.eio, poll)
				defer ws.Close()
				ws.WriteMessage(websocket.TextMessage, []byte("5"))
				if !waitFor(2*time.Second, s.Upgraded) {
					t.Errorf("no upgrade")
					return
				}
				switch how {
				case "client-ws-close":
					ws.Close()
				case "Close(true)":
					s.Close(true)
				case "Close(false)":
					s.Close(false)
				case "OnClose":
					s.(*socket).OnClose("forced close")
				}
				select {
				case <-w.closed:
				case <-time.After(3 * time.Second):
					t.Errorf("%s: not closed", how)
				}
			}()
		}
		wg.Wait()
		if n := e.eng.ClientsCount(); n != 0 {
			t.Errorf("%d sessions registered", n)
		}
		e.eng.Close()
	}
	var n int
	var sample string
	if !waitFor(2*time.Second, func() bool { n, sample = x3TimerGoroutines(); return n <= base }) {
		t.Fatalf("%d timer goroutines left (before: %d), e.g.\n%s", n, base, sample)
	}
}

// ------------------------------------------------- 4. the closed-session branch

// The deadline fires (OnClose "ping timeout") in the middle of the switch,
// after the old transport was cleared and before the new one is set: hooked on
// the old transport's own close event, which clearTransport triggers.
func TestX3_DeadlineFiresInsideTheSwitch(t *testing.T) {
	for _, eio := range []string{"4", "3"} {
		t.Run("EIO"+eio, func(t *testing.T) {
			base, _ := x3TimerGoroutines()
			e := x3Env(t, 40*time.Millisecond, 20*time.Second, nil)
			if eio == "3" {
				e = x3Env(t, 10*time.Second, 10*time.Second, nil)
			}
			sid, s, _ := e.x3Open(eio)
			if eio == "4" {
				if pk, ok := e.x3Poll(sid, "4", 2*time.Second); !ok || len(pk) != 1 || pk[0] != "2" {
					t.Fatalf("expected the ping, got %q", pk)
				}
			}
			var upgradeEvents atomic.Int32
			s.On("upgrade", func(...any) { upgradeEvents.Add(1) })
			s.Transport().On("close", func(...any) {
				// inside clearTransport of the switch
				s.(*socket).OnClose("ping timeout")
			})
			poll := e.pollAsync(sid, e.x3Q(eio))
			time.Sleep(10 * time.Millisecond)
			ws := e.x3Probe(sid, eio, poll)
			defer ws.Close()
			ws.WriteMessage(websocket.TextMessage, []byte("5"))
			checkClosedEverything(t, e, sid, s, ws, nil)
			if r := e.closeReasons(sid); len(r) != 1 || r[0] != "ping timeout" {
				t.Errorf("close reasons %v", r)
			}
			if upgradeEvents.Load() != 0 {
				t.Errorf("'upgrade' emitted on a closed session")
			}
			e.eng.Close()
			var n int
			var sample string
			if !waitFor(2*time.Second, func() bool { n, sample = x3TimerGoroutines(); return n <= base }) {
				t.Errorf("%d timer goroutines left (before: %d), e.g.\n%s", n, base, sample)
			}
		})
	}
}

// ------------------------------------------------- 5. races

// Many responsive sessions of both revisions, tiny ping interval, upgrading at
// random moments; run with -race. The timeout is generous, so that a 'ping
// timeout' here is a lost or mis-cancelled deadline, not scheduling noise.
func TestX3_RaceStress(t *testing.T) {
	const pi, pt = 20 * time.Millisecond, 1500 * time.Millisecond
	e := x3Env(t, pi, pt, nil)
	var wg sync.WaitGroup
	var bad atomic.Int32
	for i := 0; i < 24; i++ {
		eio := "4"
		if i%3 == 0 {
			eio = "3"
		}
		off := time.Duration(rand.Intn(60)) * time.Millisecond
		wg.Add(1)
		go func() {
			defer wg.Done()
			c, w := x3RunAuto(t, e, eio, pi, off, pt+500*time.Millisecond)
			select {
			case r := <-w.closed:
				bad.Add(1)
				t.Errorf("EIO%s offset %v: closed: %s", eio, off, r)
			default:
			}
			if w.hb.Load() < 20 {
				t.Errorf("EIO%s offset %v: %d heartbeats", eio, off, w.hb.Load())
			}
			// now fall silent: must be closed by the heartbeat
			tSil := time.Now()
			c.stop.Store(true)
			c.mu.Lock()
			c.upgrading = true // swallow pongs
			c.mu.Unlock()
			lim := pi + pt + time.Second
			select {
			case r := <-w.closed:
				if r != "ping timeout" {
					t.Errorf("EIO%s: closed with %s %v after falling silent", eio, r, time.Since(tSil))
				}
			case <-time.After(lim):
				t.Errorf("EIO%s offset %v: silent peer not closed after %v", eio, off, lim)
			}
			if c.ws != nil {
				c.ws.Close()
			}
		}()
	}
	wg.Wait()
}

// revision 4: ping unanswered while a probed candidate is still pending (no
// switch at all): closed at ping + pingTimeout, candidate closed, not upgrading
func TestX3_V4_SilentWithPendingCandidate(t *testing.T) {
	e := x3Env(t, x3PI, x3PT, nil)
	sid, s, _ := e.x3Open("4")
	w := x3WatchSocket(s)
	pk, ok := e.x3Poll(sid, "4", 2*time.Second)
	if !ok || len(pk) != 1 || pk[0] != "2" {
		t.Fatalf("expected the ping, got %q", pk)
	}
	tPing := time.Now()
	ws := e.x3Probe(sid, "4", nil)
	defer ws.Close()
	w.mustCloseBetween(t, tPing, x3PT-100*time.Millisecond, x3PT+300*time.Millisecond, "candidate pending")
	checkClosedEverything(t, e, sid, s, ws, nil)
}

// A close that lands on the very tick of the ping timer: the callback arms a
// deadline on a session that is already closed (its own callback does nothing,
// but timer, goroutine and session stay referenced for pingTimeout).
// X3_TICK=1 go test -run TestX3_CloseOnThePingTick
func TestX3_CloseOnThePingTick(t *testing.T) {
	const pi = 3 * time.Millisecond
	e := x3Env(t, pi, 30*time.Second, nil)
	base, _ := x3TimerGoroutines()
	var wg sync.WaitGroup
	for round := 0; round < 40; round++ {
		for i := 0; i < 50; i++ {
			_, s, t0 := e.x3Open("4")
			wg.Add(1)
			go func() {
				defer wg.Done()
				d := pi - 300*time.Microsecond + time.Duration(rand.Intn(600))*time.Microsecond
				for time.Since(t0) < d {
				}
				// discard: the polling transport closes at once, without its
				// own 30 s close timer
				s.Close(true)
			}()
		}
		wg.Wait()
	}
	time.Sleep(300 * time.Millisecond)
	n, sample := x3TimerGoroutines()
	if n > base {
		t.Errorf("%d timers armed on closed sessions (of 2000), e.g.\n%s", n-base, sample)
	}
}

// A pong POSTed on the old transport at the very moment of the upgrade packet
// (engine.io-client does not do that: it holds writes while upgrading). The
// request is accepted with 200 "ok"; if it is dispatched after the switch has
// removed the session's listeners from the old transport the pong is dropped.
// Characterisation only: reports how often, and what happens to the session.
func TestX3_V4_PongRacesTheUpgradePacket(t *testing.T) {
	if testing.Short() {
		t.Skip()
	}
	const pi, pt = 50 * time.Millisecond, 400 * time.Millisecond
	e := x3Env(t, pi, pt, nil)
	var wg sync.WaitGroup
	var accepted, dropped, timedOut atomic.Int32
	for i := 0; i < 150; i++ {
		sid, s, _ := e.x3Open("4")
		wg.Add(1)
		go func() {
			defer wg.Done()
			w := x3WatchSocket(s)
			if pk, ok := e.x3Poll(sid, "4", 2*time.Second); !ok || len(pk) != 1 || pk[0] != "2" {
				return
			}
			ws := e.x3Probe(sid, "4", nil)
			defer ws.Close()
			done := make(chan int, 1)
			go func() {
				code, _ := e.post(sid, "4", "3")
				done <- code
			}()
			time.Sleep(time.Duration(rand.Intn(400)) * time.Microsecond)
			ws.WriteMessage(websocket.TextMessage, []byte("5"))
			if code := <-done; code != 200 {
				return // rejected: the client knows and would repeat it on the websocket
			}
			accepted.Add(1)
			var stop atomic.Bool
			go x3PongLoop(ws, nil, &stop)
			hb0 := w.hb.Load()
			if hb0 == 0 {
				dropped.Add(1)
			}
			select {
			case r := <-w.closed:
				if r == "ping timeout" {
					timedOut.Add(1)
				}
			case <-time.After(pt + 3*pi):
			}
		}()
		time.Sleep(2 * time.Millisecond)
	}
	wg.Wait()
	t.Logf("pong accepted with 200: %d, dropped without a heartbeat: %d, session then closed by 'ping timeout': %d", accepted.Load(), dropped.Load(), timedOut.Load())
}
