package engine

// W1 review of the candidate "deferred reader start". Every test runs on the
// candidate and on its parent (copy both w1_*_test.go files into engine/).
//   export GOFLAGS=-mod=mod GOPROXY=off; unset GOWORK
//   go test -vet=off -count=1 -race -run TestW1 ./engine/

import (
	"fmt"
	"net/http"
	"net/http/httptest"
	"strings"
	"sync"
	"sync/atomic"
	"testing"
	"time"

	"github.com/gorilla/websocket"
	"github.com/zishang520/engine.io/v2/config"
	"github.com/zishang520/engine.io/v2/events"
	"github.com/zishang520/engine.io/v2/transports"
	"github.com/zishang520/engine.io/v2/types"
)

// ---------------------------------------------------------------------------
// what the candidate claims to repair (sanity)

// the client answers the open packet at once (it does not even wait for it)
func TestW1_FirstMessageOnWebsocketSession(t *testing.T) {
	e := w1New(t, w1Opt{})
	lost := 0
	for i := 0; i < 40; i++ {
		c, _, err := e.dialWS("EIO=4&transport=websocket")
		if err != nil {
			t.Fatal(err)
		}
		c.WriteMessage(websocket.TextMessage, []byte("4first"))
		m, err := w1Read(c, 2*time.Second)
		if err != nil {
			t.Fatal(err)
		}
		sid, _ := w1ParseOpen(m)
		if !w1Wait(300*time.Millisecond, func() bool { return len(e.messages(sid)) == 1 }) {
			lost++
		}
		c.Close()
	}
	if lost > 0 {
		t.Errorf("first message lost in %d of 40 sessions", lost)
	}
}

// the probe is written right after the 101 response
func TestW1_ProbeRightAfterDial(t *testing.T) {
	e := w1New(t, w1Opt{})
	stalled := 0
	for i := 0; i < 40; i++ {
		sid, _ := e.handshake("4")
		ws, _, err := e.dialWS("EIO=4&transport=websocket&sid=" + sid)
		if err != nil {
			t.Fatal(err)
		}
		ws.WriteMessage(websocket.TextMessage, []byte("2probe"))
		if m, err := w1Read(ws, 500*time.Millisecond); err != nil || m != "3probe" {
			stalled++
		}
		ws.Close()
	}
	if stalled > 0 {
		t.Errorf("probe unanswered in %d of 40 attempts", stalled)
	}
}

// ---------------------------------------------------------------------------
// item 2: a connection listener that closes the session / the server

func TestW1_ConnectionListenerCloses(t *testing.T) {
	for _, tc := range []struct {
		name   string
		f      func(e *w1Env, s Socket)
		reason string
	}{
		{"CloseTrue", func(e *w1Env, s Socket) { s.Close(true) }, "forced close"},
		{"CloseFalse", func(e *w1Env, s Socket) { s.Close(false) }, "forced close"},
		{"ServerClose", func(e *w1Env, s Socket) { e.eng.Close() }, "forced close"},
		{"SendThenCloseFalse", func(e *w1Env, s Socket) {
			s.Send(strings.NewReader("bye"), nil, nil)
			s.Close(false)
		}, "forced close"},
		{"CloseTrueOtherGoroutine", func(e *w1Env, s Socket) { go s.Close(true) }, "forced close"},
		{"CloseFalseOtherGoroutine", func(e *w1Env, s Socket) { go s.Close(false) }, "forced close"},
	} {
		t.Run(tc.name, func(t *testing.T) {
			e := w1New(t, w1Opt{onConn: tc.f})
			for i := 0; i < 20; i++ {
				c, _, err := e.dialWS("EIO=4&transport=websocket")
				if err != nil {
					t.Fatal(err)
				}
				var s Socket
				select {
				case s = <-e.connCh:
				case <-time.After(2 * time.Second):
					t.Fatal("no connection event")
				}
				closed, got := w1ClosedByPeer(c, 2*time.Second)
				if !closed {
					t.Errorf("connection left open by the server (client got %q)", got)
				}
				if tc.name == "SendThenCloseFalse" && (len(got) != 2 || got[1] != "4bye") {
					t.Errorf("client got %q, want the open packet and 4bye", got)
				}
				e.checkClosed(s.Id(), s, tc.reason)
				c.Close()
			}
			if n := e.eng.ClientsCount(); n != 0 {
				t.Errorf("clientsCount %d", n)
			}
			w1NoTransportGoroutines(t)
		})
	}
}

// ---------------------------------------------------------------------------
// item 2: the client goes away right after the 101 response

func TestW1_ClientDropsRightAfter101(t *testing.T) {
	for _, mode := range []string{"tcp-close", "close-frame", "tcp-close-after-open"} {
		t.Run(mode, func(t *testing.T) {
			e := w1New(t, w1Opt{})
			reasons := map[string]int{}
			var worst time.Duration
			for i := 0; i < 30; i++ {
				c, _, err := e.dialWS("EIO=4&transport=websocket")
				if err != nil {
					t.Fatal(err)
				}
				t0 := time.Now()
				switch mode {
				case "tcp-close":
					c.UnderlyingConn().Close()
				case "close-frame":
					c.WriteControl(websocket.CloseMessage, websocket.FormatCloseMessage(websocket.CloseNormalClosure, ""), time.Now().Add(time.Second))
				case "tcp-close-after-open":
					w1Read(c, time.Second)
					c.UnderlyingConn().Close()
				}
				var s Socket
				select {
				case s = <-e.connCh:
				case <-time.After(2 * time.Second):
					t.Fatal("no connection event")
				}
				if !w1Wait(2*time.Second, func() bool { return s.ReadyState() == "closed" }) {
					t.Errorf("session %s still %q 2s after the client went away (deaf until the ping timeout)", s.Id(), s.ReadyState())
					c.Close()
					continue
				}
				if d := time.Since(t0); d > worst {
					worst = d
				}
				// the session may have closed before the connection listener
				// attached its close listener
				// (the state is stored before the close event is emitted)
				if !w1Wait(time.Second, func() bool { _, ok := e.eng.Clients().Load(s.Id()); return !ok }) {
					t.Errorf("session still registered")
				}
				r := e.closeReasons(s.Id())
				if len(r) > 1 {
					t.Errorf("close events %v", r)
				}
				reasons[fmt.Sprint(r)]++
				c.Close()
			}
			t.Logf("reasons %v, slowest close %v", reasons, worst)
			if n := e.eng.ClientsCount(); n != 0 {
				t.Errorf("clientsCount %d", n)
			}
			w1NoTransportGoroutines(t)
		})
	}
}

// ---------------------------------------------------------------------------
// item 2: refused upgrade candidates

func TestW1_RefusedCandidates(t *testing.T) {
	t.Run("UnknownSid", func(t *testing.T) {
		e := w1New(t, w1Opt{})
		_, resp, err := e.dialWS("EIO=4&transport=websocket&sid=nosuchsession")
		if err == nil || resp == nil || resp.StatusCode != http.StatusBadRequest {
			t.Errorf("dial: %v %v", err, resp)
		}
		w1NoTransportGoroutines(t)
	})
	t.Run("AlreadyUpgrading", func(t *testing.T) {
		e := w1New(t, w1Opt{})
		sid, s := e.handshake("4")
		ws1 := e.probeWS(sid)
		defer ws1.Close()
		ws2, _, err := e.dialWS("EIO=4&transport=websocket&sid=" + sid)
		if err != nil {
			t.Fatal(err)
		}
		defer ws2.Close()
		if closed, _ := w1ClosedByPeer(ws2, time.Second); !closed {
			t.Errorf("second candidate left open")
		}
		if !s.Upgrading() || s.ReadyState() != "open" {
			t.Errorf("first attempt disturbed: upgrading %v state %s", s.Upgrading(), s.ReadyState())
		}
		// the first attempt still completes
		ws1.WriteMessage(websocket.TextMessage, []byte("5"))
		if !w1Wait(time.Second, func() bool { return s.Upgraded() }) {
			t.Errorf("first candidate did not complete the upgrade")
		}
		if n := w1CountStacks("transports.(*websocket).message"); n != 1 {
			t.Errorf("%d reader goroutines, want 1", n)
		}
	})
	t.Run("ConcurrentCandidates", func(t *testing.T) {
		e := w1New(t, w1Opt{})
		for i := 0; i < 20; i++ {
			sid, s := e.handshake("4")
			var wg sync.WaitGroup
			conns := make([]*websocket.Conn, 3)
			for k := range conns {
				wg.Add(1)
				go func(k int) {
					defer wg.Done()
					c, _, err := e.dialWS("EIO=4&transport=websocket&sid=" + sid)
					if err == nil {
						c.WriteMessage(websocket.TextMessage, []byte("2probe"))
						conns[k] = c
					}
				}(k)
			}
			wg.Wait()
			open, answered := 0, 0
			for _, c := range conns {
				if c == nil {
					continue
				}
				closed, got := w1ClosedByPeer(c, 300*time.Millisecond)
				if !closed {
					open++
				}
				if len(got) == 1 && got[0] == "3probe" {
					answered++
				}
			}
			if open != 1 || answered != 1 {
				t.Errorf("round %d: %d candidates left open, %d probes answered (want 1, 1)", i, open, answered)
			}
			s.Close(true)
			for _, c := range conns {
				if c != nil {
					c.Close()
				}
			}
		}
		w1NoTransportGoroutines(t)
	})
	t.Run("AlreadyUpgraded", func(t *testing.T) {
		e := w1New(t, w1Opt{})
		sid, s := e.handshake("4")
		ws1 := e.probeWS(sid)
		defer ws1.Close()
		ws1.WriteMessage(websocket.TextMessage, []byte("5"))
		if !w1Wait(time.Second, func() bool { return s.Upgraded() }) {
			t.Fatal("not upgraded")
		}
		ws2, _, err := e.dialWS("EIO=4&transport=websocket&sid=" + sid)
		if err != nil {
			t.Fatal(err)
		}
		defer ws2.Close()
		if closed, _ := w1ClosedByPeer(ws2, time.Second); !closed {
			t.Errorf("late candidate left open")
		}
		if s.ReadyState() != "open" {
			t.Errorf("session %s", s.ReadyState())
		}
		if n := w1CountStacks("transports.(*websocket).message"); n != 1 {
			t.Errorf("%d reader goroutines, want 1", n)
		}
	})
	t.Run("TransportNotOffered", func(t *testing.T) {
		e := w1New(t, w1Opt{})
		c, sid := e.wsHandshake("4")
		defer c.Close()
		s := e.socket(sid)
		ws2, _, err := e.dialWS("EIO=4&transport=websocket&sid=" + sid)
		if err != nil {
			t.Fatal(err)
		}
		defer ws2.Close()
		if closed, _ := w1ClosedByPeer(ws2, time.Second); !closed {
			t.Errorf("candidate left open")
		}
		if s.ReadyState() != "open" || s.Upgrading() {
			t.Errorf("session %s upgrading %v", s.ReadyState(), s.Upgrading())
		}
		if n := w1CountStacks("transports.(*websocket).message"); n != 1 {
			t.Errorf("%d reader goroutines, want 1", n)
		}
	})
	// the session closes after the server looked it up and before MaybeUpgrade:
	// driven through MaybeUpgrade itself with a real connection
	t.Run("SessionClosedMeanwhile", func(t *testing.T) {
		e := w1New(t, w1Opt{})
		sid, s := e.handshake("4")
		s.Close(true)
		e.checkClosed(sid, s, "forced close")
		c, tr := w1RealWebsocketTransport(t, "EIO=4&transport=websocket&sid="+sid)
		defer c.Close()
		s.MaybeUpgrade(tr)
		if closed, _ := w1ClosedByPeer(c, time.Second); !closed {
			t.Errorf("candidate left open")
		}
		if s.Upgrading() {
			t.Errorf("still upgrading")
		}
		if tr.ReadyState() != "closed" {
			t.Errorf("candidate transport %s", tr.ReadyState())
		}
		w1NoTransportGoroutines(t)
	})
	t.Run("LostRaceInMaybeUpgrade", func(t *testing.T) {
		e := w1New(t, w1Opt{})
		sid, s := e.handshake("4")
		ws1 := e.probeWS(sid)
		defer ws1.Close()
		c, tr := w1RealWebsocketTransport(t, "EIO=4&transport=websocket&sid="+sid)
		defer c.Close()
		s.MaybeUpgrade(tr) // upgrading already: CAS lost
		if closed, _ := w1ClosedByPeer(c, time.Second); !closed {
			t.Errorf("candidate left open")
		}
		ws1.WriteMessage(websocket.TextMessage, []byte("5"))
		if !w1Wait(time.Second, func() bool { return s.Upgraded() }) {
			t.Fatal("not upgraded")
		}
		c2, tr2 := w1RealWebsocketTransport(t, "EIO=4&transport=websocket&sid="+sid)
		defer c2.Close()
		s.MaybeUpgrade(tr2) // upgraded already
		if closed, _ := w1ClosedByPeer(c2, time.Second); !closed {
			t.Errorf("late candidate left open")
		}
		if s.Upgrading() {
			t.Errorf("still upgrading")
		}
		if n := w1CountStacks("transports.(*websocket).message"); n != 1 {
			t.Errorf("%d reader goroutines, want 1", n)
		}
	})
}

// a websocket transport over a real connection, built the way
// server.HandleUpgrade builds it, not handed to any session
func w1RealWebsocketTransport(t *testing.T, query string) (*websocket.Conn, transports.Transport) {
	t.Helper()
	ch := make(chan transports.Transport, 1)
	mux := http.NewServeMux()
	mux.HandleFunc("/engine.io/", func(w http.ResponseWriter, r *http.Request) {
		ctx := types.NewHttpContext(w, r)
		up := &websocket.Upgrader{}
		conn, err := up.Upgrade(w, r, nil)
		if err != nil {
			t.Error(err)
			return
		}
		ctx.Websocket = &types.WebSocketConn{EventEmitter: events.New(), Conn: conn}
		ch <- transports.NewWebSocket(ctx)
	})
	ts := httptest.NewServer(mux)
	t.Cleanup(ts.Close)
	c, _, err := websocket.DefaultDialer.Dial("ws"+strings.TrimPrefix(ts.URL, "http")+"/engine.io/?"+query, nil)
	if err != nil {
		t.Fatal(err)
	}
	return c, <-ch
}

// ---------------------------------------------------------------------------
// item 3: order and heartbeat

func TestW1_OrderOfEarlyFrames(t *testing.T) {
	e := w1New(t, w1Opt{})
	c, _, err := e.dialWS("EIO=4&transport=websocket")
	if err != nil {
		t.Fatal(err)
	}
	defer c.Close()
	const n = 300
	for i := 0; i < n; i++ {
		c.WriteMessage(websocket.TextMessage, []byte(fmt.Sprintf("4m%d", i)))
	}
	m, err := w1Read(c, time.Second)
	if err != nil {
		t.Fatal(err)
	}
	sid, _ := w1ParseOpen(m)
	w1Wait(2*time.Second, func() bool { return len(e.messages(sid)) >= n })
	got := e.messages(sid)
	if len(got) != n {
		t.Errorf("%d of %d messages delivered (first: %v)", len(got), n, got[:min(3, len(got))])
	}
	for i, g := range got {
		if g != fmt.Sprintf("m%d", i) {
			t.Errorf("message %d is %q", i, g)
			break
		}
	}
}

func TestW1_Heartbeat(t *testing.T) {
	fast := func(o *config.ServerOptions) {
		o.SetPingInterval(60 * time.Millisecond)
		o.SetPingTimeout(120 * time.Millisecond)
	}
	t.Run("EIO4_Websocket", func(t *testing.T) {
		e := w1New(t, w1Opt{mod: fast})
		c, sid := e.wsHandshake("4")
		defer c.Close()
		s := e.socket(sid)
		var beats atomic.Int32
		s.On("heartbeat", func(...any) { beats.Add(1) })
		deadline := time.Now().Add(700 * time.Millisecond)
		for time.Now().Before(deadline) {
			m, err := w1Read(c, 500*time.Millisecond)
			if err != nil {
				t.Fatalf("read: %v (state %s, %v)", err, s.ReadyState(), e.closeReasons(sid))
			}
			if m == "2" {
				c.WriteMessage(websocket.TextMessage, []byte("3"))
			}
		}
		if s.ReadyState() != "open" || beats.Load() < 5 {
			t.Errorf("state %s, %d heartbeats, closes %v", s.ReadyState(), beats.Load(), e.closeReasons(sid))
		}
		// stop answering
		e.checkClosed(sid, s, "ping timeout")
	})
	t.Run("EIO3_Websocket", func(t *testing.T) {
		e := w1New(t, w1Opt{mod: fast})
		c, sid := e.wsHandshake("3")
		defer c.Close()
		s := e.socket(sid)
		for i := 0; i < 10; i++ {
			c.WriteMessage(websocket.TextMessage, []byte("2"))
			if m, err := w1Read(c, 500*time.Millisecond); err != nil || m != "3" {
				t.Fatalf("pong %q %v (state %s, %v)", m, err, s.ReadyState(), e.closeReasons(sid))
			}
			time.Sleep(60 * time.Millisecond)
		}
		if s.ReadyState() != "open" {
			t.Errorf("state %s %v", s.ReadyState(), e.closeReasons(sid))
		}
		e.checkClosed(sid, s, "ping timeout")
	})
	t.Run("EIO4_AfterUpgrade", func(t *testing.T) {
		e := w1New(t, w1Opt{mod: func(o *config.ServerOptions) {
			o.SetPingInterval(300 * time.Millisecond)
			o.SetPingTimeout(200 * time.Millisecond)
		}})
		sid, s := e.handshake("4")
		ws := e.probeWS(sid)
		defer ws.Close()
		ws.WriteMessage(websocket.TextMessage, []byte("5"))
		if !w1Wait(time.Second, func() bool { return s.Upgraded() }) {
			t.Fatal("not upgraded")
		}
		pings := 0
		deadline := time.Now().Add(1500 * time.Millisecond)
		for time.Now().Before(deadline) {
			m, err := w1Read(ws, time.Second)
			if err != nil {
				t.Fatalf("read: %v (state %s, %v)", err, s.ReadyState(), e.closeReasons(sid))
			}
			if m == "2" {
				pings++
				ws.WriteMessage(websocket.TextMessage, []byte("3"))
			}
		}
		if s.ReadyState() != "open" || pings < 3 {
			t.Errorf("state %s, %d pings, closes %v", s.ReadyState(), pings, e.closeReasons(sid))
		}
		ws.WriteMessage(websocket.TextMessage, []byte("4after"))
		if !w1Wait(time.Second, func() bool { return len(e.messages(sid)) == 1 }) {
			t.Errorf("message after upgrade not delivered")
		}
	})
}

// ---------------------------------------------------------------------------
// behaviour changes (pass on the parent)

// A connection listener that waits for the client's first frame (an
// authentication message, say) before it returns. The reader used to run
// beside the listener; now it starts when the listener has returned.
func TestW1_ConnectionListenerWaitsForFirstMessage(t *testing.T) {
	var got atomic.Int32
	e := w1New(t, w1Opt{onConn: func(e *w1Env, s Socket) {
		first := make(chan struct{}, 1)
		s.Once("message", func(...any) { first <- struct{}{} })
		select {
		case <-first:
			got.Add(1)
		case <-time.After(time.Second):
			s.Close(true)
		}
	}})
	c, sid := e.wsHandshake("4")
	defer c.Close()
	c.WriteMessage(websocket.TextMessage, []byte("4auth"))
	select {
	case <-e.connCh:
	case <-time.After(3 * time.Second):
		t.Fatal("connection listener did not return")
	}
	if got.Load() != 1 {
		t.Errorf("the listener never saw the client's first message (session %s, %v)", e.socket(sid).ReadyState(), e.closeReasons(sid))
	}
}

// A connection listener slower than pingInterval + pingTimeout: the client
// answers every ping, the pongs sit unread
func TestW1_SlowConnectionListenerAndHeartbeat(t *testing.T) {
	e := w1New(t, w1Opt{
		mod: func(o *config.ServerOptions) {
			o.SetPingInterval(100 * time.Millisecond)
			o.SetPingTimeout(100 * time.Millisecond)
		},
		onConn: func(e *w1Env, s Socket) { time.Sleep(400 * time.Millisecond) },
	})
	c, sid := e.wsHandshake("4")
	defer c.Close()
	deadline := time.Now().Add(800 * time.Millisecond)
	for time.Now().Before(deadline) {
		m, err := w1Read(c, 500*time.Millisecond)
		if err != nil {
			break
		}
		if m == "2" {
			c.WriteMessage(websocket.TextMessage, []byte("3"))
		}
	}
	s := e.socket(sid)
	if s == nil || s.ReadyState() != "open" {
		t.Errorf("a client that answered every ping was closed: %v", e.closeReasons(sid))
	}
}

// A connection listener that panics (net/http recovers the handler's panic; the
// connection is hijacked and stays open)
func TestW1_ConnectionListenerPanics(t *testing.T) {
	e := w1New(t, w1Opt{onConn: func(e *w1Env, s Socket) { panic("application bug") }})
	e.ts.Config.ErrorLog = nil
	c, sid := e.wsHandshake("4")
	defer c.Close()
	c.WriteMessage(websocket.TextMessage, []byte("4hello"))
	if !w1Wait(500*time.Millisecond, func() bool { return len(e.messages(sid)) == 1 }) {
		t.Errorf("session is deaf after a panicking connection listener (state %s)", e.socket(sid).ReadyState())
	}
}

// ---------------------------------------------------------------------------
// item 1 / 6: transports the engine does not recognise as startable

// A server that decorates its transports (the Prototype mechanism exists for
// this): CreateTransport returns a wrapper that embeds the library's transport
type w1WrapServer struct {
	Server
	sends atomic.Int32
}
type w1WrappedTransport struct {
	transports.Transport
	owner *w1WrapServer
}

func (s *w1WrapServer) CreateTransport(name string, ctx *types.HttpContext) (transports.Transport, error) {
	tr, err := s.Server.CreateTransport(name, ctx)
	if err != nil {
		return nil, err
	}
	return &w1WrappedTransport{Transport: tr, owner: s}, nil
}

func TestW1_WrappedTransport(t *testing.T) {
	e := w1New(t, w1Opt{server: func() Server {
		s := &w1WrapServer{Server: MakeServer()}
		s.Prototype(s)
		return s
	}})
	c, sid := e.wsHandshake("4")
	defer c.Close()
	c.WriteMessage(websocket.TextMessage, []byte("4hello"))
	if !w1Wait(500*time.Millisecond, func() bool { return len(e.messages(sid)) == 1 }) {
		t.Errorf("session on a wrapped websocket transport is deaf (never started)")
	}
	if n := w1CountStacks("transports.(*websocket).message"); n != 1 {
		t.Errorf("%d reader goroutines, want 1", n)
	}
}

// Code outside the module that builds a session itself from the exported
// constructors (compatibility note)
func TestW1_SessionBuiltFromExportedConstructors(t *testing.T) {
	srv := NewServer(config.DefaultServerOptions())
	var msgs atomic.Int32
	mux := http.NewServeMux()
	mux.HandleFunc("/engine.io/", func(w http.ResponseWriter, r *http.Request) {
		ctx := types.NewHttpContext(w, r)
		conn, err := (&websocket.Upgrader{}).Upgrade(w, r, nil)
		if err != nil {
			return
		}
		ctx.Websocket = &types.WebSocketConn{EventEmitter: events.New(), Conn: conn}
		tr := transports.NewWebSocket(ctx)
		s := NewSocket("handmade", srv, tr, ctx, 4)
		s.On("message", func(...any) { msgs.Add(1) })
	})
	ts := httptest.NewServer(mux)
	defer ts.Close()
	c, _, err := websocket.DefaultDialer.Dial("ws"+strings.TrimPrefix(ts.URL, "http")+"/engine.io/?EIO=4&transport=websocket", nil)
	if err != nil {
		t.Fatal(err)
	}
	defer c.Close()
	if _, err := w1Read(c, time.Second); err != nil {
		t.Fatal(err)
	}
	c.WriteMessage(websocket.TextMessage, []byte("4hello"))
	if !w1Wait(500*time.Millisecond, func() bool { return msgs.Load() == 1 }) {
		t.Errorf("a session built with transports.NewWebSocket + engine.NewSocket reads nothing unless the caller knows to call Start")
	}
}

// ---------------------------------------------------------------------------
// item 4: close racing the deferred start (run with -race)

func TestW1_StressCloseVersusStart(t *testing.T) {
	e := w1New(t, w1Opt{})
	var wg sync.WaitGroup
	for w := 0; w < 4; w++ {
		wg.Add(1)
		go func(w int) {
			defer wg.Done()
			for i := 0; i < 25; i++ {
				// session starting on websocket, closed while Handshake runs
				c, _, err := e.dialWS("EIO=4&transport=websocket")
				if err != nil {
					t.Error(err)
					return
				}
				c.WriteMessage(websocket.TextMessage, []byte("4x"))
				switch (i + w) % 3 {
				case 0:
					c.UnderlyingConn().Close()
				case 1:
					c.WriteControl(websocket.CloseMessage, nil, time.Now().Add(time.Second))
				case 2:
					go e.eng.Close()
				}
				c.Close()

				// upgrade candidate against a session closing at the same time
				sid, s := e.handshake("4")
				ws, _, err := e.dialWS("EIO=4&transport=websocket&sid=" + sid)
				if (i+w)%2 == 0 {
					go s.Close(true)
				} else {
					go s.(*socket).OnClose("ping timeout")
				}
				if err == nil {
					ws.WriteMessage(websocket.TextMessage, []byte("2probe"))
					if closed, got := w1ClosedByPeer(ws, 2*time.Second); !closed {
						t.Errorf("candidate of a closed session left open (got %q, upgrading %v, state %s)", got, s.Upgrading(), s.ReadyState())
					}
					ws.Close()
				}
				if !w1Wait(2*time.Second, func() bool { return s.ReadyState() == "closed" && !s.Upgrading() }) {
					t.Errorf("session %s upgrading %v", s.ReadyState(), s.Upgrading())
				}
			}
		}(w)
	}
	wg.Wait()
	if !w1Wait(3*time.Second, func() bool { return e.eng.ClientsCount() == 0 }) {
		t.Errorf("clientsCount %d", e.eng.ClientsCount())
	}
	w1NoTransportGoroutines(t)
}
