package engine

// Helpers for the W1 review (deferred reader start). Adapted from
// rev_helpers_test.go. Copy this file and w1_test.go into engine/.

import (
	"encoding/json"
	"fmt"
	"io"
	"net/http"
	"net/http/httptest"
	"runtime"
	"strings"
	"sync"
	"testing"
	"time"

	"github.com/gorilla/websocket"
	"github.com/zishang520/engine.io/v2/config"
)

type w1Env struct {
	t   *testing.T
	eng Server
	ts  *httptest.Server
	hc  *http.Client

	mu      sync.Mutex
	sockets map[string]Socket
	closes  map[string][]string
	msgs    map[string][]string
	connCh  chan Socket
}

type w1Opt struct {
	mod    func(o *config.ServerOptions)
	onConn func(e *w1Env, s Socket) // runs inside the "connection" listener, after the env's own listeners are attached
	server func() Server            // custom server factory (not constructed)
}

func w1New(t *testing.T, opt w1Opt) *w1Env {
	o := config.DefaultServerOptions()
	o.SetPingInterval(25 * time.Second)
	o.SetPingTimeout(20 * time.Second)
	o.SetAllowEIO3(true)
	if opt.mod != nil {
		opt.mod(o)
	}
	e := &w1Env{t: t, sockets: map[string]Socket{}, closes: map[string][]string{}, msgs: map[string][]string{}, connCh: make(chan Socket, 1024)}
	if opt.server != nil {
		e.eng = opt.server()
		e.eng.Construct(o)
	} else {
		e.eng = NewServer(o)
	}
	e.eng.On("connection", func(a ...any) {
		s := a[0].(Socket)
		e.mu.Lock()
		e.sockets[s.Id()] = s
		e.mu.Unlock()
		s.On("close", func(a ...any) {
			e.mu.Lock()
			e.closes[s.Id()] = append(e.closes[s.Id()], fmt.Sprint(a[0]))
			e.mu.Unlock()
		})
		s.On("message", func(a ...any) {
			b, _ := io.ReadAll(a[0].(io.Reader))
			e.mu.Lock()
			e.msgs[s.Id()] = append(e.msgs[s.Id()], string(b))
			e.mu.Unlock()
		})
		if opt.onConn != nil {
			opt.onConn(e, s)
		}
		e.connCh <- s
	})
	e.ts = httptest.NewServer(e.eng)
	e.hc = &http.Client{Transport: &http.Transport{}}
	t.Cleanup(func() {
		e.eng.Close()
		e.ts.CloseClientConnections()
		e.ts.Close()
		e.hc.CloseIdleConnections()
	})
	return e
}

func (e *w1Env) closeReasons(sid string) []string {
	e.mu.Lock()
	defer e.mu.Unlock()
	return append([]string(nil), e.closes[sid]...)
}

func (e *w1Env) messages(sid string) []string {
	e.mu.Lock()
	defer e.mu.Unlock()
	return append([]string(nil), e.msgs[sid]...)
}

func (e *w1Env) url(q string) string { return e.ts.URL + "/engine.io/?" + q }

func w1ParseOpen(body string) (sid string, err error) {
	i := strings.Index(body, "{")
	j := strings.LastIndex(body, "}")
	if i < 0 || j < i {
		return "", fmt.Errorf("open packet %q", body)
	}
	var h struct {
		Sid string `json:"sid"`
	}
	if err := json.Unmarshal([]byte(body[i:j+1]), &h); err != nil {
		return "", fmt.Errorf("open packet %q: %v", body, err)
	}
	return h.Sid, nil
}

// polling handshake; returns sid and the socket
func (e *w1Env) handshake(eio string) (string, Socket) {
	e.t.Helper()
	resp, err := e.hc.Get(e.url("EIO=" + eio + "&transport=polling"))
	if err != nil {
		e.t.Fatal(err)
	}
	b, _ := io.ReadAll(resp.Body)
	resp.Body.Close()
	sid, err := w1ParseOpen(string(b))
	if err != nil {
		e.t.Fatal(err)
	}
	var s Socket
	if !w1Wait(2*time.Second, func() bool {
		e.mu.Lock()
		defer e.mu.Unlock()
		s = e.sockets[sid]
		return s != nil
	}) {
		e.t.Fatal("no connection event")
	}
	return sid, s
}

func (e *w1Env) socket(sid string) Socket {
	e.mu.Lock()
	defer e.mu.Unlock()
	return e.sockets[sid]
}

type w1Poll struct {
	code int
	body string
	err  error
}

func (e *w1Env) pollAsync(sid, eio string) chan w1Poll {
	ch := make(chan w1Poll, 1)
	go func() {
		resp, err := e.hc.Get(e.url("EIO=" + eio + "&transport=polling&sid=" + sid))
		if err != nil {
			ch <- w1Poll{err: err}
			return
		}
		b, _ := io.ReadAll(resp.Body)
		resp.Body.Close()
		ch <- w1Poll{code: resp.StatusCode, body: string(b)}
	}()
	return ch
}

func (e *w1Env) dialWS(q string) (*websocket.Conn, *http.Response, error) {
	u := "ws" + strings.TrimPrefix(e.ts.URL, "http") + "/engine.io/?" + q
	d := *websocket.DefaultDialer
	d.HandshakeTimeout = 3 * time.Second
	return d.Dial(u, nil)
}

// websocket handshake: dial, read the open packet
func (e *w1Env) wsHandshake(eio string) (*websocket.Conn, string) {
	e.t.Helper()
	c, _, err := e.dialWS("EIO=" + eio + "&transport=websocket")
	if err != nil {
		e.t.Fatal(err)
	}
	m, err := w1Read(c, 2*time.Second)
	if err != nil {
		e.t.Fatalf("open packet: %v", err)
	}
	sid, err := w1ParseOpen(m)
	if err != nil {
		e.t.Fatal(err)
	}
	return c, sid
}

func w1Wait(d time.Duration, f func() bool) bool {
	dl := time.Now().Add(d)
	for time.Now().Before(dl) {
		if f() {
			return true
		}
		time.Sleep(2 * time.Millisecond)
	}
	return f()
}

func w1Read(c *websocket.Conn, d time.Duration) (string, error) {
	c.SetReadDeadline(time.Now().Add(d))
	_, b, err := c.ReadMessage()
	return string(b), err
}

// reads until the connection fails; reports whether the peer closed it (true)
// or the deadline passed with the connection still open (false)
func w1ClosedByPeer(c *websocket.Conn, d time.Duration) (closed bool, got []string) {
	c.SetReadDeadline(time.Now().Add(d))
	for {
		_, m, err := c.ReadMessage()
		if err != nil {
			if ne, ok := err.(interface{ Timeout() bool }); ok && ne.Timeout() {
				return false, got
			}
			return true, got
		}
		got = append(got, string(m))
	}
}

// upgrade of a polling session up to the answered probe; the pending poll has
// been released by the noop
func (e *w1Env) probeWS(sid string) *websocket.Conn {
	e.t.Helper()
	poll := e.pollAsync(sid, "4")
	time.Sleep(20 * time.Millisecond)
	ws, _, err := e.dialWS("EIO=4&transport=websocket&sid=" + sid)
	if err != nil {
		e.t.Fatal(err)
	}
	ws.WriteMessage(websocket.TextMessage, []byte("2probe"))
	if m, err := w1Read(ws, 2*time.Second); err != nil || m != "3probe" {
		e.t.Fatalf("probe answer %q %v", m, err)
	}
	select {
	case r := <-poll:
		if r.body != "6" {
			e.t.Fatalf("poll answered %q", r.body)
		}
	case <-time.After(2 * time.Second):
		e.t.Fatal("poll not released by noop")
	}
	return ws
}

func w1Stacks() string {
	buf := make([]byte, 8<<20)
	n := runtime.Stack(buf, true)
	return string(buf[:n])
}

// number of goroutines whose stack mentions the substring
func w1CountStacks(sub string) int {
	n := 0
	for _, g := range strings.Split(w1Stacks(), "\n\n") {
		if strings.Contains(g, sub) {
			n++
		}
	}
	return n
}

// waits for the reader / writer goroutines of the websocket transport to end
func w1NoTransportGoroutines(t *testing.T) {
	t.Helper()
	var r, s int
	if !w1Wait(3*time.Second, func() bool {
		r = w1CountStacks("transports.(*websocket).message")
		s = w1CountStacks("transports.(*websocket).send")
		return r == 0 && s == 0
	}) {
		t.Errorf("leaked transport goroutines: %d readers, %d writers", r, s)
	}
}

func (e *w1Env) checkClosed(sid string, s Socket, wantReason string) {
	e.t.Helper()
	if !w1Wait(2*time.Second, func() bool { return s.ReadyState() == "closed" }) {
		e.t.Errorf("session state %q", s.ReadyState())
	}
	w1Wait(time.Second, func() bool { return len(e.closeReasons(sid)) > 0 })
	if r := e.closeReasons(sid); len(r) != 1 || (wantReason != "" && r[0] != wantReason) {
		e.t.Errorf("close events %v, want one %q", r, wantReason)
	}
	if _, ok := e.eng.Clients().Load(sid); ok {
		e.t.Errorf("session still registered")
	}
}
