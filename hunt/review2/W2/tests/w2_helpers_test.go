package engine

import (
	"encoding/json"
	"fmt"
	"io"
	"net/http"
	"net/http/httptest"
	"runtime"
	"strings"
	"sync"
	"testing"
	"time"

	"github.com/gorilla/websocket"
	"github.com/zishang520/engine.io/v2/config"
)

type revEnv struct {
	t   *testing.T
	eng Server
	ts  *httptest.Server
	hc  *http.Client

	mu      sync.Mutex
	sockets map[string]Socket
	closes  map[string][]string
	connCh  chan Socket
	onConn  func(Socket)
}

func (e *revEnv) setOnConn(f func(Socket)) {
	e.mu.Lock()
	e.onConn = f
	e.mu.Unlock()
}

func revNew(t *testing.T, mod func(o *config.ServerOptions)) *revEnv {
	o := config.DefaultServerOptions()
	o.SetPingInterval(25 * time.Second)
	o.SetPingTimeout(20 * time.Second)
	if mod != nil {
		mod(o)
	}
	e := &revEnv{t: t, sockets: map[string]Socket{}, closes: map[string][]string{}, connCh: make(chan Socket, 256)}
	e.eng = NewServer(o)
	e.eng.On("connection", func(a ...any) {
		s := a[0].(Socket)
		e.mu.Lock()
		e.sockets[s.Id()] = s
		e.mu.Unlock()
		s.On("close", func(a ...any) {
			e.mu.Lock()
			e.closes[s.Id()] = append(e.closes[s.Id()], fmt.Sprint(a[0]))
			e.mu.Unlock()
		})
		e.mu.Lock()
		f := e.onConn
		e.mu.Unlock()
		if f != nil {
			f(s)
		}
		e.connCh <- s
	})
	e.ts = httptest.NewServer(e.eng)
	e.hc = &http.Client{Transport: &http.Transport{}}
	t.Cleanup(func() {
		e.eng.Close()
		e.ts.CloseClientConnections()
		e.ts.Close()
	})
	return e
}

func (e *revEnv) closeReasons(sid string) []string {
	e.mu.Lock()
	defer e.mu.Unlock()
	return append([]string(nil), e.closes[sid]...)
}

func (e *revEnv) url(q string) string {
	return e.ts.URL + "/engine.io/?" + q
}

// polling handshake (EIO=4 by default); returns sid and the socket
func (e *revEnv) handshake(eio string) (string, Socket) {
	resp, err := e.hc.Get(e.url("EIO=" + eio + "&transport=polling"))
	if err != nil {
		e.t.Fatal(err)
	}
	b, _ := io.ReadAll(resp.Body)
	resp.Body.Close()
	body := string(b)
	i := strings.Index(body, "{")
	if i < 0 {
		e.t.Fatalf("handshake body %q", body)
	}
	j := strings.LastIndex(body, "}")
	var h struct {
		Sid      string   `json:"sid"`
		Upgrades []string `json:"upgrades"`
	}
	if err := json.Unmarshal([]byte(body[i:j+1]), &h); err != nil {
		e.t.Fatalf("handshake body %q: %v", body, err)
	}
	s := <-e.connCh
	return h.Sid, s
}

type pollResult struct {
	code int
	body string
	err  error
}

func (e *revEnv) pollAsync(sid, eio string) chan pollResult {
	ch := make(chan pollResult, 1)
	go func() {
		resp, err := e.hc.Get(e.url("EIO=" + eio + "&transport=polling&sid=" + sid))
		if err != nil {
			ch <- pollResult{err: err}
			return
		}
		b, _ := io.ReadAll(resp.Body)
		resp.Body.Close()
		ch <- pollResult{code: resp.StatusCode, body: string(b)}
	}()
	return ch
}

func (e *revEnv) post(sid, eio, body string) (int, string) {
	resp, err := e.hc.Post(e.url("EIO="+eio+"&transport=polling&sid="+sid), "text/plain;charset=UTF-8", strings.NewReader(body))
	if err != nil {
		e.t.Fatal(err)
	}
	b, _ := io.ReadAll(resp.Body)
	resp.Body.Close()
	return resp.StatusCode, string(b)
}

func (e *revEnv) dialWS(q string) (*websocket.Conn, *http.Response, error) {
	u := "ws" + strings.TrimPrefix(e.ts.URL, "http") + "/engine.io/?" + q
	return websocket.DefaultDialer.Dial(u, nil)
}

func waitFor(d time.Duration, f func() bool) bool {
	dl := time.Now().Add(d)
	for time.Now().Before(dl) {
		if f() {
			return true
		}
		time.Sleep(2 * time.Millisecond)
	}
	return f()
}

func wsReadText(c *websocket.Conn, d time.Duration) (string, error) {
	c.SetReadDeadline(time.Now().Add(d))
	_, b, err := c.ReadMessage()
	return string(b), err
}

// probe done, poll released; returns ws ready to send "5"
func (e *revEnv) probeWS(sid string) *websocket.Conn {
	poll := e.pollAsync(sid, "4")
	time.Sleep(20 * time.Millisecond)
	ws, _, err := e.dialWS("EIO=4&transport=websocket&sid=" + sid)
	if err != nil {
		e.t.Fatal(err)
	}
	ws.WriteMessage(websocket.TextMessage, []byte("2probe"))
	if m, err := wsReadText(ws, 2*time.Second); err != nil || m != "3probe" {
		e.t.Fatalf("probe answer %q %v", m, err)
	}
	select {
	case r := <-poll:
		if r.body != "6" {
			e.t.Fatalf("poll answered %q", r.body)
		}
	case <-time.After(2 * time.Second):
		e.t.Fatal("poll not released by noop")
	}
	return ws
}

func dumpGoroutines() string {
	buf := make([]byte, 1<<20)
	n := runtime.Stack(buf, true)
	return string(buf[:n])
}
