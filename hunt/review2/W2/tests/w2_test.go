package engine

// Review W2: deferred reader start (transports.Starter). Every test compiles on
// the candidate and on its parent (nothing here names transports.Starter).

import (
	"fmt"
	"io"
	"net"
	"net/http"
	"net/http/httptest"
	"strings"
	"sync"
	"sync/atomic"
	"testing"
	"time"

	"github.com/gorilla/websocket"
	"github.com/zishang520/engine.io-go-parser/packet"
	"github.com/zishang520/engine.io/v2/config"
	"github.com/zishang520/engine.io/v2/events"
	"github.com/zishang520/engine.io/v2/transports"
	"github.com/zishang520/engine.io/v2/types"
)

// ---------------------------------------------------------------- utilities

// goroutines that run code of this module (reader goroutines, timers' callbacks,
// HttpContext watchers ...), test goroutines excluded
func moduleGoroutines() (int, string) {
	var n int
	var kept []string
	for _, g := range strings.Split(dumpGoroutines(), "\n\n") {
		if !strings.Contains(g, "engine.io/v2/") {
			continue
		}
		if strings.Contains(g, "testing.tRunner") || strings.Contains(g, "engine.TestW2") || strings.Contains(g, "_test.go") {
			continue
		}
		n++
		kept = append(kept, g)
	}
	return n, strings.Join(kept, "\n\n")
}

func expectNoModuleGoroutines(t *testing.T, base int) {
	t.Helper()
	ok := waitFor(3*time.Second, func() bool { n, _ := moduleGoroutines(); return n <= base })
	if !ok {
		n, dump := moduleGoroutines()
		t.Errorf("goroutine leak: %d module goroutines, baseline %d\n%s", n, base, dump)
	}
}

// the server closed the connection: a read ends with something that is not a timeout
func expectConnClosed(t *testing.T, c *websocket.Conn, within time.Duration, what string) {
	t.Helper()
	c.SetReadDeadline(time.Now().Add(within))
	for {
		_, m, err := c.ReadMessage()
		if err != nil {
			if ne, ok := err.(net.Error); ok && ne.Timeout() {
				t.Errorf("%s: connection left open by the server (read timed out after %v)", what, within)
			}
			return
		}
		t.Logf("%s: got %q before close", what, m)
	}
}

func expectClosedSession(t *testing.T, e *revEnv, s Socket, within time.Duration, reasons ...string) {
	t.Helper()
	if !waitFor(within, func() bool { return s.ReadyState() == "closed" }) {
		t.Errorf("session %s not closed within %v: state %s", s.Id(), within, s.ReadyState())
		return
	}
	if !waitFor(time.Second, func() bool { _, ok := e.eng.Clients().Load(s.Id()); return !ok }) {
		t.Errorf("session %s closed but still registered", s.Id())
	}
	if len(reasons) > 0 {
		waitFor(time.Second, func() bool { return len(e.closeReasons(s.Id())) > 0 })
		r := e.closeReasons(s.Id())
		if len(r) != 1 {
			t.Errorf("close events seen by the application: %v (want exactly one)", r)
			return
		}
		for _, w := range reasons {
			if r[0] == w {
				return
			}
		}
		t.Errorf("close reason %q, want one of %v", r[0], reasons)
	}
}

func fastHeartbeat(o *config.ServerOptions) {
	o.SetPingInterval(100 * time.Millisecond)
	o.SetPingTimeout(150 * time.Millisecond)
	o.SetAllowEIO3(true)
}

func (e *revEnv) probe(sid, eio string) *websocket.Conn {
	e.t.Helper()
	poll := e.pollAsync(sid, eio)
	time.Sleep(20 * time.Millisecond)
	ws, _, err := e.dialWS("EIO=" + eio + "&transport=websocket&sid=" + sid)
	if err != nil {
		e.t.Fatal(err)
	}
	ws.WriteMessage(websocket.TextMessage, []byte("2probe"))
	if m, err := wsReadText(ws, 2*time.Second); err != nil || m != "3probe" {
		e.t.Fatalf("probe answer %q %v", m, err)
	}
	select {
	case <-poll: // a noop, or a ping when the interval is short
	case <-time.After(2 * time.Second):
		e.t.Fatal("poll not released by noop")
	}
	return ws
}

// ------------------------------------------------- 3. ordering and heartbeat

// The defect the candidate repairs: frames sent before the application has the
// session. Also checks the order.
func TestW2_WSStart_EarlyFramesDeliveredInOrder(t *testing.T) {
	for _, eio := range []string{"4", "3"} {
		t.Run("EIO"+eio, func(t *testing.T) {
			e := revNew(t, func(o *config.ServerOptions) { o.SetAllowEIO3(true) })
			var mu sync.Mutex
			var got []string
			e.setOnConn(func(s Socket) {
				time.Sleep(50 * time.Millisecond) // a listener that does some work first
				s.On("message", func(a ...any) {
					b, _ := io.ReadAll(a[0].(io.Reader))
					mu.Lock()
					got = append(got, string(b))
					mu.Unlock()
				})
			})
			ws, _, err := e.dialWS("EIO=" + eio + "&transport=websocket")
			if err != nil {
				t.Fatal(err)
			}
			defer ws.Close()
			// does not even wait for the open packet
			var want []string
			for i := 0; i < 20; i++ {
				m := fmt.Sprintf("m%02d", i)
				want = append(want, m)
				ws.WriteMessage(websocket.TextMessage, []byte("4"+m))
			}
			<-e.connCh
			waitFor(2*time.Second, func() bool { mu.Lock(); defer mu.Unlock(); return len(got) == len(want) })
			mu.Lock()
			defer mu.Unlock()
			if strings.Join(got, ",") != strings.Join(want, ",") {
				t.Errorf("delivered %v\nwant %v", got, want)
			}
		})
	}
}

func TestW2_WSStart_Heartbeat_EIO4(t *testing.T) {
	e := revNew(t, fastHeartbeat)
	ws, _, err := e.dialWS("EIO=4&transport=websocket")
	if err != nil {
		t.Fatal(err)
	}
	defer ws.Close()
	s := <-e.connCh
	var beats atomic.Int32
	s.On("heartbeat", func(...any) { beats.Add(1) })
	if m, err := wsReadText(ws, time.Second); err != nil || !strings.HasPrefix(m, "0{") {
		t.Fatalf("open packet %q %v", m, err)
	}
	for i := 0; i < 6; i++ {
		m, err := wsReadText(ws, time.Second)
		if err != nil || m != "2" {
			t.Fatalf("ping %d: %q %v (state %s, reasons %v)", i, m, err, s.ReadyState(), e.closeReasons(s.Id()))
		}
		ws.WriteMessage(websocket.TextMessage, []byte("3"))
	}
	waitFor(time.Second, func() bool { return beats.Load() >= 6 })
	if beats.Load() < 6 || s.ReadyState() != "open" {
		t.Fatalf("heartbeats %d state %s reasons %v", beats.Load(), s.ReadyState(), e.closeReasons(s.Id()))
	}
	// the client falls silent
	expectClosedSession(t, e, s, 2*time.Second, "ping timeout")
	expectConnClosed(t, ws, 2*time.Second, "silent client")
}

func TestW2_WSStart_Heartbeat_EIO3(t *testing.T) {
	e := revNew(t, fastHeartbeat)
	ws, _, err := e.dialWS("EIO=3&transport=websocket")
	if err != nil {
		t.Fatal(err)
	}
	defer ws.Close()
	s := <-e.connCh
	var beats atomic.Int32
	s.On("heartbeat", func(...any) { beats.Add(1) })
	if m, err := wsReadText(ws, time.Second); err != nil || !strings.HasPrefix(m, "0{") {
		t.Fatalf("open packet %q %v", m, err)
	}
	for i := 0; i < 6; i++ {
		ws.WriteMessage(websocket.TextMessage, []byte("2"))
		m, err := wsReadText(ws, time.Second)
		if err != nil || m != "3" {
			t.Fatalf("pong %d: %q %v (state %s, reasons %v)", i, m, err, s.ReadyState(), e.closeReasons(s.Id()))
		}
		time.Sleep(100 * time.Millisecond) // 600 ms in all > interval+timeout: every ping re-arms
	}
	if beats.Load() != 6 || s.ReadyState() != "open" {
		t.Fatalf("heartbeats %d state %s reasons %v", beats.Load(), s.ReadyState(), e.closeReasons(s.Id()))
	}
	start := time.Now()
	expectClosedSession(t, e, s, 2*time.Second, "ping timeout")
	if d := time.Since(start); d < 100*time.Millisecond {
		t.Errorf("ping timeout after %v only", d)
	}
	expectConnClosed(t, ws, 2*time.Second, "silent client")
}

func TestW2_Upgrade_Heartbeat(t *testing.T) {
	for _, eio := range []string{"4", "3"} {
		t.Run("EIO"+eio, func(t *testing.T) {
			// the first ping comes after the switch: a ping left unanswered on
			// polling is a different (older) story, see review.md
			e := revNew(t, func(o *config.ServerOptions) {
				o.SetPingInterval(400 * time.Millisecond)
				o.SetPingTimeout(200 * time.Millisecond)
				o.SetAllowEIO3(true)
			})
			sid, s := e.handshake(eio)
			var beats atomic.Int32
			s.On("heartbeat", func(...any) { beats.Add(1) })
			var mu sync.Mutex
			var got []string
			s.On("message", func(a ...any) {
				b, _ := io.ReadAll(a[0].(io.Reader))
				mu.Lock()
				got = append(got, string(b))
				mu.Unlock()
			})
			ws := e.probe(sid, eio)
			defer ws.Close()
			// upgrade and messages in one burst, no wait in between
			ws.WriteMessage(websocket.TextMessage, []byte("5"))
			for i := 0; i < 10; i++ {
				ws.WriteMessage(websocket.TextMessage, []byte(fmt.Sprintf("4u%d", i)))
			}
			if !waitFor(time.Second, func() bool { return s.Upgraded() && s.Transport().Name() == "websocket" }) {
				t.Fatalf("not upgraded: %s", s.Transport().Name())
			}
			waitFor(time.Second, func() bool { mu.Lock(); defer mu.Unlock(); return len(got) == 10 })
			mu.Lock()
			if strings.Join(got, ",") != "u0,u1,u2,u3,u4,u5,u6,u7,u8,u9" {
				t.Errorf("after upgrade delivered %v", got)
			}
			mu.Unlock()
			before := beats.Load()
			if eio == "4" {
				n := 0
				for n < 5 {
					m, err := wsReadText(ws, time.Second)
					if err != nil {
						t.Fatalf("read: %v (state %s, reasons %v)", err, s.ReadyState(), e.closeReasons(sid))
					}
					if m == "2" {
						n++
						ws.WriteMessage(websocket.TextMessage, []byte("3"))
					}
				}
			} else {
				for i := 0; i < 5; i++ {
					ws.WriteMessage(websocket.TextMessage, []byte("2"))
					for {
						m, err := wsReadText(ws, time.Second)
						if err != nil {
							t.Fatalf("read: %v (state %s, reasons %v)", err, s.ReadyState(), e.closeReasons(sid))
						}
						if m == "3" {
							break
						}
					}
					time.Sleep(100 * time.Millisecond)
				}
			}
			waitFor(time.Second, func() bool { return beats.Load()-before >= 5 })
			if beats.Load()-before < 5 || s.ReadyState() != "open" {
				t.Fatalf("heartbeats after upgrade %d, state %s, reasons %v", beats.Load()-before, s.ReadyState(), e.closeReasons(sid))
			}
			expectClosedSession(t, e, s, 2*time.Second, "ping timeout")
			expectConnClosed(t, ws, 2*time.Second, "silent client")
		})
	}
}

// Defect (2) of the candidate's description: the probe sent at once.
func TestW2_Upgrade_ProbeSentAtOnce(t *testing.T) {
	e := revNew(t, nil)
	slow := 0
	for i := 0; i < 60; i++ {
		sid, s := e.handshake("4")
		poll := e.pollAsync(sid, "4")
		ws, _, err := e.dialWS("EIO=4&transport=websocket&sid=" + sid)
		if err != nil {
			t.Fatal(err)
		}
		ws.WriteMessage(websocket.TextMessage, []byte("2probe"))
		if m, err := wsReadText(ws, 500*time.Millisecond); err != nil || m != "3probe" {
			slow++
		} else {
			ws.WriteMessage(websocket.TextMessage, []byte("5"))
			if !waitFor(time.Second, func() bool { return s.Upgraded() }) {
				t.Errorf("round %d: probe answered, upgrade not completed", i)
			}
		}
		ws.Close()
		s.Close(true)
		<-poll
	}
	if slow > 0 {
		t.Errorf("%d of 60 probes unanswered within 500 ms", slow)
	}
}

// ---------------------------------------------- 2. paths that refuse a candidate

func TestW2_Refuse_UnknownSid(t *testing.T) {
	e := revNew(t, nil)
	base, _ := moduleGoroutines()
	ws, resp, err := e.dialWS("EIO=4&transport=websocket&sid=nosuchsession")
	if err == nil {
		defer ws.Close()
		expectConnClosed(t, ws, time.Second, "unknown sid")
	} else if resp == nil || resp.StatusCode != 400 {
		t.Errorf("dial: %v %v", err, resp)
	}
	expectNoModuleGoroutines(t, base)
}

func TestW2_Refuse_SecondCandidateWhileUpgrading(t *testing.T) {
	e := revNew(t, nil)
	sid, s := e.handshake("4")
	ws1 := e.probe(sid, "4")
	defer ws1.Close()
	if !s.Upgrading() {
		t.Fatal("not upgrading")
	}
	base, _ := moduleGoroutines()
	for i := 0; i < 5; i++ {
		ws2, _, err := e.dialWS("EIO=4&transport=websocket&sid=" + sid)
		if err != nil {
			t.Fatal(err)
		}
		ws2.WriteMessage(websocket.TextMessage, []byte("2probe"))
		expectConnClosed(t, ws2, time.Second, "second candidate")
		ws2.Close()
	}
	expectNoModuleGoroutines(t, base)
	// the first candidate is unharmed
	ws1.WriteMessage(websocket.TextMessage, []byte("5"))
	if !waitFor(time.Second, func() bool { return s.Upgraded() && s.Transport().Name() == "websocket" }) {
		t.Fatalf("first candidate did not complete")
	}
	got := make(chan string, 1)
	s.On("message", func(a ...any) { b, _ := io.ReadAll(a[0].(io.Reader)); got <- string(b) })
	ws1.WriteMessage(websocket.TextMessage, []byte("4hi"))
	select {
	case m := <-got:
		if m != "hi" {
			t.Errorf("got %q", m)
		}
	case <-time.After(time.Second):
		t.Errorf("message over the upgraded transport not delivered")
	}
}

func TestW2_Refuse_AlreadyUpgraded(t *testing.T) {
	e := revNew(t, nil)
	sid, s := e.handshake("4")
	ws1 := e.probe(sid, "4")
	defer ws1.Close()
	ws1.WriteMessage(websocket.TextMessage, []byte("5"))
	if !waitFor(time.Second, func() bool { return s.Upgraded() }) {
		t.Fatal("not upgraded")
	}
	time.Sleep(50 * time.Millisecond)
	base, _ := moduleGoroutines()
	for i := 0; i < 5; i++ {
		ws2, _, err := e.dialWS("EIO=4&transport=websocket&sid=" + sid)
		if err != nil {
			t.Fatal(err)
		}
		expectConnClosed(t, ws2, time.Second, "candidate after upgrade")
		ws2.Close()
	}
	expectNoModuleGoroutines(t, base)
	if s.ReadyState() != "open" {
		t.Errorf("session %s", s.ReadyState())
	}
}

// session that started on websocket: websocket does not upgrade to websocket
func TestW2_Refuse_TransportNotOffered(t *testing.T) {
	e := revNew(t, nil)
	ws, _, err := e.dialWS("EIO=4&transport=websocket")
	if err != nil {
		t.Fatal(err)
	}
	defer ws.Close()
	s := <-e.connCh
	wsReadText(ws, time.Second)
	base, _ := moduleGoroutines()
	for i := 0; i < 5; i++ {
		ws2, _, err := e.dialWS("EIO=4&transport=websocket&sid=" + s.Id())
		if err != nil {
			t.Fatal(err)
		}
		expectConnClosed(t, ws2, time.Second, "candidate for a websocket session")
		ws2.Close()
	}
	expectNoModuleGoroutines(t, base)
	// allowUpgrades=false: polling offers nothing
	e2 := revNew(t, func(o *config.ServerOptions) { o.SetAllowUpgrades(false) })
	sid, _ := e2.handshake("4")
	ws3, _, err := e2.dialWS("EIO=4&transport=websocket&sid=" + sid)
	if err != nil {
		t.Fatal(err)
	}
	expectConnClosed(t, ws3, time.Second, "candidate with upgrades disabled")
	ws3.Close()
}

// a real websocket transport handed to MaybeUpgrade directly: the refusals that
// only a race reaches through the server (CAS lost, upgraded meanwhile, session
// closed meanwhile)
type wsFactory struct {
	ts *httptest.Server
	ch chan *types.HttpContext
}

func newWSFactory(t *testing.T) *wsFactory {
	f := &wsFactory{ch: make(chan *types.HttpContext, 4)}
	up := &websocket.Upgrader{}
	f.ts = httptest.NewServer(http.HandlerFunc(func(w http.ResponseWriter, r *http.Request) {
		ctx := types.NewHttpContext(w, r)
		conn, err := up.Upgrade(w, r, nil)
		if err != nil {
			t.Error(err)
			return
		}
		ctx.Websocket = &types.WebSocketConn{EventEmitter: events.New(), Conn: conn}
		f.ch <- ctx
	}))
	t.Cleanup(f.ts.Close)
	return f
}

func (f *wsFactory) pair(t *testing.T) (*types.HttpContext, *websocket.Conn) {
	c, _, err := websocket.DefaultDialer.Dial("ws"+strings.TrimPrefix(f.ts.URL, "http")+"/?EIO=4&transport=websocket", nil)
	if err != nil {
		t.Fatal(err)
	}
	return <-f.ch, c
}

func TestW2_Refuse_InsideMaybeUpgrade(t *testing.T) {
	f := newWSFactory(t)

	t.Run("lost the upgrading CAS", func(t *testing.T) {
		e := revNew(t, nil)
		sid, s := e.handshake("4")
		ws1 := e.probe(sid, "4")
		defer ws1.Close()
		base, _ := moduleGoroutines()
		ctx, client := f.pair(t)
		defer client.Close()
		s.MaybeUpgrade(transports.Transports()[transports.WEBSOCKET].New(ctx)) // what the engine uses
		expectConnClosed(t, client, time.Second, "candidate that lost the CAS")
		expectNoModuleGoroutines(t, base)
		if !s.Upgrading() {
			t.Errorf("the first attempt was disturbed")
		}
	})

	t.Run("upgraded meanwhile", func(t *testing.T) {
		e := revNew(t, nil)
		sid, s := e.handshake("4")
		ws1 := e.probe(sid, "4")
		defer ws1.Close()
		ws1.WriteMessage(websocket.TextMessage, []byte("5"))
		waitFor(time.Second, func() bool { return s.Upgraded() })
		time.Sleep(30 * time.Millisecond)
		base, _ := moduleGoroutines()
		ctx, client := f.pair(t)
		defer client.Close()
		s.MaybeUpgrade(transports.Transports()[transports.WEBSOCKET].New(ctx)) // what the engine uses
		expectConnClosed(t, client, time.Second, "candidate after the switch")
		expectNoModuleGoroutines(t, base)
		if s.Upgrading() {
			t.Errorf("upgrading left set")
		}
	})

	t.Run("session closed meanwhile", func(t *testing.T) {
		e := revNew(t, nil)
		_, s := e.handshake("4")
		s.Close(true)
		waitFor(time.Second, func() bool { return s.ReadyState() == "closed" })
		time.Sleep(30 * time.Millisecond)
		base, _ := moduleGoroutines()
		ctx, client := f.pair(t)
		defer client.Close()
		client.WriteMessage(websocket.TextMessage, []byte("2probe"))
		up := false
		s.On("upgrading", func(...any) { up = true })
		s.MaybeUpgrade(transports.Transports()[transports.WEBSOCKET].New(ctx)) // what the engine uses
		expectConnClosed(t, client, time.Second, "candidate of a closed session")
		expectNoModuleGoroutines(t, base)
		if s.Upgrading() || up {
			t.Errorf("upgrading=%v, 'upgrading' emitted=%v", s.Upgrading(), up)
		}
	})

	t.Run("session closes while the candidate probes", func(t *testing.T) {
		e := revNew(t, nil)
		sid, s := e.handshake("4")
		ws1 := e.probe(sid, "4")
		defer ws1.Close()
		s.Close(true)
		expectClosedSession(t, e, s, time.Second, "forced close")
		expectConnClosed(t, ws1, time.Second, "candidate of a session closed during the probe")
		if s.Upgrading() {
			t.Errorf("upgrading left set")
		}
	})

	t.Run("candidate goes away before the probe", func(t *testing.T) {
		e := revNew(t, func(o *config.ServerOptions) { o.SetUpgradeTimeout(5 * time.Second) })
		sid, s := e.handshake("4")
		for i := 0; i < 20; i++ {
			ws, _, err := e.dialWS("EIO=4&transport=websocket&sid=" + sid)
			if err != nil {
				t.Fatal(err)
			}
			if i%2 == 0 {
				ws.UnderlyingConn().Close() // abrupt
			} else {
				ws.WriteControl(websocket.CloseMessage, websocket.FormatCloseMessage(1000, ""), time.Now().Add(time.Second))
				ws.Close()
			}
			// the attempt must end at once (not at the upgrade timeout)
			if !waitFor(time.Second, func() bool { return !s.Upgrading() }) {
				t.Fatalf("round %d: attempt of a vanished candidate still pending after 1 s", i)
			}
		}
		if s.ReadyState() != "open" {
			t.Errorf("session %s", s.ReadyState())
		}
	})
}

// ----------------------------------- 2. the application closes in 'connection'

func TestW2_ConnectionListenerCloses(t *testing.T) {
	cases := []struct {
		name string
		f    func(Socket)
	}{
		{"Close(true)", func(s Socket) { s.Close(true) }},
		{"Close(false)", func(s Socket) { s.Close(false) }},
		{"Send+Close(false)", func(s Socket) { s.Send(strings.NewReader("bye"), nil, nil); s.Close(false) }},
	}
	for _, c := range cases {
		for _, eio := range []string{"4", "3"} {
			t.Run(c.name+"/EIO"+eio, func(t *testing.T) {
				e := revNew(t, func(o *config.ServerOptions) { o.SetAllowEIO3(true) })
				base, _ := moduleGoroutines()
				e.setOnConn(c.f)
				ws, _, err := e.dialWS("EIO=" + eio + "&transport=websocket")
				if err != nil {
					t.Fatal(err)
				}
				defer ws.Close()
				ws.WriteMessage(websocket.TextMessage, []byte("4early"))
				s := <-e.connCh
				expectClosedSession(t, e, s, time.Second, "forced close")
				var seen []string
				ws.SetReadDeadline(time.Now().Add(time.Second))
				for {
					_, m, err := ws.ReadMessage()
					if err != nil {
						if ne, ok := err.(net.Error); ok && ne.Timeout() {
							t.Errorf("connection left open")
						}
						break
					}
					seen = append(seen, string(m))
				}
				if c.name == "Send+Close(false)" && (len(seen) != 2 || seen[1] != "4bye") {
					// fails about every other run on the candidate AND on its parent:
					// Close(false) does not wait for the websocket write in flight
					t.Logf("SIDE (not the candidate's): client saw %q, want open packet and 4bye", seen)
				}
				expectNoModuleGoroutines(t, base)
			})
		}
	}
}

func TestW2_ServerCloseDuringHandshake(t *testing.T) {
	e := revNew(t, nil)
	base, _ := moduleGoroutines()
	inListener := make(chan struct{})
	release := make(chan struct{})
	e.setOnConn(func(s Socket) {
		close(inListener)
		<-release
	})
	ws, _, err := e.dialWS("EIO=4&transport=websocket")
	if err != nil {
		t.Fatal(err)
	}
	defer ws.Close()
	<-inListener
	done := make(chan struct{})
	go func() { e.eng.Close(); close(done) }()
	select {
	case <-done:
	case <-time.After(2 * time.Second):
		t.Fatalf("Server.Close() blocked while a connection listener runs\n%s", dumpGoroutines())
	}
	close(release)
	s := <-e.connCh
	expectClosedSession(t, e, s, time.Second, "forced close")
	expectConnClosed(t, ws, time.Second, "session closed by Server.Close")
	expectNoModuleGoroutines(t, base)
}

// ----------------------- 2. the client goes away right after the 101 response

func TestW2_ClientVanishesAfter101(t *testing.T) {
	kinds := []struct {
		name string
		f    func(*websocket.Conn)
	}{
		{"tcp close", func(c *websocket.Conn) { c.UnderlyingConn().Close() }},
		{"tcp reset", func(c *websocket.Conn) {
			c.UnderlyingConn().(*net.TCPConn).SetLinger(0)
			c.UnderlyingConn().Close()
		}},
		{"close frame", func(c *websocket.Conn) {
			c.WriteControl(websocket.CloseMessage, websocket.FormatCloseMessage(1000, ""), time.Now().Add(time.Second))
			c.UnderlyingConn().Close()
		}},
		{"message then close frame", func(c *websocket.Conn) {
			c.WriteMessage(websocket.TextMessage, []byte("4last words"))
			c.WriteControl(websocket.CloseMessage, websocket.FormatCloseMessage(1000, ""), time.Now().Add(time.Second))
			c.UnderlyingConn().Close()
		}},
	}
	for _, k := range kinds {
		for _, listener := range []time.Duration{0, 150 * time.Millisecond} {
			t.Run(fmt.Sprintf("%s/listener %v", k.name, listener), func(t *testing.T) {
				e := revNew(t, nil)
				base, _ := moduleGoroutines()
				var mu sync.Mutex
				var msgs []string
				var closedSeenByApp atomic.Bool
				e.setOnConn(func(s Socket) {
					time.Sleep(listener)
					s.On("message", func(a ...any) {
						b, _ := io.ReadAll(a[0].(io.Reader))
						mu.Lock()
						msgs = append(msgs, string(b))
						mu.Unlock()
					})
					s.On("close", func(...any) { closedSeenByApp.Store(true) })
				})
				ws, _, err := e.dialWS("EIO=4&transport=websocket")
				if err != nil {
					t.Fatal(err)
				}
				k.f(ws)
				start := time.Now()
				s := <-e.connCh
				if !waitFor(2*time.Second, func() bool { return s.ReadyState() == "closed" }) {
					t.Fatalf("session not closed 2 s after the client went away (state %s)", s.ReadyState())
				}
				t.Logf("closed %v after the client left; reasons seen by a listener attached in 'connection': %v; app saw close: %v",
					time.Since(start).Round(time.Millisecond), e.closeReasons(s.Id()), closedSeenByApp.Load())
				// (the state is stored before the close event is emitted)
				if !waitFor(time.Second, func() bool { _, ok := e.eng.Clients().Load(s.Id()); return !ok }) {
					t.Errorf("still registered")
				}
				if !waitFor(time.Second, func() bool { return e.eng.ClientsCount() == 0 }) {
					t.Errorf("clientsCount %d", e.eng.ClientsCount())
				}
				waitFor(300*time.Millisecond, func() bool { return closedSeenByApp.Load() })
				if !closedSeenByApp.Load() {
					if r := e.closeReasons(s.Id()); len(r) == 0 || r[0] == "transport error" {
						// the write of the open packet failed: that close precedes
						// 'connection' on the candidate and on its parent alike
						t.Logf("RESIDUAL (both trees): closed by a write error before 'connection', the application never saw the close event")
						return
					}
					t.Errorf("the application (listener attached in 'connection') never saw the close event")
				}
				if r := e.closeReasons(s.Id()); len(r) == 1 && r[0] != "transport close" && r[0] != "transport error" {
					t.Errorf("reason %q", r[0])
				}
				if k.name == "message then close frame" {
					mu.Lock()
					if len(msgs) != 1 || msgs[0] != "last words" {
						t.Errorf("messages delivered: %q", msgs)
					}
					mu.Unlock()
				}
				expectNoModuleGoroutines(t, base)
			})
		}
	}
}

// ------------------------------------------------------------ 6. compatibility

// The module's own extension idiom: the concrete transport types are not
// exported, Make*/New* return the interfaces transports.Websocket / Transport,
// so an extension embeds the interface, calls Prototype(self) and overrides
// what it needs. Start() is not in those interfaces: it is not promoted.
type countingWS struct {
	transports.Websocket
	sent *atomic.Int64
}

func (c *countingWS) Send(p []*packet.Packet) {
	c.sent.Add(int64(len(p)))
	c.Websocket.Send(p)
}

type countingBuilder struct {
	transports.TransportCtor
	sent *atomic.Int64
}

func (b *countingBuilder) New(ctx *types.HttpContext) transports.Transport {
	w := &countingWS{Websocket: transports.MakeWebSocket(), sent: b.sent}
	w.Prototype(w)
	w.Construct(ctx)
	return w
}

func withCountingWebsocket(t *testing.T) *atomic.Int64 {
	sent := new(atomic.Int64)
	orig := transports.Transports()[transports.WEBSOCKET]
	transports.Transports()[transports.WEBSOCKET] = &countingBuilder{TransportCtor: orig, sent: sent}
	t.Cleanup(func() { transports.Transports()[transports.WEBSOCKET] = orig })
	return sent
}

func TestW2_Compat_EmbeddingWrapper_WSStart(t *testing.T) {
	sent := withCountingWebsocket(t)
	e := revNew(t, fastHeartbeat)
	got := make(chan string, 4)
	e.setOnConn(func(s Socket) {
		s.On("message", func(a ...any) { b, _ := io.ReadAll(a[0].(io.Reader)); got <- string(b) })
	})
	ws, _, err := e.dialWS("EIO=4&transport=websocket")
	if err != nil {
		t.Fatal(err)
	}
	defer ws.Close()
	s := <-e.connCh
	if m, err := wsReadText(ws, time.Second); err != nil || !strings.HasPrefix(m, "0{") {
		t.Fatalf("open packet %q %v", m, err)
	}
	ws.WriteMessage(websocket.TextMessage, []byte("4hello"))
	select {
	case m := <-got:
		if m != "hello" {
			t.Errorf("got %q", m)
		}
	case <-time.After(time.Second):
		t.Errorf("session deaf: message sent over a wrapped websocket transport not delivered within 1 s")
	}
	// answer the pings: a deaf session times out all the same
	go func() {
		for {
			m, err := wsReadText(ws, time.Second)
			if err != nil {
				return
			}
			if m == "2" {
				ws.WriteMessage(websocket.TextMessage, []byte("3"))
			}
		}
	}()
	time.Sleep(600 * time.Millisecond)
	if s.ReadyState() != "open" {
		t.Errorf("session %s (%v) although the client answers every ping", s.ReadyState(), e.closeReasons(s.Id()))
	}
	if sent.Load() == 0 {
		t.Errorf("wrapper not in use")
	}
}

func TestW2_Compat_EmbeddingWrapper_Upgrade(t *testing.T) {
	withCountingWebsocket(t)
	e := revNew(t, func(o *config.ServerOptions) { o.SetUpgradeTimeout(time.Second) })
	sid, s := e.handshake("4")
	poll := e.pollAsync(sid, "4")
	ws, _, err := e.dialWS("EIO=4&transport=websocket&sid=" + sid)
	if err != nil {
		t.Fatal(err)
	}
	defer ws.Close()
	time.Sleep(50 * time.Millisecond) // generous: the parent needs its listeners attached
	ws.WriteMessage(websocket.TextMessage, []byte("2probe"))
	if m, err := wsReadText(ws, 500*time.Millisecond); err != nil || m != "3probe" {
		t.Errorf("probe over a wrapped websocket transport unanswered: %q %v", m, err)
	}
	s.Close(true)
	<-poll
}

// A CreateTransport override that decorates what the registered constructor returns.
type decoratingServer struct {
	Server
}
type decorated struct {
	transports.Transport
}

func (d *decoratingServer) CreateTransport(name string, ctx *types.HttpContext) (transports.Transport, error) {
	t, err := d.Server.CreateTransport(name, ctx)
	if err != nil {
		return nil, err
	}
	return &decorated{t}, nil
}

func TestW2_Compat_CreateTransportOverride(t *testing.T) {
	inner := MakeServer()
	d := &decoratingServer{Server: inner}
	inner.Prototype(d)
	inner.Construct(config.DefaultServerOptions())
	got := make(chan string, 1)
	inner.On("connection", func(a ...any) {
		a[0].(Socket).On("message", func(a ...any) { b, _ := io.ReadAll(a[0].(io.Reader)); got <- string(b) })
	})
	ts := httptest.NewServer(inner)
	defer ts.Close()
	defer inner.Close()
	ws, _, err := websocket.DefaultDialer.Dial("ws"+strings.TrimPrefix(ts.URL, "http")+"/engine.io/?EIO=4&transport=websocket", nil)
	if err != nil {
		t.Fatal(err)
	}
	defer ws.Close()
	wsReadText(ws, time.Second)
	ws.WriteMessage(websocket.TextMessage, []byte("4hello"))
	select {
	case <-got:
	case <-time.After(time.Second):
		t.Errorf("session deaf: transport decorated in a CreateTransport override is never started")
	}
}

// Code outside the module that builds the session itself.
func TestW2_Compat_ExternalSessionBuilder(t *testing.T) {
	f := newWSFactory(t)
	srv := NewServer(config.DefaultServerOptions())
	defer srv.Close()
	ctx, client := f.pair(t)
	defer client.Close()
	tr := transports.NewWebSocket(ctx)
	s := NewSocket("external-1", srv, tr, ctx, 4)
	got := make(chan string, 1)
	s.On("message", func(a ...any) { b, _ := io.ReadAll(a[0].(io.Reader)); got <- string(b) })
	if m, err := wsReadText(client, time.Second); err != nil || !strings.HasPrefix(m, "0{") {
		t.Fatalf("open packet %q %v", m, err)
	}
	client.WriteMessage(websocket.TextMessage, []byte("4hello"))
	select {
	case <-got:
	case <-time.After(time.Second):
		t.Errorf("session deaf: NewSocket(…, transports.NewWebSocket(ctx), …) reads nothing unless the caller knows to call Start()")
	}
	s.Close(true)
}

// A connection listener that waits for the client's first message (authentication
// before the session is handed on).
func TestW2_Compat_ListenerWaitsForFirstMessage(t *testing.T) {
	e := revNew(t, nil)
	result := make(chan string, 1)
	e.setOnConn(func(s Socket) {
		first := make(chan string, 1)
		s.Once("message", func(a ...any) { b, _ := io.ReadAll(a[0].(io.Reader)); first <- string(b) })
		select {
		case m := <-first:
			result <- m
		case <-time.After(time.Second):
			result <- "<timeout>"
		}
	})
	ws, _, err := e.dialWS("EIO=4&transport=websocket")
	if err != nil {
		t.Fatal(err)
	}
	defer ws.Close()
	wsReadText(ws, time.Second)
	time.Sleep(30 * time.Millisecond)
	ws.WriteMessage(websocket.TextMessage, []byte("4token"))
	if r := <-result; r != "token" {
		t.Errorf("listener waiting for the first message got %s", r)
	}
}

// A connection listener that takes longer than the heartbeat allows: the pongs
// (EIO 4) or pings (EIO 3) of a client that does everything right stay unread.
func TestW2_SlowListenerVersusHeartbeat(t *testing.T) {
	for _, eio := range []string{"4", "3"} {
		t.Run("EIO"+eio, func(t *testing.T) {
			e := revNew(t, fastHeartbeat) // interval 100 ms, timeout 150 ms
			e.setOnConn(func(s Socket) { time.Sleep(600 * time.Millisecond) })
			ws, _, err := e.dialWS("EIO=" + eio + "&transport=websocket")
			if err != nil {
				t.Fatal(err)
			}
			defer ws.Close()
			stop := make(chan struct{})
			defer close(stop)
			if eio == "4" {
				go func() {
					for {
						m, err := wsReadText(ws, time.Second)
						if err != nil {
							return
						}
						if m == "2" {
							ws.WriteMessage(websocket.TextMessage, []byte("3"))
						}
					}
				}()
			} else {
				go func() {
					for {
						select {
						case <-stop:
							return
						case <-time.After(80 * time.Millisecond):
							ws.WriteMessage(websocket.TextMessage, []byte("2"))
						}
					}
				}()
			}
			s := <-e.connCh
			time.Sleep(100 * time.Millisecond)
			if s.ReadyState() != "open" {
				t.Errorf("session %s (%v): the client kept the heartbeat, the server did not read it while the connection listener ran", s.ReadyState(), e.closeReasons(s.Id()))
			}
		})
	}
}

// A connection listener that panics (net/http recovers the handler, the hijacked
// connection and the registered session stay).
func TestW2_ListenerPanics(t *testing.T) {
	e := revNew(t, fastHeartbeat)
	e.ts.Config.ErrorLog = nil
	got := make(chan string, 1)
	var sock atomic.Value
	e.setOnConn(func(s Socket) {
		sock.Store(s)
		s.On("message", func(a ...any) { b, _ := io.ReadAll(a[0].(io.Reader)); got <- string(b) })
		panic(http.ErrAbortHandler) // quiet
	})
	ws, _, err := e.dialWS("EIO=4&transport=websocket")
	if err != nil {
		t.Fatal(err)
	}
	defer ws.Close()
	wsReadText(ws, time.Second)
	ws.WriteMessage(websocket.TextMessage, []byte("4hello"))
	select {
	case <-got:
	case <-time.After(time.Second):
		s, _ := sock.Load().(Socket)
		t.Errorf("session deaf after a panic in a connection listener (state %s)", s.ReadyState())
	}
}

// The way out for a listener that needs the client's next frame before it
// returns: start the reader itself, once its own listeners are attached.
func TestW2_ListenerStartsTheReaderItself(t *testing.T) {
	e := revNew(t, nil)
	result := make(chan string, 1)
	e.setOnConn(func(s Socket) {
		first := make(chan string, 1)
		s.Once("message", func(a ...any) { b, _ := io.ReadAll(a[0].(io.Reader)); first <- string(b) })
		if st, ok := s.Transport().(interface{ Start() }); ok {
			st.Start()
		} else {
			result <- "<no Start on the session's transport>"
			return
		}
		select {
		case m := <-first:
			result <- m
		case <-time.After(time.Second):
			result <- "<timeout>"
		}
	})
	ws, _, err := e.dialWS("EIO=4&transport=websocket")
	if err != nil {
		t.Fatal(err)
	}
	defer ws.Close()
	ws.WriteMessage(websocket.TextMessage, []byte("4token"))
	ws.WriteMessage(websocket.TextMessage, []byte("4second"))
	if r := <-result; r != "token" {
		if strings.HasPrefix(r, "<no Start") {
			t.Skip(r)
		}
		t.Errorf("got %s", r)
	}
}
