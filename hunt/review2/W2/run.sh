#!/bin/sh
# usage: run.sh cand|parent [go test args]
export GOFLAGS=-mod=mod GOPROXY=off; unset GOWORK
which=$1; shift
case $which in cand) d=/tmp/rev/W2;; parent) d=/tmp/rev/W2.out/parent;; sugg) d=/tmp/rev/W2.out/suggested;; esac
cp /tmp/rev/W2.out/tests/*_test.go $d/engine/
cd $d && go test -vet=off -count=1 ./engine/ "$@"
