package engine

// Review Y1 of 452cd66 / 961bd1b / 5dcab6b. Place in engine/ and run:
//   export GOFLAGS=-mod=mod GOPROXY=off; unset GOWORK
//   go test -vet=off -count=1 -race -v -run 'TestY1' ./engine/

import (
	"compress/gzip"
	"context"
	"io"
	"net/http"
	"net/http/httptest"
	"regexp"
	"strings"
	"sync"
	"sync/atomic"
	"testing"
	"time"

	"github.com/zishang520/engine.io/v2/config"
	"github.com/zishang520/engine.io/v2/transports"
	"github.com/zishang520/engine.io/v2/types"
	"github.com/zishang520/engine.io/v2/utils"
)

func y1Do(t *testing.T, method, url, body string, hdr map[string]string) (*http.Response, string) {
	t.Helper()
	req, err := http.NewRequest(method, url, strings.NewReader(body))
	if err != nil {
		t.Fatal(err)
	}
	for k, v := range hdr {
		req.Header.Set(k, v)
	}
	// no transparent gzip: the test wants to see the header fields as sent
	res, err := (&http.Client{Timeout: 5 * time.Second, Transport: &http.Transport{DisableCompression: true}}).Do(req)
	if err != nil {
		t.Fatal(err)
	}
	b, _ := io.ReadAll(res.Body)
	res.Body.Close()
	return res, string(b)
}

func y1Plain(res *http.Response, body string) string {
	if res.Header.Get("Content-Encoding") == "gzip" {
		if zr, err := gzip.NewReader(strings.NewReader(body)); err == nil {
			b, _ := io.ReadAll(zr)
			return string(b)
		}
	}
	return body
}

func y1Sid(t *testing.T, body string) string {
	t.Helper()
	m := regexp.MustCompile(`\\?"sid\\?":\\?"([^"\\]+)`).FindStringSubmatch(body)
	if m == nil {
		t.Fatalf("no sid in %q", body)
	}
	return m[1]
}

// ---------------------------------------------------------------------------
// F1 (961bd1b, regression). A field that the headers listener schedules WITHOUT
// values - the net/http idiom that suppresses a header the server would add by
// itself, which HttpContext.Write documents and honours ("a field without
// values stays without values") - is dropped by mergeResponseHeaders: it copies
// the bag value by value into an http.Header, and a field without values has
// none to copy. The parent of 961bd1b passed the bag on with With(All()).
// ---------------------------------------------------------------------------
func TestY1_ZeroValuedFieldOfHeadersListenerIsDropped(t *testing.T) {
	s := NewServer(config.DefaultServerOptions())
	s.On("headers", func(args ...any) {
		// "no Date header on our responses" (net/http: a nil entry suppresses it)
		args[0].(*utils.ParameterBag).With(map[string][]string{"Date": nil})
	})
	ts := httptest.NewServer(s)
	defer ts.Close()
	defer s.Close()
	base := ts.URL + "/engine.io/?EIO=4&transport=polling"

	res, body := y1Do(t, "GET", base, "", nil)
	if _, ok := res.Header["Date"]; ok {
		t.Errorf("handshake: the field scheduled without values did not reach the response: Date=%q", res.Header["Date"])
	}
	sid := y1Sid(t, body)
	res, _ = y1Do(t, "POST", base+"&sid="+sid, "4hello", nil)
	if _, ok := res.Header["Date"]; ok {
		t.Errorf("post: the field scheduled without values did not reach the response: Date=%q", res.Header["Date"])
	}
}

// control for F1: the same field scheduled by a middleware on the context is
// honoured (passes): the idiom works, only the bag of the transport loses it.
func TestY1_ZeroValuedFieldOfMiddlewareIsHonoured(t *testing.T) {
	s := NewServer(config.DefaultServerOptions())
	s.Use(func(ctx *types.HttpContext, next func(error)) {
		ctx.ResponseHeaders.With(map[string][]string{"Date": nil})
		next(nil)
	})
	ts := httptest.NewServer(s)
	defer ts.Close()
	defer s.Close()
	res, _ := y1Do(t, "GET", ts.URL+"/engine.io/?EIO=4&transport=polling", "", nil)
	if _, ok := res.Header["Date"]; ok {
		t.Errorf("Date=%q", res.Header["Date"])
	}
}

// ---------------------------------------------------------------------------
// F2 (961bd1b + 5dcab6b, the defect they describe is still open for singleton
// fields). "A second spelling joins its values to the first" is right for the
// list fields (Set-Cookie, Vary); for a field that may occur once it turns
// "one of the two at random" into "both, always": a listener that overrides
// the content type under the spelling "content-type" (the spelling of the
// reference implementation's documentation) gets a response with TWO
// Content-Type field lines, its own second - every client reads the first.
// ---------------------------------------------------------------------------
func TestY1_SecondSpellingOfSingletonFieldGivesTwoFieldLines(t *testing.T) {
	s := NewServer(config.DefaultServerOptions())
	s.On("headers", func(args ...any) {
		args[0].(*utils.ParameterBag).Set("content-type", "application/x-eio")
	})
	ts := httptest.NewServer(s)
	defer ts.Close()
	defer s.Close()
	base := ts.URL + "/engine.io/?EIO=4&transport=polling"

	res, body := y1Do(t, "GET", base, "", nil)
	if v := res.Header.Values("Content-Type"); len(v) != 1 {
		t.Errorf("handshake: %d Content-Type field lines: %q", len(v), v)
	}
	sid := y1Sid(t, body)
	res, _ = y1Do(t, "POST", base+"&sid="+sid, "4hello", nil)
	if v := res.Header.Values("Content-Type"); len(v) != 1 {
		t.Errorf("post: %d Content-Type field lines: %q", len(v), v)
	}
}

// the same through HttpContext.Write alone (5dcab6b): a middleware's
// "content-type" and abortRequest's "Content-Type" on an error answer
func TestY1_WriteJoinsSingletonSpellingsOnErrorAnswer(t *testing.T) {
	s := NewServer(config.DefaultServerOptions())
	s.Use(func(ctx *types.HttpContext, next func(error)) {
		ctx.ResponseHeaders.Set("content-type", "application/problem+json")
		next(nil)
	})
	ts := httptest.NewServer(s)
	defer ts.Close()
	defer s.Close()
	res, _ := y1Do(t, "GET", ts.URL+"/engine.io/?EIO=4&transport=polling&sid=nosuch", "", nil)
	if res.StatusCode != 400 {
		t.Fatalf("status %d", res.StatusCode)
	}
	if v := res.Header.Values("Content-Type"); len(v) != 1 {
		t.Errorf("400 answer: %d Content-Type field lines: %q", len(v), v)
	}
}

// ---------------------------------------------------------------------------
// F3 (452cd66, new). The client leaves between ctx.Once("close", onClose) and
// the re-check ctx.Context().Err(): the context's goroutine emits "close" to
// the listener that IS in place, and the re-check runs onClose a second time
// (RemoveListener finds nothing any more, or Emit has taken its snapshot).
// The transport reports "poll connection closed prematurely" twice.
// ---------------------------------------------------------------------------
type y1Ctx struct {
	context.Context
	done  chan struct{}
	armed atomic.Bool
	once  sync.Once
}

func (c *y1Ctx) Done() <-chan struct{} { return c.done }
func (c *y1Ctx) Err() error {
	if !c.armed.Load() {
		return nil
	}
	// the client hangs up exactly now: after the listener was registered,
	// before the re-check has its answer
	c.once.Do(func() {
		close(c.done)
		time.Sleep(100 * time.Millisecond)
	})
	return context.Canceled
}

func TestY1_ClientLeavingDuringRecheckRunsOnCloseTwice(t *testing.T) {
	cc := &y1Ctx{Context: context.Background(), done: make(chan struct{})}
	r := httptest.NewRequest("GET", "/engine.io/?EIO=4&transport=polling&sid=x", nil).WithContext(cc)
	ctx := types.NewHttpContext(httptest.NewRecorder(), r)
	tr := transports.NewPolling(ctx)
	var errs atomic.Int32
	tr.On("error", func(...any) { errs.Add(1) })
	cc.armed.Store(true)
	tr.OnRequest(ctx)
	time.Sleep(200 * time.Millisecond)
	if n := errs.Load(); n != 1 {
		t.Errorf("the transport reported the aborted poll %d times", n)
	}
	if tr.Writable() {
		t.Errorf("transport writable")
	}
}

// ---------------------------------------------------------------------------
// Sweep (expected to pass): no singleton field twice, no list value twice, on
// every kind of answer of one session with CORS, cookie, a middleware cookie
// and a headers listener that Adds / Sets Vary.
// ---------------------------------------------------------------------------
func y1CheckNoDup(t *testing.T, what string, h http.Header) {
	t.Helper()
	for _, k := range []string{"Content-Type", "Content-Length", "Cache-Control", "Content-Encoding", "Access-Control-Allow-Origin", "Access-Control-Allow-Credentials", "X-Xss-Protection", "Connection"} {
		if v := h.Values(k); len(v) > 1 {
			t.Errorf("%s: %s appears %d times: %q", what, k, len(v), v)
		}
	}
	for _, k := range []string{"Vary", "Set-Cookie"} {
		seen := map[string]int{}
		for _, line := range h.Values(k) {
			parts := []string{line}
			if k == "Vary" {
				parts = strings.Split(line, ",")
			}
			for _, p := range parts {
				seen[strings.ToLower(strings.TrimSpace(p))]++
			}
		}
		for v, n := range seen {
			if n > 1 {
				t.Errorf("%s: %s value %q appears %d times: %q", what, k, v, n, h.Values(k))
			}
		}
	}
}

func TestY1_SweepNoDuplicatedFields(t *testing.T) {
	for _, mode := range []string{"add", "set"} {
		t.Run(mode, func(t *testing.T) {
			o := config.DefaultServerOptions()
			o.SetCookie(&http.Cookie{Name: "io", Path: "/"})
			o.SetCors(&types.Cors{Origin: []any{"https://a.example"}, Credentials: true})
			o.SetHttpCompression(&types.HttpCompression{Threshold: 10})
			o.SetMaxHttpBufferSize(1000)
			o.SetAllowEIO3(true)
			o.SetTransports(types.NewSet(transports.POLLING, transports.WEBSOCKET))
			s := NewServer(o)
			s.Use(func(ctx *types.HttpContext, next func(error)) {
				ctx.ResponseHeaders.Add("Set-Cookie", "lb=node-7; Path=/")
				next(nil)
			})
			s.On("headers", func(args ...any) {
				if mode == "add" {
					args[0].(*utils.ParameterBag).Add("Vary", "User-Agent")
				} else {
					args[0].(*utils.ParameterBag).Set("Vary", "User-Agent")
				}
			})
			conn := make(chan Socket, 4)
			s.On("connection", func(a ...any) { conn <- a[0].(Socket) })
			ts := httptest.NewServer(s)
			defer ts.Close()
			defer s.Close()
			hdr := map[string]string{"Origin": "https://a.example", "Accept-Encoding": "gzip", "User-Agent": "Mozilla/4.0 (compatible;MSIE 8.0)"}

			for _, q := range []string{"EIO=4&transport=polling", "EIO=3&transport=polling&j=1"} {
				base := ts.URL + "/engine.io/?" + q
				res, body := y1Do(t, "GET", base, "", hdr)
				y1CheckNoDup(t, q+" handshake", res.Header)
				if !c17VaryHas(res.Header, "Origin") || !c17VaryHas(res.Header, "User-Agent") {
					t.Errorf("%s handshake Vary=%q", q, res.Header.Values("Vary"))
				}
				if n := len(res.Header.Values("Set-Cookie")); n != 2 {
					t.Errorf("%s handshake Set-Cookie=%q", q, res.Header.Values("Set-Cookie"))
				}
				sid := y1Sid(t, y1Plain(res, body))
				sock := <-conn

				for i := 0; i < 3; i++ {
					sock.Send(strings.NewReader(strings.Repeat("x", 200)), nil, nil)
					res, body = y1Do(t, "GET", base+"&sid="+sid, "", hdr)
					y1CheckNoDup(t, q+" poll", res.Header)
					if res.Header.Get("Content-Encoding") != "gzip" {
						t.Errorf("%s poll %d not compressed: %v", q, i, res.Header)
					} else if zr, err := gzip.NewReader(strings.NewReader(body)); err != nil {
						t.Errorf("gzip: %v", err)
					} else if b, _ := io.ReadAll(zr); !strings.Contains(string(b), "xxxx") {
						t.Errorf("%s poll body %q", q, b)
					}
					if n := len(res.Header.Values("Set-Cookie")); n != 1 {
						t.Errorf("%s poll %d Set-Cookie=%q", q, i, res.Header.Values("Set-Cookie"))
					}
					if !c17VaryHas(res.Header, "Origin") || !c17VaryHas(res.Header, "User-Agent") {
						t.Errorf("%s poll Vary=%q", q, res.Header.Values("Vary"))
					}
					pb, ph := "4hello", map[string]string{"Origin": "https://a.example"}
					if strings.Contains(q, "j=1") {
						pb = "d=6%3A4hello"
						ph["Content-Type"] = "application/x-www-form-urlencoded"
					}
					res, body = y1Do(t, "POST", base+"&sid="+sid, pb, ph)
					if res.StatusCode != 200 || body != "ok" {
						t.Errorf("%s post %d %q", q, res.StatusCode, body)
					}
					y1CheckNoDup(t, q+" post", res.Header)
				}
				// 413
				res, _ = y1Do(t, "POST", base+"&sid="+sid, strings.Repeat("4", 2000), hdr)
				if res.StatusCode != 413 {
					t.Errorf("%s status %d for an oversized body", q, res.StatusCode)
				}
				y1CheckNoDup(t, q+" 413", res.Header)
				if !c17VaryHas(res.Header, "Origin") {
					t.Errorf("%s 413 Vary=%q", q, res.Header.Values("Vary"))
				}
				// overlap 400
				p1 := make(chan *http.Response, 1)
				go func() { r, _ := y1Do(t, "GET", base+"&sid="+sid, "", hdr); p1 <- r }()
				time.Sleep(100 * time.Millisecond)
				res, _ = y1Do(t, "GET", base+"&sid="+sid, "", hdr)
				if res.StatusCode != 400 {
					t.Errorf("%s overlap status %d", q, res.StatusCode)
				}
				y1CheckNoDup(t, q+" overlap 400", res.Header)
				if !c17VaryHas(res.Header, "Origin") {
					t.Errorf("%s overlap Vary=%q", q, res.Header.Values("Vary"))
				}
				r1 := <-p1
				y1CheckNoDup(t, q+" first poll after overlap", r1.Header)
			}
			// unknown sid
			res, _ := y1Do(t, "GET", ts.URL+"/engine.io/?EIO=4&transport=polling&sid=nosuch", "", hdr)
			y1CheckNoDup(t, "unknown sid", res.Header)
		})
	}
}

// 429: a data request that is being read while the session is closed
func TestY1_Sweep429(t *testing.T) {
	o := config.DefaultServerOptions()
	o.SetCors(&types.Cors{Origin: []any{"https://a.example"}, Credentials: true})
	s := NewServer(o)
	s.On("headers", func(args ...any) { args[0].(*utils.ParameterBag).Add("Vary", "User-Agent") })
	conn := make(chan Socket, 1)
	s.On("connection", func(a ...any) { conn <- a[0].(Socket) })
	ts := httptest.NewServer(s)
	defer ts.Close()
	defer s.Close()
	base := ts.URL + "/engine.io/?EIO=4&transport=polling"
	hdr := map[string]string{"Origin": "https://a.example"}
	_, body := y1Do(t, "GET", base, "", hdr)
	sid := y1Sid(t, body)
	sock := <-conn

	pr, pw := io.Pipe()
	req, _ := http.NewRequest("POST", base+"&sid="+sid, pr)
	req.Header.Set("Origin", "https://a.example")
	resCh := make(chan *http.Response, 1)
	go func() {
		res, err := http.DefaultTransport.RoundTrip(req)
		if err != nil {
			resCh <- nil
			return
		}
		resCh <- res
	}()
	pw.Write([]byte("4he"))
	time.Sleep(100 * time.Millisecond)
	sock.Close(true)
	time.Sleep(100 * time.Millisecond)
	pw.Close() // the answer leaves with the handler, which is still reading
	select {
	case res := <-resCh:
		if res == nil {
			t.Fatal("no response")
		}
		t.Logf("status %d %v", res.StatusCode, res.Header)
		if res.StatusCode != 429 {
			t.Errorf("status %d", res.StatusCode)
		}
		y1CheckNoDup(t, "429", res.Header)
		if !c17VaryHas(res.Header, "Origin") {
			t.Errorf("429 Vary=%q", res.Header.Values("Vary"))
		}
	case <-time.After(3 * time.Second):
		t.Error("data request not answered on close")
	}
}

// The motivating test of 452cd66 with a second look: an aborted poll that is
// still installed after 30 ms is looked at again 1 s later, to tell a slow
// detection (test timing under -race) from a poll that stays installed.
func TestY1_AbortedPollNoMiddlewareSecondLook(t *testing.T) {
	e := newC11Env(t)
	var early, late atomic.Int32
	const workers, rounds = 16, 200
	var wg sync.WaitGroup
	for w := 0; w < workers; w++ {
		wg.Add(1)
		go func() {
			defer wg.Done()
			for i := 0; i < rounds; i++ {
				sid, sock := e.handshake()
				e.abortedPoll(e.path(sid, ""), 0)
				time.Sleep(30 * time.Millisecond)
				installed := func() bool {
					_, closed := e.closeReason(sid)
					return !closed && sock.ReadyState() == "open" && sock.Transport().Writable()
				}
				if installed() {
					early.Add(1)
					time.Sleep(time.Second)
					if installed() {
						late.Add(1)
					}
				}
			}
		}()
	}
	wg.Wait()
	t.Logf("installed after 30 ms: %d, still installed 1 s later: %d (of %d)", early.Load(), late.Load(), workers*rounds)
	if n := late.Load(); n > 0 {
		t.Errorf("%d aborted polls stayed installed", n)
	}
}
