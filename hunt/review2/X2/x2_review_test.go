package engine

// Review of the candidate "orderly close waits for the batch in flight".
// Every test runs unchanged on the candidate and on its parent.

import (
	"bytes"
	"context"
	"fmt"
	"net"
	"strings"
	"sync/atomic"
	"testing"
	"time"

	"github.com/gorilla/websocket"
	"github.com/zishang520/engine.io/v2/config"
	"github.com/zishang520/engine.io/v2/transports"
	"github.com/zishang520/engine.io/v2/types"
)

// a session that starts on websocket; the open packet has been read
func x2Session(t *testing.T, e *revEnv, d *websocket.Dialer) (*websocket.Conn, Socket) {
	t.Helper()
	if d == nil {
		d = websocket.DefaultDialer
	}
	u := "ws" + strings.TrimPrefix(e.ts.URL, "http") + "/engine.io/?EIO=4&transport=websocket"
	ws, _, err := d.Dial(u, nil)
	if err != nil {
		t.Fatal(err)
	}
	s := <-e.connCh
	if m, err := wsReadText(ws, 2*time.Second); err != nil || len(m) == 0 || m[0] != '0' {
		t.Fatalf("open packet %q %v", m, err)
	}
	return ws, s
}

// a client whose receive buffer is small and that never reads
func x2StalledDialer() *websocket.Dialer {
	return &websocket.Dialer{
		ReadBufferSize: 512,
		NetDialContext: func(ctx context.Context, network, addr string) (net.Conn, error) {
			c, err := (&net.Dialer{}).DialContext(ctx, network, addr)
			if err == nil {
				c.(*net.TCPConn).SetReadBuffer(4096)
			}
			return c, err
		},
	}
}

func x2Count(sub string) int {
	return strings.Count(dumpGoroutines(), sub)
}

const (
	gWriter = "transports.(*websocket).send("
	gReader = "transports.(*websocket).message("
	gWaiter = "transports.closeAfter.func1("
)

func x2Lingering() string {
	return fmt.Sprintf("writer=%d reader=%d waiter=%d", x2Count(gWriter), x2Count(gReader), x2Count(gWaiter))
}

// reads until the connection ends; returns the messages and the moment it ended
func x2ReadAll(ws *websocket.Conn, d time.Duration) (msgs [][]byte, kinds []int, end time.Time, timedOut bool) {
	for {
		ws.SetReadDeadline(time.Now().Add(d))
		k, m, err := ws.ReadMessage()
		if err != nil {
			if ne, ok := err.(interface{ Timeout() bool }); ok && ne.Timeout() {
				timedOut = true
			}
			return msgs, kinds, time.Now(), timedOut
		}
		msgs = append(msgs, m)
		kinds = append(kinds, k)
	}
}

// 3a. nothing in flight: how long after Close(false) returns does the client
// see the end of the connection; one close event, reason forced close
func TestX2_IdleClosePrompt(t *testing.T) {
	e := revNew(t, nil)
	var worst time.Duration
	for i := 0; i < 30; i++ {
		ws, s := x2Session(t, e, nil)
		time.Sleep(10 * time.Millisecond) // the open packet's writer has finished
		s.Close(false)
		t0 := time.Now()
		if s.ReadyState() != "closed" {
			t.Errorf("state after Close(false): %s", s.ReadyState())
		}
		_, _, end, to := x2ReadAll(ws, 2*time.Second)
		if to {
			t.Fatalf("round %d: connection left open after Close(false) with nothing in flight", i)
		}
		if d := end.Sub(t0); d > worst {
			worst = d
		}
		if r := e.closeReasons(s.Id()); len(r) != 1 || r[0] != "forced close" {
			t.Errorf("close events %v", r)
		}
		ws.Close()
	}
	t.Logf("worst delay between Close(false) returning and the client seeing the end: %v", worst)
	if worst > 200*time.Millisecond {
		t.Errorf("idle close not prompt: %v", worst)
	}
	if !waitFor(2*time.Second, func() bool { return x2Count(gWriter)+x2Count(gReader)+x2Count(gWaiter) == 0 }) {
		t.Errorf("left behind: %s", x2Lingering())
	}
}

// 3b. several Sends in a row, text and binary, then Close(false): everything
// arrives, in order, before the connection ends
func TestX2_ManySendsThenCloseInOrder(t *testing.T) {
	e := revNew(t, nil)
	lost, disorder := 0, 0
	const rounds, n = 25, 40
	for r := 0; r < rounds; r++ {
		ws, s := x2Session(t, e, nil)
		var want [][]byte
		for i := 0; i < n; i++ {
			size := 10 + (i*7919)%(48*1024)
			if i%3 == 0 {
				b := bytes.Repeat([]byte{byte(i)}, size)
				want = append(want, b)
				s.Send(types.NewBytesBuffer(append([]byte(nil), b...)), nil, nil)
			} else {
				str := fmt.Sprintf("%04d", i) + strings.Repeat("y", size)
				want = append(want, []byte(str))
				s.Send(types.NewStringBufferString(str), nil, nil)
			}
		}
		s.Close(false)
		msgs, kinds, _, to := x2ReadAll(ws, 3*time.Second)
		if to {
			t.Fatalf("round %d: connection left open", r)
		}
		if len(msgs) != n {
			lost++
			if lost == 1 {
				t.Logf("round %d: %d of %d messages arrived", r, len(msgs), n)
			}
		}
		for i := range msgs {
			if i >= len(want) {
				break
			}
			var got []byte
			if kinds[i] == websocket.TextMessage {
				got = msgs[i][1:] // '4'
			} else {
				got = msgs[i]
			}
			if !bytes.Equal(got, want[i]) {
				disorder++
				break
			}
		}
		if rs := e.closeReasons(s.Id()); len(rs) != 1 || rs[0] != "forced close" {
			t.Errorf("close events %v", rs)
		}
		ws.Close()
	}
	if lost > 0 || disorder > 0 {
		t.Errorf("messages lost in %d of %d rounds, out of order / corrupted in %d", lost, rounds, disorder)
	}
	if !waitFor(2*time.Second, func() bool { return x2Count(gWriter)+x2Count(gReader)+x2Count(gWaiter) == 0 }) {
		t.Errorf("left behind: %s", x2Lingering())
	}
}

// 3c. a Send issued after Close(false) is dropped, nothing breaks
func TestX2_SendAfterCloseFalse(t *testing.T) {
	e := revNew(t, nil)
	for r := 0; r < 20; r++ {
		ws, s := x2Session(t, e, nil)
		big := strings.Repeat("x", 256*1024)
		var cbAfter atomic.Int32
		s.Send(types.NewStringBufferString(big), nil, nil)
		s.Close(false)
		s.Send(types.NewStringBufferString("after"), nil, func(transports.Transport) { cbAfter.Add(1) })
		msgs, _, _, to := x2ReadAll(ws, 3*time.Second)
		if to {
			t.Fatal("connection left open")
		}
		gotBig, gotAfter := false, false
		for _, m := range msgs {
			if len(m) == len(big)+1 {
				gotBig = true
			}
			if string(m) == "4after" {
				gotAfter = true
			}
		}
		if !gotBig {
			t.Errorf("round %d: message sent before Close(false) lost", r)
		}
		if gotAfter || cbAfter.Load() != 0 {
			t.Errorf("round %d: message sent after Close(false) delivered=%v callback=%d", r, gotAfter, cbAfter.Load())
		}
		ws.Close()
	}
}

// 3d. the peer has already gone (TCP closed, no close frame) when the server
// sends and closes: one close event, nothing left behind
func TestX2_PeerAlreadyGone(t *testing.T) {
	e := revNew(t, nil)
	for r := 0; r < 30; r++ {
		ws, s := x2Session(t, e, nil)
		ws.UnderlyingConn().(*net.TCPConn).SetLinger(0) // RST
		ws.UnderlyingConn().Close()
		if r%2 == 1 {
			time.Sleep(5 * time.Millisecond)
		}
		s.Send(types.NewStringBufferString(strings.Repeat("x", 512*1024)), nil, nil)
		s.Close(false)
		if !waitFor(2*time.Second, func() bool { return len(e.closeReasons(s.Id())) > 0 }) {
			t.Fatalf("no close event")
		}
		time.Sleep(5 * time.Millisecond)
		if rs := e.closeReasons(s.Id()); len(rs) != 1 {
			t.Errorf("close events %v", rs)
		}
	}
	if !waitFor(3*time.Second, func() bool { return x2Count(gWriter)+x2Count(gReader)+x2Count(gWaiter) == 0 }) {
		t.Errorf("left behind: %s", x2Lingering())
	}
}

// 3e. upgrade polling -> websocket, then Send + Close(false)
func TestX2_UpgradeThenSendClose(t *testing.T) {
	e := revNew(t, nil)
	lost := 0
	const rounds = 15
	for r := 0; r < rounds; r++ {
		sid, s := e.handshake("4")
		ws := e.probeWS(sid)
		ws.WriteMessage(websocket.TextMessage, []byte("5"))
		if !waitFor(2*time.Second, func() bool { return s.Upgraded() && s.Transport().Name() == "websocket" }) {
			t.Fatal("not upgraded")
		}
		big := strings.Repeat("u", 128*1024)
		s.Send(types.NewStringBufferString(big), nil, nil)
		s.Send(types.NewStringBufferString("tail"), nil, nil)
		s.Close(false)
		msgs, _, _, to := x2ReadAll(ws, 3*time.Second)
		if to {
			t.Fatal("connection left open")
		}
		var seq []string
		for _, m := range msgs {
			if len(m) == len(big)+1 {
				seq = append(seq, "big")
			} else if string(m) == "4tail" {
				seq = append(seq, "tail")
			}
		}
		if strings.Join(seq, ",") != "big,tail" {
			lost++
			if lost == 1 {
				t.Logf("round %d: got %v", r, seq)
			}
		}
		if rs := e.closeReasons(sid); len(rs) != 1 || rs[0] != "forced close" {
			t.Errorf("close events %v", rs)
		}
		ws.Close()
	}
	if lost > 0 {
		t.Errorf("after an upgrade: lost in %d of %d rounds", lost, rounds)
	}
}

// 3e'. Close(false) while polling holds a buffered message and no poll is
// pending; the client then completes an upgrade: the switch flushes the
// message to the new transport and closes it (MaybeUpgrade's 'closing' branch)
func TestX2_CloseFalseCompletedByUpgrade(t *testing.T) {
	e := revNew(t, nil)
	lost := 0
	const rounds = 15
	for r := 0; r < rounds; r++ {
		sid, s := e.handshake("4")
		big := strings.Repeat("c", 128*1024)
		s.Send(types.NewStringBufferString(big), nil, nil) // no poll: buffered
		s.Close(false)                                     // waits for 'drain'
		if s.ReadyState() != "closing" {
			t.Fatalf("state %s", s.ReadyState())
		}
		ws, _, err := e.dialWS("EIO=4&transport=websocket&sid=" + sid)
		if err != nil {
			t.Fatal(err)
		}
		ws.WriteMessage(websocket.TextMessage, []byte("2probe"))
		if m, err := wsReadText(ws, 2*time.Second); err != nil || m != "3probe" {
			t.Fatalf("probe answer %q %v", m, err)
		}
		ws.WriteMessage(websocket.TextMessage, []byte("5"))
		msgs, _, _, to := x2ReadAll(ws, 3*time.Second)
		if to {
			t.Fatal("connection left open")
		}
		got := false
		for _, m := range msgs {
			if len(m) == len(big)+1 {
				got = true
			}
		}
		if !got {
			lost++
		}
		if !waitFor(time.Second, func() bool { return len(e.closeReasons(sid)) == 1 }) {
			t.Errorf("close events %v", e.closeReasons(sid))
		}
		ws.Close()
	}
	if lost > 0 {
		t.Errorf("close completed by an upgrade: buffered message lost in %d of %d rounds", lost, rounds)
	}
}

// 3f. Server.Close() while a batch is stuck in the writer (peer not reading):
// the connection goes at once
func TestX2_ServerCloseWithBatchInFlight(t *testing.T) {
	e := revNew(t, nil)
	ws, s := x2Session(t, e, x2StalledDialer())
	defer ws.Close()
	s.Send(types.NewStringBufferString(strings.Repeat("s", 32<<20)), nil, nil)
	time.Sleep(300 * time.Millisecond)
	if x2Count(gWriter) != 1 {
		t.Skipf("the writer is not blocked (%s): the peer's buffers took everything", x2Lingering())
	}
	t0 := time.Now()
	e.eng.Close()
	if !waitFor(3*time.Second, func() bool { return x2Count(gWriter)+x2Count(gReader)+x2Count(gWaiter) == 0 }) {
		t.Errorf("3 s after Server.Close(): %s", x2Lingering())
	} else {
		t.Logf("writer, reader gone %v after Server.Close()", time.Since(t0))
	}
	if rs := e.closeReasons(s.Id()); len(rs) != 1 || rs[0] != "forced close" {
		t.Errorf("close events %v", rs)
	}
}

// 1/2. a peer that stops reading during a graceful close: how long do the
// connection and its goroutines stay, and can anything cut it short
func TestX2_StalledPeerCloseFalse(t *testing.T) {
	e := revNew(t, nil)
	ws, s := x2Session(t, e, x2StalledDialer())
	defer ws.Close()
	s.Send(types.NewStringBufferString(strings.Repeat("s", 32<<20)), nil, nil)
	time.Sleep(300 * time.Millisecond)
	if x2Count(gWriter) != 1 {
		t.Skipf("the writer is not blocked (%s)", x2Lingering())
	}
	t0 := time.Now()
	done := make(chan struct{})
	go func() { s.Close(false); close(done) }()
	select {
	case <-done:
	case <-time.After(2 * time.Second):
		t.Fatalf("Close(false) blocks on a peer that does not read\n%s", dumpGoroutines())
	}
	if rs := e.closeReasons(s.Id()); len(rs) != 1 || rs[0] != "forced close" {
		t.Errorf("close events %v", rs)
	}
	time.Sleep(time.Second)
	t.Logf("1 s after Close(false): %s", x2Lingering())
	held := x2Count(gWriter) > 0
	if held {
		s.Close(true)
		time.Sleep(200 * time.Millisecond)
		t.Logf("after a further Close(true): %s", x2Lingering())
		e.eng.Close()
		time.Sleep(200 * time.Millisecond)
		t.Logf("after Server.Close(): %s", x2Lingering())
		if x2Count(gWriter) > 0 {
			t.Errorf("a session closed with Close(false) towards a peer that does not read keeps its connection, writer, reader and 32 MB batch; neither Close(true) nor Server.Close() releases them")
		}
		if testing.Short() {
			return
		}
		if !waitFor(40*time.Second, func() bool { return x2Count(gWriter)+x2Count(gReader)+x2Count(gWaiter) == 0 }) {
			t.Errorf("still there after 40 s: %s", x2Lingering())
		} else {
			t.Logf("released %v after Close(false)", time.Since(t0).Round(100*time.Millisecond))
		}
	}
}

// 1/3. the usual way a dead peer is found: it stops reading, the writer
// blocks, the heartbeat times out. How long after the 'close' event does the
// connection stay?
func TestX2_StalledPeerPingTimeout(t *testing.T) {
	e := revNew(t, func(o *config.ServerOptions) {
		o.SetPingInterval(300 * time.Millisecond)
		o.SetPingTimeout(300 * time.Millisecond)
	})
	ws, s := x2Session(t, e, x2StalledDialer())
	defer ws.Close()
	s.Send(types.NewStringBufferString(strings.Repeat("s", 32<<20)), nil, nil)
	if !waitFor(3*time.Second, func() bool { return len(e.closeReasons(s.Id())) > 0 }) {
		t.Fatal("no ping timeout")
	}
	t0 := time.Now()
	if rs := e.closeReasons(s.Id()); len(rs) != 1 || rs[0] != "ping timeout" {
		t.Errorf("close events %v", rs)
	}
	if waitFor(2*time.Second, func() bool { return x2Count(gWriter)+x2Count(gReader)+x2Count(gWaiter) == 0 }) {
		t.Logf("connection released %v after the ping timeout", time.Since(t0).Round(time.Millisecond))
		return
	}
	t.Errorf("2 s after 'close' (ping timeout) of a peer that does not read: %s", x2Lingering())
	if testing.Short() {
		return
	}
	waitFor(40*time.Second, func() bool { return x2Count(gWriter)+x2Count(gReader)+x2Count(gWaiter) == 0 })
	t.Logf("released %v after the ping timeout (%s)", time.Since(t0).Round(100*time.Millisecond), x2Lingering())
}

// 1. Close(false) from inside listeners that run around the writer
func TestX2_CloseFromListeners(t *testing.T) {
	for _, where := range []string{"socket-drain", "socket-flush", "send-callback", "server-drain", "packetCreate"} {
		t.Run(where, func(t *testing.T) {
			e := revNew(t, nil)
			lost, rounds := 0, 15
			for r := 0; r < rounds; r++ {
				ws, s := x2Session(t, e, nil)
				time.Sleep(5 * time.Millisecond)
				big := strings.Repeat("l", 256*1024)
				var cb SendCallback
				switch where {
				case "socket-drain":
					s.Once("drain", func(...any) { s.Close(false) })
				case "socket-flush":
					s.Once("flush", func(...any) { s.Close(false) })
				case "packetCreate":
					s.Once("packetCreate", func(...any) { s.Close(false) })
				case "send-callback":
					cb = func(transports.Transport) { s.Close(false) }
				case "server-drain":
					e.eng.Once("drain", func(...any) { s.Close(false) })
				}
				done := make(chan struct{})
				go func() {
					s.Send(types.NewStringBufferString(big), nil, cb)
					close(done)
				}()
				select {
				case <-done:
				case <-time.After(3 * time.Second):
					t.Fatalf("Send blocks\n%s", dumpGoroutines())
				}
				msgs, _, _, to := x2ReadAll(ws, 3*time.Second)
				if to {
					t.Fatalf("connection left open (state %s)\n%s", s.ReadyState(), dumpGoroutines())
				}
				got := false
				for _, m := range msgs {
					if len(m) == len(big)+1 {
						got = true
					}
				}
				if !got {
					lost++
				}
				if !waitFor(time.Second, func() bool { return len(e.closeReasons(s.Id())) == 1 }) {
					t.Errorf("close events %v", e.closeReasons(s.Id()))
				}
				ws.Close()
			}
			t.Logf("%s: message lost in %d of %d rounds", where, lost, rounds)
			if !waitFor(2*time.Second, func() bool { return x2Count(gWriter)+x2Count(gReader)+x2Count(gWaiter) == 0 }) {
				t.Errorf("left behind: %s", x2Lingering())
			}
		})
	}
}

// 1. Close(false) then Close(true) at once, batch in flight, peer reading
func TestX2_CloseFalseThenTrue(t *testing.T) {
	e := revNew(t, nil)
	for r := 0; r < 20; r++ {
		ws, s := x2Session(t, e, nil)
		s.Send(types.NewStringBufferString(strings.Repeat("x", 256*1024)), nil, nil)
		s.Close(false)
		s.Close(true)
		_, _, _, to := x2ReadAll(ws, 3*time.Second)
		if to {
			t.Fatal("connection left open")
		}
		if rs := e.closeReasons(s.Id()); len(rs) != 1 || rs[0] != "forced close" {
			t.Errorf("close events %v", rs)
		}
		ws.Close()
	}
}

// 2. many sessions, each Send + Close(false); goroutines back to the baseline
func TestX2_ChurnLeak(t *testing.T) {
	e := revNew(t, nil)
	time.Sleep(50 * time.Millisecond)
	for r := 0; r < 200; r++ {
		ws, s := x2Session(t, e, nil)
		s.Send(types.NewStringBufferString(strings.Repeat("x", 32*1024)), nil, nil)
		s.Close(false)
		x2ReadAll(ws, 2*time.Second)
		ws.Close()
	}
	if !waitFor(3*time.Second, func() bool { return x2Count(gWriter)+x2Count(gReader)+x2Count(gWaiter) == 0 }) {
		t.Errorf("left behind: %s", x2Lingering())
	}
	if n := x2Count("time.Sleep") + x2Count("time.After"); n > 1 {
		t.Logf("sleeping goroutines: %d", n)
	}
}

// 4. concurrent senders and a closer (for -race)
func TestX2_ConcurrentSendAndClose(t *testing.T) {
	e := revNew(t, nil)
	for r := 0; r < 30; r++ {
		ws, s := x2Session(t, e, nil)
		stop := make(chan struct{})
		for g := 0; g < 4; g++ {
			go func() {
				for {
					select {
					case <-stop:
						return
					default:
						s.Send(types.NewStringBufferString(strings.Repeat("r", 4096)), nil, nil)
					}
				}
			}()
		}
		go x2ReadAll(ws, 2*time.Second)
		time.Sleep(time.Duration(r%5) * time.Millisecond)
		if r%3 == 2 {
			go s.Close(true)
		}
		s.Close(false)
		close(stop)
		if !waitFor(2*time.Second, func() bool { return len(e.closeReasons(s.Id())) == 1 }) {
			ss := s.(*socket)
			t.Errorf("close events %v; session %s, transport %s writable=%v, writeBuffer %d, 'drain' listeners %d", e.closeReasons(s.Id()), s.ReadyState(), s.Transport().ReadyState(), s.Transport().Writable(), ss.writeBuffer.Len(), s.ListenerCount("drain"))
		}
		ws.Close()
	}
	if !waitFor(3*time.Second, func() bool { return x2Count(gWriter)+x2Count(gReader)+x2Count(gWaiter) == 0 }) {
		t.Errorf("left behind: %s", x2Lingering())
	}
}
