package engine

// A peer that falls silent right after a transport upgrade must still be closed
// on time (C07). Revision 4: the server's ping is outstanding when the upgrade
// happens and is never answered. Revision 3: the client simply stops pinging
// after the upgrade.

import (
	"encoding/json"
	"io"
	"net/http"
	"net/http/httptest"
	"strings"
	"testing"
	"time"

	"github.com/gorilla/websocket"
	"github.com/zishang520/engine.io/v2/config"
)

func hbServer(t *testing.T, eio3 bool) (Server, *httptest.Server) {
	o := config.DefaultServerOptions()
	o.SetPingInterval(300 * time.Millisecond)
	o.SetPingTimeout(600 * time.Millisecond)
	o.SetAllowEIO3(eio3)
	eng := NewServer(o)
	ts := httptest.NewServer(eng)
	t.Cleanup(func() { eng.Close(); ts.CloseClientConnections(); ts.Close() })
	return eng, ts
}

func hbGet(t *testing.T, url string) string {
	resp, err := http.Get(url)
	if err != nil {
		t.Fatal(err)
	}
	defer resp.Body.Close()
	b, _ := io.ReadAll(resp.Body)
	return string(b)
}

func hbUpgrade(t *testing.T, ts *httptest.Server, eio, sid string) *websocket.Conn {
	ws, _, err := websocket.DefaultDialer.Dial("ws"+strings.TrimPrefix(ts.URL, "http")+"/engine.io/?EIO="+eio+"&transport=websocket&sid="+sid, nil)
	if err != nil {
		t.Fatal(err)
	}
	ws.WriteMessage(websocket.TextMessage, []byte("2probe"))
	ws.SetReadDeadline(time.Now().Add(2 * time.Second))
	if _, m, err := ws.ReadMessage(); err != nil || string(m) != "3probe" {
		t.Fatalf("probe answer %q %v", m, err)
	}
	ws.WriteMessage(websocket.TextMessage, []byte("5"))
	return ws
}

func TestHeartbeatAcrossUpgradeV4(t *testing.T) {
	eng, ts := hbServer(t, false)
	open := hbGet(t, ts.URL+"/engine.io/?EIO=4&transport=polling")
	var o struct{ Sid string }
	json.Unmarshal([]byte(open[1:]), &o)
	s, _ := eng.Clients().Load(o.Sid)
	reason := make(chan string, 1)
	s.On("close", func(a ...any) { reason <- a[0].(string) })

	// the poll that carries the server's ping (sent 300 ms after the handshake)
	if got := hbGet(t, ts.URL+"/engine.io/?EIO=4&transport=polling&sid="+o.Sid); got != "2" {
		t.Fatalf("expected the ping, got %q", got)
	}
	// not answered; the client upgrades instead and then says nothing
	ws := hbUpgrade(t, ts, "4", o.Sid)
	defer ws.Close()
	if !waitForCond(time.Second, func() bool { return s.Upgraded() }) {
		t.Fatal("upgrade did not complete")
	}
	select {
	case r := <-reason:
		if r != "ping timeout" {
			t.Fatalf("closed with %q", r)
		}
	case <-time.After(3 * time.Second):
		t.Fatalf("a peer silent since the upgrade is still %q 3 s later (pingInterval 300 ms, pingTimeout 600 ms): the unanswered ping has no deadline any more and no further ping is scheduled", s.ReadyState())
	}
}

func TestHeartbeatAcrossUpgradeV3(t *testing.T) {
	eng, ts := hbServer(t, true)
	open := hbGet(t, ts.URL+"/engine.io/?EIO=3&transport=polling")
	i := strings.Index(open, "{")
	var o struct{ Sid string }
	json.Unmarshal([]byte(open[i:]), &o)
	s, _ := eng.Clients().Load(o.Sid)
	reason := make(chan string, 1)
	s.On("close", func(a ...any) { reason <- a[0].(string) })

	poll := make(chan string, 1)
	go func() { poll <- hbGet(t, ts.URL+"/engine.io/?EIO=3&transport=polling&sid="+o.Sid) }()
	time.Sleep(30 * time.Millisecond)
	ws := hbUpgrade(t, ts, "3", o.Sid)
	defer ws.Close()
	if !waitForCond(time.Second, func() bool { return s.Upgraded() }) {
		t.Fatal("upgrade did not complete")
	}
	// the client never pings: revision 3 allows it pingInterval + pingTimeout
	select {
	case r := <-reason:
		if r != "ping timeout" {
			t.Fatalf("closed with %q", r)
		}
	case <-time.After(3 * time.Second):
		t.Fatalf("a revision-3 peer silent since the upgrade is still %q 3 s later (pingInterval + pingTimeout = 900 ms)", s.ReadyState())
	}
}

func waitForCond(d time.Duration, f func() bool) bool {
	for dl := time.Now().Add(d); time.Now().Before(dl); time.Sleep(2 * time.Millisecond) {
		if f() {
			return true
		}
	}
	return f()
}
