package webtransport

// Review of 474b14a (place in webtransport/ together with
// c15_limit_close_test.go, whose fake session / stream it uses):
//   export GOFLAGS=-mod=mod GOPROXY=off; unset GOWORK
//   go test -vet=off -count=1 -race -run 'TestY2' -v ./webtransport/

import (
	"bytes"
	"encoding/binary"
	"errors"
	"fmt"
	"io"
	"math"
	"math/rand"
	"testing"
)

// form: 7, 16 or 64 (length encoding); text selects the type bit.
func y2Header(form int, n uint64, text bool) []byte {
	b0 := byte(0x80) // binary
	if text {
		b0 = 0
	}
	switch form {
	case 7:
		return []byte{b0 | byte(n)}
	case 16:
		return binary.BigEndian.AppendUint16([]byte{b0 | 126}, uint16(n))
	default:
		return binary.BigEndian.AppendUint64([]byte{b0 | 127}, n)
	}
}

func y2Frame(form int, payload []byte) []byte {
	return append(y2Header(form, uint64(len(payload)), false), payload...)
}

func y2Conn(stream []byte, limit int64) (*Conn, *c15ReqStr) {
	sess, req := c15Session()
	c := NewConn(sess, &c15Stream{bytes.NewReader(stream)}, true, 0, 0, nil, nil, nil)
	c.SetReadLimit(limit)
	return c, req
}

// A reader whose message was delivered completely and ended with io.EOF must
// go on reporting io.EOF: its message did end cleanly, whatever happens to the
// connection afterwards (gorilla/websocket, from which this reader is taken,
// and this package before 474b14a behave like that). Since 474b14a the reader
// of a completed message reports the failure of a LATER frame / the end of the
// connection.
func TestY2CompletedReaderKeepsCleanEOF(t *testing.T) {
	msg1 := y2Frame(7, []byte("hello"))
	for _, tc := range []struct {
		name  string
		tail  []byte
		limit int64
		want  error // what NextReader reports for the second message
	}{
		{"next frame over the limit", y2Frame(7, bytes.Repeat([]byte{'x'}, 20)), 10, ErrReadLimit},
		{"next frame has the top bit set", y2Header(64, 1<<63, false), 0, ErrReadLimit},
		{"connection ends after the message (stream FIN)", nil, 0, errUnexpectedEOF},
		{"next frame truncated in its header", []byte{0x80 | 127, 0, 0}, 0, errUnexpectedEOF},
	} {
		t.Run(tc.name, func(t *testing.T) {
			c, _ := y2Conn(append(append([]byte{}, msg1...), tc.tail...), tc.limit)
			_, r1, err := c.NextReader()
			if err != nil {
				t.Fatal(err)
			}
			got, err := io.ReadAll(r1)
			if string(got) != "hello" || err != nil {
				t.Fatalf("first message: %q, %v", got, err)
			}
			if n, err := r1.Read(make([]byte, 4)); n != 0 || err != io.EOF {
				t.Fatalf("read past the end, before anything failed: %d, %v", n, err)
			}
			if _, _, err := c.NextReader(); !errors.Is(err, tc.want) {
				t.Fatalf("NextReader = %v, want %v", err, tc.want)
			}
			// the first message is as complete as it was
			if n, err := r1.Read(make([]byte, 4)); n != 0 || err != io.EOF {
				t.Errorf("reader of the COMPLETED first message now reports %d, %v; want 0, io.EOF", n, err)
			}
			if rest, err := io.ReadAll(r1); len(rest) != 0 || err != nil {
				t.Errorf("io.ReadAll on the completed reader = %q, %v; want empty, nil", rest, err)
			}
		})
	}
}

// What the commit does mean to change, in every consumption pattern: a reader
// whose message was NOT delivered completely never reports a clean end once the
// connection has failed, and reports the same failure every time.
func TestY2IncompleteReaderReportsFailure(t *testing.T) {
	for _, consume := range []string{"dropped unread", "partly read", "read to the failure"} {
		t.Run(consume, func(t *testing.T) {
			stream := append(y2Header(7, 100, false), bytes.Repeat([]byte{'x'}, 10)...) // 100 declared, 10 there
			c, req := y2Conn(stream, 0)
			_, r1, err := c.NextReader()
			if err != nil {
				t.Fatal(err)
			}
			switch consume {
			case "partly read":
				if n, err := r1.Read(make([]byte, 4)); n != 4 || err != nil {
					t.Fatalf("%d %v", n, err)
				}
			case "read to the failure":
				if got, err := io.ReadAll(r1); len(got) != 10 || err != error(errUnexpectedEOF) {
					t.Fatalf("%d %v", len(got), err)
				}
			}
			_, _, nerr := c.NextReader()
			if nerr != error(errUnexpectedEOF) {
				t.Fatalf("NextReader = %v", nerr)
			}
			for i := 0; i < 3; i++ {
				if n, err := r1.Read(make([]byte, 4)); n != 0 || err != nerr {
					t.Errorf("stale read %d = %d, %v; want 0, %v", i, n, err, nerr)
				}
				if _, _, err := c.NextReader(); err != nerr {
					t.Errorf("NextReader %d = %v; want %v", i, err, nerr)
				}
			}
			if req.closed != 0 {
				t.Errorf("session closed by the reader on a plain stream failure (%d capsules)", req.closed)
			}
		})
	}
}

// A reader abandoned while the connection is fine ends cleanly (documented:
// NextReader discards the previous message), and stays like that.
func TestY2AbandonedReaderOnHealthyConnection(t *testing.T) {
	stream := append(y2Frame(7, []byte("0123456789")), y2Frame(16, []byte("second"))...)
	c, _ := y2Conn(stream, 0)
	_, r1, _ := c.NextReader()
	r1.Read(make([]byte, 3))
	_, r2, err := c.NextReader()
	if err != nil {
		t.Fatal(err)
	}
	if n, err := r1.Read(make([]byte, 3)); n != 0 || err != io.EOF {
		t.Errorf("abandoned reader: %d, %v", n, err)
	}
	if got, err := io.ReadAll(r2); string(got) != "second" || err != nil {
		t.Errorf("second message %q, %v (the stale read must not consume it)", got, err)
	}
}

// limit x length form x declared size: who is refused, is the session closed
// exactly once, is the refusal sticky, does a close that fails or a second
// close change anything.
func TestY2LimitMatrix(t *testing.T) {
	type lf struct {
		form int
		n    uint64
	}
	lens := []lf{{7, 0}, {7, 5}, {7, 125}, {16, 5}, {16, 126}, {16, 65535}, {64, 5}, {64, 65536}, {64, 1<<63 - 1}, {64, 1 << 63}, {64, 1<<63 + 5}, {64, math.MaxUint64}}
	for _, limit := range []int64{0, 4, 100, math.MaxInt64} {
		for _, l := range lens {
			for _, closeFails := range []bool{false, true} {
				name := fmt.Sprintf("limit=%d/form=%d/len=%d/closeFails=%v", limit, l.form, l.n, closeFails)
				t.Run(name, func(t *testing.T) {
					avail := 200
					stream := append(y2Header(l.form, l.n, true), bytes.Repeat([]byte{'x'}, avail)...)
					c, req := y2Conn(stream, limit)
					if closeFails {
						req.writeErr = errors.New("request stream gone")
					}
					refused := l.n >= 1<<63 || (limit > 0 && l.n > uint64(limit))
					mt, r, err := c.NextReader()
					if refused {
						if err != ErrReadLimit || r != nil || mt != noFrame {
							t.Fatalf("NextReader = %d, %v, %v; want ErrReadLimit", mt, r, err)
						}
						closes := req.closed
						if closeFails {
							closes = 0 // the write was attempted and refused; nothing to count
						} else if closes != 1 {
							t.Errorf("session closed %d times, want 1", closes)
						}
						for i := 0; i < 3; i++ {
							if _, _, err := c.NextReader(); err != ErrReadLimit {
								t.Errorf("later NextReader = %v", err)
							}
						}
						if err := c.CloseWithError(0, ""); err != nil {
							t.Errorf("second close: %v", err)
						}
						if !closeFails && req.closed != 1 {
							t.Errorf("capsules after a second close: %d", req.closed)
						}
						return
					}
					if err != nil || mt != TextMessage {
						t.Fatalf("NextReader = %d, %v", mt, err)
					}
					if req.closed != 0 {
						t.Errorf("accepted message but the session was closed")
					}
					// read at most what is there; a declared length beyond the
					// stream must end in the unexpected-EOF failure, never cleanly
					got, err := io.ReadAll(io.LimitReader(r, 1000))
					want := int(l.n)
					if l.n > uint64(avail) {
						want = avail
						if err != error(errUnexpectedEOF) {
							t.Errorf("truncated message: %d bytes, %v", len(got), err)
						}
					} else if err != nil {
						t.Errorf("complete message: %v", err)
					}
					if len(got) != want {
						t.Errorf("%d bytes, want %d", len(got), want)
					}
				})
			}
		}
	}
}

// No byte stream and no call pattern may panic or hang; errors are sticky; a
// reader never hands out bytes once it is stale; the session is closed at most
// once and only together with ErrReadLimit.
func TestY2Random(t *testing.T) {
	rng := rand.New(rand.NewSource(20260930))
	for iter := 0; iter < 30000; iter++ {
		var stream []byte
		for k := rng.Intn(5); k >= 0; k-- {
			switch rng.Intn(8) {
			case 0: // garbage
				g := make([]byte, rng.Intn(12))
				rng.Read(g)
				stream = append(stream, g...)
			case 1: // top bit
				stream = append(stream, y2Header(64, 1<<63|uint64(rng.Int63()), rng.Intn(2) == 0)...)
			case 2: // declared longer than supplied
				stream = append(stream, y2Header([]int{7, 16, 64}[rng.Intn(3)], uint64(20+rng.Intn(100)), false)...)
				stream = append(stream, make([]byte, rng.Intn(20))...)
			default:
				stream = append(stream, y2Frame([]int{7, 16, 64}[rng.Intn(3)], make([]byte, rng.Intn(40)))...)
			}
		}
		if rng.Intn(4) == 0 && len(stream) > 0 {
			stream = stream[:rng.Intn(len(stream))]
		}
		limit := []int64{0, 1, 16, 1000, math.MaxInt64}[rng.Intn(5)]
		func() {
			defer func() {
				if p := recover(); p != nil {
					t.Fatalf("iter %d limit %d stream %x: panic %v", iter, limit, stream, p)
				}
			}()
			c, req := y2Conn(stream, limit)
			var sticky error
			var readers []io.Reader
			for step := 0; step < 40; step++ {
				switch op := rng.Intn(4); {
				case op == 0 || len(readers) == 0:
					_, r, err := c.NextReader()
					if sticky != nil && err != sticky {
						t.Fatalf("iter %d stream %x: NextReader %v after %v", iter, stream, err, sticky)
					}
					if err != nil {
						sticky = err
						if r != nil {
							t.Fatalf("reader with error")
						}
					} else {
						readers = append(readers, r)
					}
				case op == 1: // read a bit from the current reader
					r := readers[len(readers)-1]
					r.Read(make([]byte, rng.Intn(9)))
				case op == 2: // drain the current reader
					r := readers[len(readers)-1]
					if _, err := io.Copy(io.Discard, io.LimitReader(r, 1<<20)); err != nil && sticky != nil && err != sticky {
						t.Fatalf("iter %d stream %x: reader error %v, NextReader error %v", iter, stream, err, sticky)
					}
				default: // a stale reader
					if len(readers) < 2 {
						continue
					}
					r := readers[rng.Intn(len(readers)-1)]
					n, err := r.Read(make([]byte, 8))
					if n != 0 || err == nil {
						t.Fatalf("iter %d stream %x: stale reader read %d, %v", iter, stream, n, err)
					}
				}
			}
			if req.closed > 1 || (req.closed == 1 && sticky != ErrReadLimit) {
				t.Fatalf("iter %d stream %x: %d session closes, error %v", iter, stream, req.closed, sticky)
			}
			if sticky == ErrReadLimit && req.closed != 1 {
				t.Fatalf("iter %d stream %x: ErrReadLimit without closing the session", iter, stream)
			}
		}()
	}
}

// Two more shapes of "the message was delivered completely": every byte was
// handed out but the application did not ask for the io.EOF, and a message
// without bytes. (Before 474b14a: io.EOF. These two are a matter of taste —
// the reader never said io.EOF — and are listed apart in review.md.)
func TestY2CompletedWithoutSeeingEOF(t *testing.T) {
	for _, payload := range []string{"hello", ""} {
		t.Run(fmt.Sprintf("%d bytes", len(payload)), func(t *testing.T) {
			c, _ := y2Conn(y2Frame(7, []byte(payload)), 0) // the stream ends after the message
			_, r1, err := c.NextReader()
			if err != nil {
				t.Fatal(err)
			}
			if len(payload) > 0 {
				b := make([]byte, len(payload))
				if n, err := io.ReadFull(r1, b); n != len(payload) || err != nil {
					t.Fatalf("%d %v", n, err)
				}
			}
			if _, _, err := c.NextReader(); err != error(errUnexpectedEOF) {
				t.Fatalf("NextReader = %v", err)
			}
			if n, err := r1.Read(make([]byte, 4)); n != 0 || err != io.EOF {
				t.Errorf("reader of the completely delivered message reports %d, %v; want 0, io.EOF", n, err)
			}
		})
	}
}
