package engine

// Review of 474b14a, engine side: what a session sees when its WebTransport
// stream carries an over-limit / top-bit / truncated frame.
//   export GOFLAGS=-mod=mod GOPROXY=off; unset GOWORK
//   go test -vet=off -count=1 -race -run 'TestY2Engine' -v ./engine/

import (
	"bytes"
	"context"
	"encoding/binary"
	"fmt"
	"io"
	"net"
	"net/http"
	"net/http/httptest"
	"reflect"
	"sync"
	"testing"
	"time"
	"unsafe"

	"github.com/quic-go/quic-go"
	"github.com/quic-go/quic-go/http3"
	"github.com/zishang520/engine.io/v2/config"
	"github.com/zishang520/engine.io/v2/events"
	"github.com/zishang520/engine.io/v2/types"
	webtrans "github.com/zishang520/engine.io/v2/webtransport"
	wt "github.com/zishang520/webtransport-go"
)

type y2ReqStr struct {
	http3.Stream
	mu     sync.Mutex
	closed int
}

func (f *y2ReqStr) Write(p []byte) (int, error)     { return len(p), nil }
func (f *y2ReqStr) CancelRead(quic.StreamErrorCode) {}
func (f *y2ReqStr) Close() error                    { f.mu.Lock(); f.closed++; f.mu.Unlock(); return nil }
func (f *y2ReqStr) closes() int                     { f.mu.Lock(); defer f.mu.Unlock(); return f.closed }

type y2QConn struct{ http3.Connection }

func (y2QConn) RemoteAddr() net.Addr { return &net.TCPAddr{IP: net.IPv4(127, 0, 0, 1), Port: 1} }
func (y2QConn) LocalAddr() net.Addr  { return &net.TCPAddr{IP: net.IPv4(127, 0, 0, 1), Port: 2} }

func y2Session() (*wt.Session, *y2ReqStr) {
	s := &wt.Session{}
	f := &y2ReqStr{}
	v := reflect.ValueOf(s).Elem()
	var hs http3.Stream = f
	fl := v.FieldByName("requestStr")
	reflect.NewAt(fl.Type(), unsafe.Pointer(fl.UnsafeAddr())).Elem().Set(reflect.ValueOf(&hs).Elem())
	var qc http3.Connection = y2QConn{}
	fl = v.FieldByName("qconn")
	reflect.NewAt(fl.Type(), unsafe.Pointer(fl.UnsafeAddr())).Elem().Set(reflect.ValueOf(&qc).Elem())
	ctx, cancel := context.WithCancel(context.Background())
	cancel()
	fl = v.FieldByName("ctx")
	reflect.NewAt(fl.Type(), unsafe.Pointer(fl.UnsafeAddr())).Elem().Set(reflect.ValueOf(&ctx).Elem())
	return s, f
}

type y2Stream struct {
	r  io.Reader
	mu sync.Mutex
	w  bytes.Buffer
}

func (s *y2Stream) Read(p []byte) (int, error) { return s.r.Read(p) }
func (s *y2Stream) Write(p []byte) (int, error) {
	s.mu.Lock()
	defer s.mu.Unlock()
	return s.w.Write(p)
}
func (s *y2Stream) Close() error                     { return nil }
func (s *y2Stream) StreamID() quic.StreamID          { return 0 }
func (s *y2Stream) CancelWrite(wt.StreamErrorCode)   {}
func (s *y2Stream) CancelRead(wt.StreamErrorCode)    {}
func (s *y2Stream) SetDeadline(time.Time) error      { return nil }
func (s *y2Stream) SetReadDeadline(time.Time) error  { return nil }
func (s *y2Stream) SetWriteDeadline(time.Time) error { return nil }

func y2Text(s string) []byte { return append([]byte{byte(len(s))}, s...) } // text frame, 7-bit length

// Side observation, NOT a matter of 474b14a (same before it): when the client
// ends the stream at a frame boundary the engine session closes ("transport
// close") but nobody closes the WebTransport session.
func TestY2EngineSideNoteStreamFinLeavesSessionOpen(t *testing.T) {
	y2EngineRun(t, y2Case{"FIN at a frame boundary", nil})
}

type y2Case struct {
	name string
	bad  []byte
}

func TestY2EngineBadFrames(t *testing.T) {
	for _, tc := range []y2Case{
		{"over the limit", append(binary.BigEndian.AppendUint16([]byte{126}, 2000), bytes.Repeat([]byte{'4'}, 2000)...)},
		{"top bit", binary.BigEndian.AppendUint64([]byte{127}, 1<<63)},
		{"top bit, all ones", binary.BigEndian.AppendUint64([]byte{0x80 | 127}, 1<<64-1)},
		{"truncated message then FIN", append([]byte{100}, "4abc"...)},
	} {
		y2EngineRun(t, tc)
	}
}

func y2EngineRun(t *testing.T, tc y2Case) {
	{
		t.Run(tc.name, func(t *testing.T) {
			o := config.DefaultServerOptions()
			o.SetMaxHttpBufferSize(1000)
			o.SetPingInterval(25 * time.Second)
			o.SetPingTimeout(20 * time.Second)
			eng := NewServer(o)
			defer eng.Close()

			var mu sync.Mutex
			var msgs, closes, errs []string
			eng.On("connection", func(a ...any) {
				s := a[0].(Socket)
				s.On("message", func(a ...any) { mu.Lock(); msgs = append(msgs, fmt.Sprint(a[0])); mu.Unlock() })
				s.On("error", func(a ...any) { mu.Lock(); errs = append(errs, fmt.Sprint(a[0])); mu.Unlock() })
				s.On("close", func(a ...any) { mu.Lock(); closes = append(closes, fmt.Sprint(a[0])); mu.Unlock() })
			})

			pr, pw := io.Pipe()
			sess, req := y2Session()
			stream := &y2Stream{r: pr}
			conn := webtrans.NewConn(sess, stream, true, 0, 0, nil, nil, nil)
			conn.SetReadLimit(o.MaxHttpBufferSize())
			r := httptest.NewRequest(http.MethodConnect, "/engine.io/", nil)
			ctx := types.NewHttpContext(httptest.NewRecorder(), r)
			ctx.WebTransport = &types.WebTransportConn{EventEmitter: events.New(), Conn: conn}
			ctx.Query().Set("EIO", "4")
			cm, tr := eng.(*server).Handshake("webtransport", ctx)
			if tr == nil {
				t.Fatalf("handshake refused: %v", cm)
			}
			var sock Socket
			eng.Clients().Range(func(_ string, s Socket) bool { sock = s; return false })
			if sock == nil {
				t.Fatal("no session")
			}

			go func() {
				pw.Write(y2Text("4first"))
				if tc.bad != nil {
					pw.Write(tc.bad)
				}
				pw.Close() // FIN
			}()

			if !waitFor(2*time.Second, func() bool { return sock.ReadyState() == "closed" }) {
				t.Fatalf("session state %s", sock.ReadyState())
			}
			time.Sleep(50 * time.Millisecond)
			mu.Lock()
			defer mu.Unlock()
			t.Logf("messages %q errors %q closes %q session closes %d", msgs, errs, closes, req.closes())
			if len(msgs) != 1 || msgs[0] != "first" {
				t.Errorf("messages %q", msgs)
			}
			if len(closes) != 1 {
				t.Errorf("close events %q", closes)
			}
			if len(errs) > 1 {
				t.Errorf("error events %q", errs)
			}
			if req.closes() != 1 {
				t.Errorf("webtransport session closed %d times", req.closes())
			}
			if eng.ClientsCount() != 0 {
				t.Errorf("clients %d", eng.ClientsCount())
			}
		})
	}
}

func waitFor(d time.Duration, f func() bool) bool {
	dl := time.Now().Add(d)
	for time.Now().Before(dl) {
		if f() {
			return true
		}
		time.Sleep(2 * time.Millisecond)
	}
	return f()
}
