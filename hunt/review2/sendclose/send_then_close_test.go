package engine

// Send followed by a graceful Close: the message reaches the client before the
// connection goes away (C12), on a session that runs over websocket.

import (
	"net/http/httptest"
	"strings"
	"testing"
	"time"

	"github.com/gorilla/websocket"
	"github.com/zishang520/engine.io/v2/config"
	"github.com/zishang520/engine.io/v2/types"
)

func TestSendThenCloseFalseOverWebsocket(t *testing.T) {
	lost := 0
	const rounds = 40
	for i := 0; i < rounds; i++ {
		o := config.DefaultServerOptions()
		eng := NewServer(o)
		ts := httptest.NewServer(eng)
		conn := make(chan Socket, 1)
		eng.On("connection", func(a ...any) { conn <- a[0].(Socket) })
		ws, _, err := websocket.DefaultDialer.Dial("ws"+strings.TrimPrefix(ts.URL, "http")+"/engine.io/?EIO=4&transport=websocket", nil)
		if err != nil {
			t.Fatal(err)
		}
		s := <-conn
		ws.SetReadDeadline(time.Now().Add(2 * time.Second))
		if _, m, err := ws.ReadMessage(); err != nil || len(m) == 0 || m[0] != '0' {
			t.Fatalf("open packet: %q %v", m, err)
		}
		// a payload large enough that writing it takes longer than spawning a goroutine
		payload := strings.Repeat("x", 64*1024)
		s.Send(types.NewStringBufferString(payload), nil, nil)
		s.Close(false)
		got := false
		for {
			ws.SetReadDeadline(time.Now().Add(2 * time.Second))
			_, m, err := ws.ReadMessage()
			if err != nil {
				break
			}
			if len(m) == len(payload)+1 && m[0] == '4' {
				got = true
			}
		}
		if !got {
			lost++
		}
		ws.Close()
		eng.Close()
		ts.Close()
	}
	if lost > 0 {
		t.Fatalf("Send then Close(false): the message was lost in %d of %d rounds", lost, rounds)
	}
}
