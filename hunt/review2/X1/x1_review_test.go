package engine

// Review X1 of the candidate "orderly close waits for the batch in flight".
// Copy this file and rev_helpers_test.go into engine/ and run
//
//	export GOFLAGS=-mod=mod GOPROXY=off; unset GOWORK
//	go test -vet=off -count=1 -race -run 'TestX1' ./engine/
//
// X1_LONG=1 additionally waits for the 30 s bound in the stuck-peer tests.

import (
	"bytes"
	"fmt"
	"net"
	"net/http/httptest"
	"net/url"
	"os"
	"runtime"
	"strings"
	"sync"
	"sync/atomic"
	"testing"
	"time"

	"github.com/gorilla/websocket"
	"github.com/zishang520/engine.io/v2/config"
	"github.com/zishang520/engine.io/v2/transports"
	"github.com/zishang520/engine.io/v2/types"
)

// ---------------------------------------------------------------- harness

type trackListener struct {
	net.Listener
	accepted atomic.Int64
	closed   atomic.Int64
}

type trackConn struct {
	net.Conn
	l    *trackListener
	once sync.Once
}

func (l *trackListener) Accept() (net.Conn, error) {
	c, err := l.Listener.Accept()
	if err != nil {
		return nil, err
	}
	l.accepted.Add(1)
	return &trackConn{Conn: c, l: l}, nil
}

func (c *trackConn) Close() error {
	c.once.Do(func() { c.l.closed.Add(1) })
	return c.Conn.Close()
}

func (l *trackListener) open() int64 { return l.accepted.Load() - l.closed.Load() }

type x1Env struct {
	t      *testing.T
	eng    Server
	ts     *httptest.Server
	l      *trackListener
	connCh chan Socket

	mu     sync.Mutex
	closes map[string][]string
}

func x1New(t *testing.T, mod func(o *config.ServerOptions)) *x1Env {
	o := config.DefaultServerOptions()
	o.SetPingInterval(25 * time.Second)
	o.SetPingTimeout(20 * time.Second)
	if mod != nil {
		mod(o)
	}
	e := &x1Env{t: t, connCh: make(chan Socket, 64), closes: map[string][]string{}}
	e.eng = NewServer(o)
	e.eng.On("connection", func(a ...any) {
		s := a[0].(Socket)
		s.On("close", func(a ...any) {
			e.mu.Lock()
			e.closes[s.Id()] = append(e.closes[s.Id()], fmt.Sprint(a[0]))
			e.mu.Unlock()
		})
		e.connCh <- s
	})
	e.ts = httptest.NewUnstartedServer(e.eng)
	e.l = &trackListener{Listener: e.ts.Listener}
	e.ts.Listener = e.l
	e.ts.Start()
	t.Cleanup(func() {
		e.eng.Close()
		e.ts.CloseClientConnections()
		e.ts.Close()
	})
	return e
}

func (e *x1Env) reasons(sid string) []string {
	e.mu.Lock()
	defer e.mu.Unlock()
	return append([]string(nil), e.closes[sid]...)
}

func (e *x1Env) wsURL(q string) string {
	return "ws" + strings.TrimPrefix(e.ts.URL, "http") + "/engine.io/?" + q
}

// a websocket session whose client reads the open packet
func (e *x1Env) dial() (*websocket.Conn, Socket) {
	ws, _, err := websocket.DefaultDialer.Dial(e.wsURL("EIO=4&transport=websocket"), nil)
	if err != nil {
		e.t.Fatal(err)
	}
	s := <-e.connCh
	if m, err := wsReadText(ws, 2*time.Second); err != nil || !strings.HasPrefix(m, "0") {
		e.t.Fatalf("open packet %q %v", m, err)
	}
	// the writer of the open packet has emitted its 'drain' / 'ready': what
	// the tests observe from here on belongs to their own Sends
	waitFor(time.Second, func() bool { return s.Transport().Writable() })
	time.Sleep(2 * time.Millisecond)
	return ws, s
}

// a websocket session whose client has a tiny receive buffer and never reads
// after the open packet: a large Send blocks the server's writer in Write.
func (e *x1Env) dialStuck() (net.Conn, *websocket.Conn, Socket) {
	u, _ := url.Parse(e.wsURL("EIO=4&transport=websocket"))
	raw, err := net.Dial("tcp", u.Host)
	if err != nil {
		e.t.Fatal(err)
	}
	raw.(*net.TCPConn).SetReadBuffer(4096)
	ws, _, err := websocket.NewClient(raw, u, nil, 1024, 1024)
	if err != nil {
		e.t.Fatal(err)
	}
	s := <-e.connCh
	if m, err := wsReadText(ws, 2*time.Second); err != nil || !strings.HasPrefix(m, "0") {
		e.t.Fatalf("open packet %q %v", m, err)
	}
	ws.SetReadDeadline(time.Time{})
	return raw, ws, s
}

const stuckPayload = 48 << 20 // larger than any loopback socket buffering

func bigText(n int) types.BufferInterface {
	return types.NewStringBufferString(strings.Repeat("x", n))
}

func goroutinesSettle(base int, d time.Duration) int {
	waitFor(d, func() bool { runtime.GC(); return runtime.NumGoroutine() <= base })
	return runtime.NumGoroutine()
}

func long() bool { return os.Getenv("X1_LONG") != "" }

// how long until the server side of the one tracked connection is closed
func (e *x1Env) timeToServerClose(limit time.Duration) (time.Duration, bool) {
	t0 := time.Now()
	ok := waitFor(limit, func() bool { return e.l.open() == 0 })
	return time.Since(t0), ok
}

// ---------------------------------------------------------------- item 1 / 2: stuck peer

// F1. Peer stops reading, session dies of a ping timeout (the usual fate of a
// vanished mobile client): HEAD~1 closes the connection with the session, the
// candidate keeps connection + writer + reader + waiter goroutines for 30 s more.
func TestX1_StuckPeer_PingTimeout_ConnHeld(t *testing.T) {
	e := x1New(t, func(o *config.ServerOptions) {
		o.SetPingInterval(300 * time.Millisecond)
		o.SetPingTimeout(300 * time.Millisecond)
	})
	base := runtime.NumGoroutine()
	raw, _, s := e.dialStuck()
	defer raw.Close()
	s.Send(bigText(stuckPayload), nil, nil)
	if !waitFor(5*time.Second, func() bool { return len(e.reasons(s.Id())) > 0 }) {
		t.Fatalf("session not closed by the heartbeat")
	}
	t.Logf("session closed: %v; transport state %s", e.reasons(s.Id()), s.Transport().ReadyState())
	d, ok := e.timeToServerClose(3 * time.Second)
	g := runtime.NumGoroutine()
	if !ok {
		t.Errorf("ping timeout with a writer blocked on a non-reading peer: server connection still open %v after the session's close event (open conns %d, goroutines %d, baseline %d)", d.Round(time.Millisecond), e.l.open(), g, base)
		if long() {
			d2, ok2 := e.timeToServerClose(40 * time.Second)
			t.Logf("X1_LONG: closed=%v after a further %v; goroutines %d", ok2, d2.Round(time.Millisecond), goroutinesSettle(base, 2*time.Second))
		}
	} else {
		t.Logf("server connection closed %v after the close event", d.Round(time.Millisecond))
	}
}

// F2. Same peer, graceful Close(false): bounded by writeDrainTimeout as designed;
// measured here so that the bound is on record. Not counted as a defect by itself.
func TestX1_StuckPeer_CloseFalse_Bound(t *testing.T) {
	e := x1New(t, nil)
	base := runtime.NumGoroutine()
	raw, _, s := e.dialStuck()
	defer raw.Close()
	s.Send(bigText(stuckPayload), nil, nil)
	time.Sleep(100 * time.Millisecond)
	t0 := time.Now()
	s.Close(false)
	t.Logf("Close(false) returned after %v, session %s, reasons %v, transport %s", time.Since(t0).Round(time.Microsecond), s.ReadyState(), e.reasons(s.Id()), s.Transport().ReadyState())
	if r := e.reasons(s.Id()); len(r) != 1 || r[0] != "forced close" {
		t.Errorf("close events %v", r)
	}
	d, ok := e.timeToServerClose(2 * time.Second)
	t.Logf("server connection closed within 2 s: %v (%v); goroutines %d (baseline %d)", ok, d.Round(time.Millisecond), runtime.NumGoroutine(), base)
	if !ok && long() {
		d2, ok2 := e.timeToServerClose(40 * time.Second)
		g := goroutinesSettle(base, 2*time.Second)
		t.Logf("X1_LONG: closed=%v after a further %v; goroutines %d (baseline %d)", ok2, d2.Round(time.Millisecond), g, base)
		if !ok2 {
			t.Errorf("connection never closed: the 30 s bound does not hold")
		}
		if g > base {
			t.Errorf("goroutines left after the bound: %d > %d\n%s", g, base, dumpGoroutines())
		}
	}
}

// F3. Close(false) with a blocked writer, then the application gives up and
// calls Close(true) / Server.Close(): neither reaches the connection any more
// (the session is already 'closed' and out of Clients()).
func TestX1_StuckPeer_CloseFalse_ThenDiscardCannotReach(t *testing.T) {
	e := x1New(t, nil)
	raw, _, s := e.dialStuck()
	defer raw.Close()
	s.Send(bigText(stuckPayload), nil, nil)
	time.Sleep(100 * time.Millisecond)
	s.Close(false)
	s.Close(true)
	e.eng.Close()
	d, ok := e.timeToServerClose(2 * time.Second)
	if !ok {
		t.Errorf("Close(false); Close(true); Server.Close(): server connection still open after %v (clients registered: %d, transport %s)", d.Round(time.Millisecond), e.eng.ClientsCount(), s.Transport().ReadyState())
	}
}

// Server.Close() with a batch in flight and no previous Close(false): discarding, at once.
func TestX1_StuckPeer_ServerClose_AtOnce(t *testing.T) {
	e := x1New(t, nil)
	base := runtime.NumGoroutine()
	raw, _, s := e.dialStuck()
	defer raw.Close()
	s.Send(bigText(stuckPayload), nil, nil)
	time.Sleep(100 * time.Millisecond)
	e.eng.Close()
	d, ok := e.timeToServerClose(2 * time.Second)
	if !ok {
		t.Errorf("Server.Close with a batch in flight: connection still open after %v", d)
	}
	if r := e.reasons(s.Id()); len(r) != 1 || r[0] != "forced close" {
		t.Errorf("close events %v", r)
	}
	if g := goroutinesSettle(base, 2*time.Second); g > base {
		t.Errorf("goroutines %d > baseline %d\n%s", g, base, dumpGoroutines())
	}
}

// Close(true) with a batch in flight: at once.
func TestX1_StuckPeer_CloseTrue_AtOnce(t *testing.T) {
	e := x1New(t, nil)
	raw, _, s := e.dialStuck()
	defer raw.Close()
	s.Send(bigText(stuckPayload), nil, nil)
	time.Sleep(100 * time.Millisecond)
	s.Close(true)
	if d, ok := e.timeToServerClose(2 * time.Second); !ok {
		t.Errorf("Close(true): connection still open after %v", d)
	}
}

// ---------------------------------------------------------------- item 1: writer error paths

// The peer resets the connection while the batch is being written: 'error' (or
// 'close') is emitted from inside send, with w.mu held and the batch in flight,
// and reaches OnClose -> clearTransport -> transport.Close -> DoClose.
func TestX1_WriterError_InFlight_NoDeadlock(t *testing.T) {
	e := x1New(t, nil)
	base := runtime.NumGoroutine()
	for i := 0; i < 10; i++ {
		raw, _, s := e.dialStuck()
		s.Send(bigText(stuckPayload), nil, nil)
		time.Sleep(50 * time.Millisecond)
		raw.(*net.TCPConn).SetLinger(0)
		raw.Close() // RST
		if !waitFor(3*time.Second, func() bool { return len(e.reasons(s.Id())) > 0 }) {
			t.Fatalf("round %d: no close event after the peer reset the connection\n%s", i, dumpGoroutines())
		}
		if r := e.reasons(s.Id()); len(r) != 1 {
			t.Errorf("round %d: close events %v", i, r)
		}
		if !waitFor(3*time.Second, func() bool { return s.Transport().ReadyState() == "closed" }) {
			t.Errorf("round %d: transport stays %s", i, s.Transport().ReadyState())
		}
	}
	if d, ok := e.timeToServerClose(3 * time.Second); !ok {
		t.Errorf("connections still open after %v: %d", d, e.l.open())
	}
	if g := goroutinesSettle(base, 3*time.Second); g > base {
		t.Errorf("goroutines %d > baseline %d\n%s", g, base, dumpGoroutines())
	}
}

// Peer already gone (FIN, then RST on write) when the server sends and closes.
func TestX1_PeerGone_SendCloseFalse(t *testing.T) {
	e := x1New(t, nil)
	base := runtime.NumGoroutine()
	for i := 0; i < 20; i++ {
		ws, s := e.dial()
		ws.UnderlyingConn().(*net.TCPConn).SetLinger(0)
		ws.UnderlyingConn().Close()
		if i%2 == 0 {
			time.Sleep(20 * time.Millisecond) // the reader may or may not have noticed
		}
		done := make(chan struct{})
		go func() {
			s.Send(bigText(1<<20), nil, nil)
			s.Close(false)
			close(done)
		}()
		select {
		case <-done:
		case <-time.After(3 * time.Second):
			t.Fatalf("round %d: Send+Close(false) on a dead peer did not return\n%s", i, dumpGoroutines())
		}
		if !waitFor(3*time.Second, func() bool { return len(e.reasons(s.Id())) == 1 }) {
			t.Errorf("round %d: close events %v", i, e.reasons(s.Id()))
		}
	}
	if d, ok := e.timeToServerClose(3 * time.Second); !ok {
		t.Errorf("connections still open after %v: %d", d, e.l.open())
	}
	if g := goroutinesSettle(base, 3*time.Second); g > base {
		t.Errorf("goroutines %d > baseline %d\n%s", g, base, dumpGoroutines())
	}
}

// ---------------------------------------------------------------- item 1: Close(false) from listeners

func TestX1_CloseFalse_FromListeners(t *testing.T) {
	type hook struct {
		name string
		arm  func(s Socket)
		send func(s Socket)
	}
	payload := 256 << 10
	hooks := []hook{
		{"socket-drain", func(s Socket) { s.Once("drain", func(...any) { s.Close(false) }) }, nil},
		{"socket-flush", func(s Socket) { s.Once("flush", func(...any) { s.Close(false) }) }, nil},
		{"transport-drain", func(s Socket) { s.Transport().Once("drain", func(...any) { s.Close(false) }) }, nil},
		{"send-callback", nil, func(s Socket) {
			s.Send(bigText(payload), nil, func(transports.Transport) { s.Close(false) })
		}},
		{"server-drain", func(s Socket) { s.(*socket).server.Once("drain", func(...any) { s.Close(false) }) }, nil},
	}
	for _, h := range hooks {
		t.Run(h.name, func(t *testing.T) {
			e := x1New(t, nil)
			base := runtime.NumGoroutine()
			delivered := 0
			const rounds = 15
			for i := 0; i < rounds; i++ {
				ws, s := e.dial()
				if h.arm != nil {
					h.arm(s)
				}
				done := make(chan struct{})
				go func() {
					if h.send != nil {
						h.send(s)
					} else {
						s.Send(bigText(payload), nil, nil)
					}
					close(done)
				}()
				select {
				case <-done:
				case <-time.After(3 * time.Second):
					t.Fatalf("Send blocked (listener %s)\n%s", h.name, dumpGoroutines())
				}
				got := false
				for {
					ws.SetReadDeadline(time.Now().Add(3 * time.Second))
					_, m, err := ws.ReadMessage()
					if err != nil {
						if ne, ok := err.(net.Error); ok && ne.Timeout() {
							t.Fatalf("connection not closed after Close(false) from %s; session %s transport %s\n%s", h.name, s.ReadyState(), s.Transport().ReadyState(), dumpGoroutines())
						}
						break
					}
					if len(m) == payload+1 {
						got = true
					}
				}
				if got {
					delivered++
				}
				if !waitFor(2*time.Second, func() bool { return len(e.reasons(s.Id())) == 1 }) {
					t.Errorf("close events %v", e.reasons(s.Id()))
				} else if r := e.reasons(s.Id()); r[0] != "forced close" {
					t.Errorf("close reason %v", r)
				}
				ws.Close()
			}
			t.Logf("%s: message delivered in %d of %d rounds", h.name, delivered, rounds)
			if h.name != "socket-flush" && delivered != rounds {
				// 'flush' is emitted before the batch is handed to the transport: the
				// close precedes the Send there on HEAD~1 too
				t.Errorf("%s: message lost in %d of %d rounds", h.name, rounds-delivered, rounds)
			}
			if g := goroutinesSettle(base, 3*time.Second); g > base {
				t.Errorf("goroutines %d > baseline %d\n%s", g, base, dumpGoroutines())
			}
		})
	}
}

// ---------------------------------------------------------------- item 3: behaviour

// Several Sends in a row, text and binary, sizes mixed, then Close(false): all
// delivered, in order, one 'forced close', the connection closed promptly.
func TestX1_Order_MultiSend_Binary(t *testing.T) {
	e := x1New(t, nil)
	base := runtime.NumGoroutine()
	var worst time.Duration
	for round := 0; round < 25; round++ {
		ws, s := e.dial()
		const n = 12
		want := make([][]byte, n)
		for i := 0; i < n; i++ {
			size := 10 + (i%4)*70000
			if i%2 == 0 {
				p := strings.Repeat(string(rune('a'+i)), size)
				want[i] = []byte("4" + p)
				s.Send(types.NewStringBufferString(p), nil, nil)
			} else {
				p := bytes.Repeat([]byte{byte(i)}, size)
				want[i] = p
				s.Send(types.NewBytesBuffer(p), nil, nil)
			}
		}
		s.Close(false)
		closedAt := time.Now()
		i := 0
		for {
			ws.SetReadDeadline(time.Now().Add(3 * time.Second))
			_, m, err := ws.ReadMessage()
			if err != nil {
				if ne, ok := err.(net.Error); ok && ne.Timeout() {
					t.Fatalf("round %d: connection not closed", round)
				}
				break
			}
			if i < n && !bytes.Equal(m, want[i]) {
				t.Fatalf("round %d: message %d differs (len %d, want %d)", round, i, len(m), len(want[i]))
			}
			i++
		}
		if d := time.Since(closedAt); d > worst {
			worst = d
		}
		if i != n {
			t.Errorf("round %d: %d of %d messages delivered before the close", round, i, n)
		}
		if !waitFor(2*time.Second, func() bool { return len(e.reasons(s.Id())) == 1 }) || e.reasons(s.Id())[0] != "forced close" {
			t.Errorf("round %d: close events %v", round, e.reasons(s.Id()))
		}
		// a Send issued after Close(false) is dropped silently
		s.Send(types.NewStringBufferString("late"), nil, func(transports.Transport) { t.Errorf("callback of a late Send ran") })
		ws.Close()
	}
	t.Logf("worst time from Close(false) returning to the client seeing the connection closed: %v", worst.Round(time.Microsecond))
	if d, ok := e.timeToServerClose(2 * time.Second); !ok {
		t.Errorf("connections still open after %v: %d", d, e.l.open())
	}
	if g := goroutinesSettle(base, 3*time.Second); g > base {
		t.Errorf("goroutines %d > baseline %d\n%s", g, base, dumpGoroutines())
	}
}

// Nothing in flight: the connection is closed before Close(false) returns.
func TestX1_Idle_CloseFalse_Synchronous(t *testing.T) {
	e := x1New(t, nil)
	for i := 0; i < 20; i++ {
		ws, s := e.dial()
		time.Sleep(10 * time.Millisecond) // open packet written, writer idle
		before := e.l.closed.Load()
		s.Close(false)
		if e.l.closed.Load() != before+1 {
			t.Errorf("round %d: connection not closed when Close(false) returned (transport %s)", i, s.Transport().ReadyState())
		}
		if r := e.reasons(s.Id()); len(r) != 1 || r[0] != "forced close" {
			t.Errorf("round %d: close events %v", i, r)
		}
		ws.Close()
	}
}

// polling -> websocket upgrade, then Send + Close(false)
func TestX1_Upgrade_SendCloseFalse(t *testing.T) {
	lost := 0
	const rounds = 15
	payload := 128 << 10
	re := revNew(t, nil)
	for i := 0; i < rounds; i++ {
		sid, s := re.handshake("4")
		ws := re.probeWS(sid)
		ws.WriteMessage(websocket.TextMessage, []byte("5"))
		if !waitFor(2*time.Second, func() bool { return s.Upgraded() && s.Transport().Name() == "websocket" }) {
			t.Fatalf("not upgraded")
		}
		s.Send(bigText(payload), nil, nil)
		s.Close(false)
		got := false
		for {
			ws.SetReadDeadline(time.Now().Add(3 * time.Second))
			_, m, err := ws.ReadMessage()
			if err != nil {
				if ne, ok := err.(net.Error); ok && ne.Timeout() {
					t.Fatalf("round %d: connection not closed", i)
				}
				break
			}
			if len(m) == payload+1 {
				got = true
			}
		}
		if !got {
			lost++
		}
		if r := re.closeReasons(sid); len(r) != 1 || r[0] != "forced close" {
			t.Errorf("round %d: close events %v", i, r)
		}
		ws.Close()
	}
	if lost > 0 {
		t.Errorf("after an upgrade: message lost in %d of %d rounds", lost, rounds)
	}
}

// ---------------------------------------------------------------- item 4: races

// Send, Close(false), Close(true) and the peer's own close race one another.
func TestX1_Race_SendCloseStress(t *testing.T) {
	e := x1New(t, nil)
	base := runtime.NumGoroutine()
	var leaked int64
	otherLeaks := 0
	for i := 0; i < 60; i++ {
		ws, s := e.dial()
		go func() {
			for {
				if _, _, err := ws.ReadMessage(); err != nil {
					return
				}
			}
		}()
		var wg sync.WaitGroup
		for k := 0; k < 3; k++ {
			wg.Add(1)
			go func() {
				defer wg.Done()
				s.Send(bigText(40000+k), nil, nil)
			}()
		}
		wg.Add(1)
		go func() { defer wg.Done(); s.Close(false) }()
		switch i % 3 {
		case 1:
			wg.Add(1)
			go func() { defer wg.Done(); s.Close(true) }()
		case 2:
			wg.Add(1)
			go func() { defer wg.Done(); ws.UnderlyingConn().Close() }()
		}
		done := make(chan struct{})
		go func() { wg.Wait(); close(done) }()
		select {
		case <-done:
		case <-time.After(5 * time.Second):
			t.Fatalf("round %d blocked\n%s", i, dumpGoroutines())
		}
		if !waitFor(3*time.Second, func() bool { return len(e.reasons(s.Id())) >= 1 }) {
			t.Fatalf("round %d: no close event; session %s transport %s", i, s.ReadyState(), s.Transport().ReadyState())
		}
		if r := e.reasons(s.Id()); len(r) != 1 {
			t.Errorf("round %d: close events %v", i, r)
		}
		ws.Close()
		if !waitFor(time.Second, func() bool { return e.l.open() == leaked }) {
			leaked = e.l.open()
			if i%3 != 2 {
				otherLeaks++
			}
			t.Logf("round %d (variant %d): server connection left open; reasons %v session %s transport %s %s discarded %v", i, i%3, e.reasons(s.Id()), s.ReadyState(), s.Transport().Name(), s.Transport().ReadyState(), s.Transport().Discarded())
		}
	}
	// variant 2 (the client goes away first) leaves the server's net.Conn open
	// on HEAD~1 as well: see TestX1_Side_ClientGone_ServerConnNeverClosed. Only
	// the other variants count here.
	if otherLeaks > 0 {
		t.Errorf("connections left open in rounds where the server closed: %d", otherLeaks)
	}
	if g := goroutinesSettle(base, 3*time.Second); g > base {
		t.Errorf("goroutines %d > baseline %d\n%s", g, base, dumpGoroutines())
	}
}

// Close(false) while the session is still on polling with a packet buffered (no
// poll pending), then the upgrade completes: the switch flushes the buffer to the
// websocket and the pending close follows at once -- the packet must arrive.
func TestX1_Upgrade_CloseFalsePendingAcrossSwitch(t *testing.T) {
	lost := 0
	const rounds = 15
	payload := 128 << 10
	re := revNew(t, nil)
	for i := 0; i < rounds; i++ {
		sid, s := re.handshake("4")
		ws := re.probeWS(sid)
		s.Send(bigText(payload), nil, nil) // buffered: the poll has been answered by the noop
		s.Close(false)                     // waits for 'drain'
		if s.ReadyState() != "closing" {
			t.Fatalf("round %d: state %s", i, s.ReadyState())
		}
		ws.WriteMessage(websocket.TextMessage, []byte("5"))
		got := false
		for {
			ws.SetReadDeadline(time.Now().Add(3 * time.Second))
			_, m, err := ws.ReadMessage()
			if err != nil {
				if ne, ok := err.(net.Error); ok && ne.Timeout() {
					t.Fatalf("round %d: connection not closed; session %s", i, s.ReadyState())
				}
				break
			}
			if len(m) == payload+1 {
				got = true
			}
		}
		if !got {
			lost++
		}
		if !waitFor(2*time.Second, func() bool { return len(re.closeReasons(sid)) == 1 }) || re.closeReasons(sid)[0] != "forced close" {
			t.Errorf("round %d: close events %v", i, re.closeReasons(sid))
		}
		ws.Close()
	}
	if lost > 0 {
		t.Errorf("close pending across the switch: message lost in %d of %d rounds", lost, rounds)
	}
}
