package transports

// Review X1: sendTracker / closeAfter under -race.
//
//	go test -vet=off -count=1 -race -run TestX1 ./transports/

import (
	"runtime"
	"sync"
	"sync/atomic"
	"testing"
	"time"
)

func TestX1_SendTracker_Race(t *testing.T) {
	for round := 0; round < 200; round++ {
		var tr sendTracker
		var closed atomic.Int32
		var wg sync.WaitGroup
		for k := 0; k < 4; k++ {
			tr.begin()
			wg.Add(1)
			go func() { defer wg.Done(); time.Sleep(time.Duration(k) * 100 * time.Microsecond); tr.end() }()
		}
		for k := 0; k < 3; k++ {
			wg.Add(1)
			go func() { defer wg.Done(); closeAfter(tr.done(), func() { closed.Add(1) }) }()
		}
		wg.Wait()
		dl := time.Now().Add(2 * time.Second)
		for closed.Load() != 3 && time.Now().Before(dl) {
			time.Sleep(time.Millisecond)
		}
		if closed.Load() != 3 {
			t.Fatalf("round %d: %d of 3 closes ran", round, closed.Load())
		}
		// idle again: done() is closed at once and closeAfter runs inline
		ran := false
		closeAfter(tr.done(), func() { ran = true })
		if !ran {
			t.Fatalf("idle tracker: close not synchronous")
		}
	}
}

// a batch begun after done() was taken is waited for as well
func TestX1_SendTracker_LateBegin(t *testing.T) {
	var tr sendTracker
	tr.begin()
	ch := tr.done()
	tr.begin()
	tr.end()
	select {
	case <-ch:
		t.Fatalf("idle signalled with a batch in flight")
	default:
	}
	tr.end()
	select {
	case <-ch:
	case <-time.After(time.Second):
		t.Fatalf("idle never signalled")
	}
}

// the candidate's closeAfter, verbatim (time.After), to measure what the timer
// of an early-finished wait costs
func closeAfterCandidate(idle <-chan struct{}, closeConn func()) {
	select {
	case <-idle:
		closeConn()
	default:
		go func() {
			select {
			case <-idle:
			case <-time.After(writeDrainTimeout):
			}
			closeConn()
		}()
	}
}

// Measurement, not a pass/fail test: heap retained after N waits that ended
// early. Run with and without GODEBUG=asynctimerchan=1 (the timer semantics of
// Go <= 1.22, which a main module with `go 1.22` or older in its go.mod gets).
func TestX1_TimerRetention_Measure(t *testing.T) {
	const N = 20000
	measure := func(name string, ca func(<-chan struct{}, func())) {
		runtime.GC()
		var m0, m1 runtime.MemStats
		runtime.ReadMemStats(&m0)
		var closed atomic.Int32
		for i := 0; i < N; i++ {
			var tr sendTracker
			tr.begin()
			ca(tr.done(), func() { closed.Add(1) })
			tr.end()
		}
		for closed.Load() != N {
			time.Sleep(time.Millisecond)
		}
		time.Sleep(50 * time.Millisecond)
		runtime.GC()
		runtime.GC()
		runtime.ReadMemStats(&m1)
		t.Logf("%-10s %d early-finished waits: heap objects %+d, heap bytes %+d (%.0f B per wait), goroutines %d", name, N, int64(m1.HeapObjects)-int64(m0.HeapObjects), int64(m1.HeapAlloc)-int64(m0.HeapAlloc), float64(int64(m1.HeapAlloc)-int64(m0.HeapAlloc))/N, runtime.NumGoroutine())
	}
	measure("candidate", closeAfterCandidate)
	measure("suggested", closeAfter)
}
