package engine

import (
	"testing"
	"time"

	"github.com/gorilla/websocket"
)

// Side observation (also on HEAD~1, not caused by the candidate): a client
// that goes away -- abruptly or with a close frame -- ends the session with
// 'transport close', and nobody closes the server's net.Conn.
func TestX1_Side_ClientGone_ServerConnNeverClosed(t *testing.T) {
	for _, polite := range []bool{false, true} {
		e := x1New(t, nil)
		ws, s := e.dial()
		if polite {
			ws.WriteControl(websocket.CloseMessage, websocket.FormatCloseMessage(websocket.CloseNormalClosure, ""), time.Now().Add(time.Second))
			time.Sleep(50 * time.Millisecond)
		}
		ws.UnderlyingConn().Close()
		if !waitFor(2*time.Second, func() bool { return len(e.reasons(s.Id())) == 1 }) {
			t.Fatalf("no close event")
		}
		d, ok := e.timeToServerClose(2 * time.Second)
		t.Logf("polite=%v reasons %v transport %s: server conn closed=%v (%v)", polite, e.reasons(s.Id()), s.Transport().ReadyState(), ok, d.Round(time.Millisecond))
		if !ok {
			t.Errorf("polite=%v: the server's connection is never closed (open %d)", polite, e.l.open())
		}
	}
}
