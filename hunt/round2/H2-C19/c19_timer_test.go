package utils

// Demonstrations for property C19 (timers).  Place in utils/ and run
//   export GOFLAGS=-mod=mod GOPROXY=off; unset GOWORK
//   go test -vet=off -count=1 -v -run TestC19_ ./utils/
// Every test FAILS on the unmodified tree; none needs a source change.

import (
	"runtime"
	"sync"
	"sync/atomic"
	"testing"
	"time"
)

// F1. A timeout cancelled at its due instant: Stop/ClearTimeout returns, and
// the callback STARTS afterwards.  (The timer goroutine has taken the tick
// from timer.C but has not called fn yet; timer.Stop() reports false, Stop
// sends no signal and keeps no record of the cancellation.)
func TestC19_TimeoutCallbackStartsAfterStopReturned(t *testing.T) {
	const period = 200 * time.Microsecond
	for i := 0; i < 200000; i++ {
		var stopReturned, startedLate atomic.Bool
		done := make(chan struct{})
		tm := SetTimeout(func() {
			if stopReturned.Load() { // first statement of the callback
				startedLate.Store(true)
			}
			close(done)
		}, period)
		for start := time.Now(); time.Since(start) < period; {
		}
		ClearTimeout(tm)
		stopReturned.Store(true) // strictly after the cancellation returned
		select {
		case <-done:
		case <-time.After(2 * time.Millisecond):
		}
		if startedLate.Load() {
			t.Fatalf("attempt %d: the callback started after ClearTimeout had returned", i)
		}
	}
}

// F2. Timer.Unref panics on every call (runtime.AddCleanup(t, f, t): ptr == arg).
func TestC19_UnrefPanics(t *testing.T) {
	tm := SetTimeout(func() {}, time.Hour)
	defer tm.Stop()
	defer func() {
		if r := recover(); r != nil {
			t.Fatalf("Timer.Unref panicked: %v", r)
		}
	}()
	tm.Unref()
}

// F3a. A cancelled timeout is brought back by Refresh (deterministic).
func TestC19_RefreshAfterStopRunsCancelledCallback(t *testing.T) {
	var n atomic.Int32
	tm := SetTimeout(func() { n.Add(1) }, 20*time.Millisecond)
	ClearTimeout(tm)
	tm.Refresh()
	time.Sleep(80 * time.Millisecond)
	if n.Load() != 0 {
		t.Fatalf("the cancelled timeout ran %d time(s)", n.Load())
	}
}

// F3b. Refresh concurrent with Stop: whichever way the two are ordered, the
// callback runs after Stop returned (Refresh took the pending timer, Stop saw
// "not pending" and did nothing, Refresh re-armed; or Stop first, then F3a).
func TestC19_RefreshConcurrentWithStop(t *testing.T) {
	for i := 0; i < 200; i++ {
		var n atomic.Int32
		tm := SetTimeout(func() { n.Add(1) }, 20*time.Millisecond)
		var wg sync.WaitGroup
		wg.Add(2)
		go func() { defer wg.Done(); tm.Refresh() }()
		go func() { defer wg.Done(); tm.Stop() }()
		wg.Wait()
		before := n.Load() // 0 unless the machine stalled for 20ms
		time.Sleep(40 * time.Millisecond)
		if n.Load() != before {
			t.Fatalf("attempt %d: the callback ran after Stop had returned", i)
		}
	}
}

// F3c. Two concurrent Refresh calls on a fired timeout both see "not pending"
// and both start a waiting goroutine; one tick serves one of them, the other
// is never signalled (Stop on a fired timer sends nothing): left behind forever.
func TestC19_ConcurrentRefreshLeavesGoroutine(t *testing.T) {
	base := runtime.NumGoroutine()
	var timers []*Timer
	for i := 0; i < 200; i++ {
		tm := SetTimeout(func() {}, time.Millisecond)
		time.Sleep(2 * time.Millisecond) // fired, callback done
		var wg sync.WaitGroup
		var gate atomic.Int32
		wg.Add(2)
		for k := 0; k < 2; k++ {
			go func() {
				defer wg.Done()
				gate.Add(1)
				for gate.Load() < 2 {
				}
				tm.Refresh()
			}()
		}
		wg.Wait()
		timers = append(timers, tm)
	}
	time.Sleep(20 * time.Millisecond) // every timer fired once more
	for _, tm := range timers {
		tm.Stop()
	}
	time.Sleep(20 * time.Millisecond)
	if g := runtime.NumGoroutine(); g > base+2 {
		t.Fatalf("%d goroutines left behind after every timer was stopped", g-base)
	}
}
