package engine

import (
	"io"
	"net/http"
	"net/http/httptest"
	"regexp"
	"strings"
	"testing"
	"time"

	"github.com/gorilla/websocket"
	"github.com/zishang520/engine.io/v2/config"
)

// The upgrade packet is accepted at the instant the upgrade timeout is due.
// MaybeUpgrade's packet listener completes the upgrade and its cleanup()
// cancels the upgrade timeout (utils.ClearTimeout returns).  The timer
// goroutine has already received the tick, so Stop sends it no signal, and the
// timeout callback starts AFTER the cancellation returned: it finds the
// candidate (by now the session's current transport) "open" and closes it.
// The freshly upgraded session dies with "transport close".
func TestC19_CancelledUpgradeTimeoutStillCloses(t *testing.T) {
	opts := config.DefaultServerOptions()
	opts.SetUpgradeTimeout(500 * time.Millisecond)
	opts.SetPingInterval(30 * time.Second)
	opts.SetPingTimeout(30 * time.Second)
	srv := NewServer(opts)
	hs := httptest.NewServer(srv)
	defer hs.Close()

	closed := make(chan string, 1)
	upgraded := make(chan struct{}, 1)
	srv.On("connection", func(args ...any) {
		s := args[0].(Socket)
		s.On("upgrade", func(...any) { upgraded <- struct{}{} })
		s.On("close", func(a ...any) { closed <- a[0].(string) })
	})

	// handshake (polling)
	resp, err := http.Get(hs.URL + "/engine.io/?EIO=4&transport=polling")
	if err != nil {
		t.Fatal(err)
	}
	body, _ := io.ReadAll(resp.Body)
	resp.Body.Close()
	m := regexp.MustCompile(`"sid":"([^"]+)"`).FindSubmatch(body)
	if m == nil {
		t.Fatalf("no sid in %q", body)
	}
	sid := string(m[1])

	// candidate transport: the upgrade timeout (500ms) starts now
	wsURL := "ws" + strings.TrimPrefix(hs.URL, "http") + "/engine.io/?EIO=4&transport=websocket&sid=" + sid
	start := time.Now()
	ws, _, err := websocket.DefaultDialer.Dial(wsURL, nil)
	if err != nil {
		t.Fatal(err)
	}
	defer ws.Close()
	time.Sleep(50 * time.Millisecond) // (known C08 window: let the listener attach)
	if err := ws.WriteMessage(websocket.TextMessage, []byte("2probe")); err != nil {
		t.Fatal(err)
	}
	if _, msg, err := ws.ReadMessage(); err != nil || string(msg) != "3probe" {
		t.Fatalf("probe: %q %v", msg, err)
	}

	// the upgrade packet arrives "at the due instant": the tick has been
	// received by the timer goroutine, the callback has not started yet
	// (sleep.diff stretches that instant to 300ms; unmodified it is a few
	// hundred nanoseconds to microseconds, see utils/c19_timer_test.go)
	time.Sleep(time.Until(start.Add(650 * time.Millisecond)))
	if err := ws.WriteMessage(websocket.TextMessage, []byte("5")); err != nil {
		t.Fatal(err)
	}

	select {
	case <-upgraded:
	case r := <-closed:
		t.Fatalf("session closed before upgrading: %s", r)
	case <-time.After(2 * time.Second):
		t.Skip("upgrade not accepted (timeout callback ran first) - not the interleaving under test")
	}

	// the upgrade completed and the timeout was cancelled: the session must live
	select {
	case r := <-closed:
		t.Fatalf("upgraded session was closed (%q) by the upgrade timeout callback that started after ClearTimeout returned", r)
	case <-time.After(1500 * time.Millisecond):
	}
}
