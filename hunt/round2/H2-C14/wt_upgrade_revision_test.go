package engine

// Demonstration for finding H2-C14: a revision-4 session that upgrades to
// WebTransport gets a transport that encodes and decodes packets with the
// revision-3 parser whenever the CONNECT URL carries no EIO=4 parameter -- which
// is what the reference client sends (engine.io-client opens
// new WebTransport(this.createUri("https")), i.e. no query string; the session
// id travels in the first packet 0{"sid":"…"}).
//
// Place this file in engine/ and run
//   export GOFLAGS=-mod=mod GOPROXY=off; unset GOWORK
//   go test -vet=off -count=1 -run 'TestWTUpgrade' -v ./engine/
//
// The test uses a real WebTransport (HTTP/3 over QUIC) server and client on
// 127.0.0.1 and a httptest server for the polling handshake.

import (
	"bufio"
	"bytes"
	"context"
	"crypto/ecdsa"
	"crypto/elliptic"
	"crypto/rand"
	"crypto/tls"
	"crypto/x509"
	"crypto/x509/pkix"
	"encoding/binary"
	"encoding/json"
	"encoding/pem"
	"fmt"
	"io"
	"math/big"
	"net"
	"net/http"
	"net/http/httptest"
	"os"
	"path/filepath"
	"testing"
	"time"

	"github.com/zishang520/engine.io/v2/config"
	"github.com/zishang520/engine.io/v2/types"
	webtrans "github.com/zishang520/engine.io/v2/webtransport"
	wt "github.com/zishang520/webtransport-go"
)

func h2c14Cert(t *testing.T, dir string) (string, string) {
	key, _ := ecdsa.GenerateKey(elliptic.P256(), rand.Reader)
	tpl := &x509.Certificate{
		SerialNumber: big.NewInt(1),
		Subject:      pkix.Name{CommonName: "localhost"},
		NotBefore:    time.Now().Add(-time.Hour),
		NotAfter:     time.Now().Add(24 * time.Hour),
		KeyUsage:     x509.KeyUsageDigitalSignature,
		ExtKeyUsage:  []x509.ExtKeyUsage{x509.ExtKeyUsageServerAuth},
		DNSNames:     []string{"localhost"},
		IPAddresses:  []net.IP{net.ParseIP("127.0.0.1")},
	}
	der, err := x509.CreateCertificate(rand.Reader, tpl, tpl, &key.PublicKey, key)
	if err != nil {
		t.Fatal(err)
	}
	kb, _ := x509.MarshalECPrivateKey(key)
	cf := filepath.Join(dir, "c.pem")
	kf := filepath.Join(dir, "k.pem")
	os.WriteFile(cf, pem.EncodeToMemory(&pem.Block{Type: "CERTIFICATE", Bytes: der}), 0600)
	os.WriteFile(kf, pem.EncodeToMemory(&pem.Block{Type: "EC PRIVATE KEY", Bytes: kb}), 0600)
	return cf, kf
}

type h2c14Frame struct {
	hdr     []byte
	binary  bool
	payload []byte
}

func (f *h2c14Frame) wire() []byte { return append(append([]byte{}, f.hdr...), f.payload...) }

// reads one frame of the Engine.IO WebTransport format
func h2c14ReadFrame(br *bufio.Reader) (*h2c14Frame, error) {
	b, err := br.ReadByte()
	if err != nil {
		return nil, err
	}
	f := &h2c14Frame{hdr: []byte{b}, binary: b&0x80 != 0}
	n := uint64(b & 0x7f)
	switch n {
	case 126:
		x := make([]byte, 2)
		if _, err := io.ReadFull(br, x); err != nil {
			return nil, err
		}
		f.hdr = append(f.hdr, x...)
		n = uint64(binary.BigEndian.Uint16(x))
	case 127:
		x := make([]byte, 8)
		if _, err := io.ReadFull(br, x); err != nil {
			return nil, err
		}
		f.hdr = append(f.hdr, x...)
		n = binary.BigEndian.Uint64(x)
	}
	f.payload = make([]byte, n)
	if _, err := io.ReadFull(br, f.payload); err != nil {
		return nil, err
	}
	return f, nil
}

func h2c14Frame7(binary bool, p []byte) []byte {
	h := byte(len(p)) // < 126 in this test
	if binary {
		h |= 0x80
	}
	return append([]byte{h}, p...)
}

type h2c14Session struct {
	sock  Socket
	write func([]byte)
	br    *bufio.Reader
	got   chan string
}

// polling handshake with EIO=4, then the WebTransport upgrade; connectQuery is
// appended to the CONNECT URL ("" is what the reference client sends)
func h2c14Upgraded(t *testing.T, connectQuery string) *h2c14Session {
	dir := t.TempDir()
	cf, kf := h2c14Cert(t, dir)
	pc, err := net.ListenPacket("udp", "127.0.0.1:0")
	if err != nil {
		t.Fatal(err)
	}
	addr := pc.LocalAddr().String()
	pc.Close()

	opts := config.DefaultServerOptions()
	opts.SetTransports(types.NewSet("polling", "websocket", "webtransport"))
	hs := types.NewWebServer(nil)
	eng := New(opts)
	wts := hs.ListenWebTransportTLS(addr, cf, kf, nil, nil)
	hs.HandleFunc("/engine.io/", func(w http.ResponseWriter, r *http.Request) {
		if webtrans.IsWebTransportUpgrade(r) {
			eng.OnWebTransportSession(types.NewHttpContext(w, r), wts)
		} else {
			eng.HandleRequest(types.NewHttpContext(w, r))
		}
	})
	t.Cleanup(func() { hs.Close(nil) })
	time.Sleep(200 * time.Millisecond)

	got := make(chan string, 100)
	sockCh := make(chan Socket, 1)
	eng.On("connection", func(a ...any) {
		s := a[0].(Socket)
		s.On("message", func(m ...any) {
			switch v := m[0].(type) {
			case *types.StringBuffer:
				got <- fmt.Sprintf("text:%q", v.String())
			case *types.BytesBuffer:
				got <- fmt.Sprintf("bin:% x", v.Bytes())
			default:
				got <- fmt.Sprintf("%T", v)
			}
		})
		s.On("close", func(a ...any) { got <- fmt.Sprintf("close:%v", a[0]) })
		sockCh <- s
	})

	// polling handshake, revision 4
	ts := httptest.NewServer(http.HandlerFunc(func(w http.ResponseWriter, r *http.Request) {
		eng.HandleRequest(types.NewHttpContext(w, r))
	}))
	t.Cleanup(ts.Close)
	resp, err := http.Get(ts.URL + "/engine.io/?EIO=4&transport=polling")
	if err != nil {
		t.Fatal(err)
	}
	body, _ := io.ReadAll(resp.Body)
	resp.Body.Close()
	if len(body) == 0 || body[0] != '0' {
		t.Fatalf("handshake: %q", body)
	}
	var open struct {
		Sid string `json:"sid"`
	}
	if err := json.Unmarshal(body[1:], &open); err != nil {
		t.Fatal(err)
	}
	s := <-sockCh
	if s.Protocol() != 4 {
		t.Fatalf("session revision %d", s.Protocol())
	}

	// WebTransport upgrade
	d := &wt.Dialer{TLSClientConfig: &tls.Config{InsecureSkipVerify: true}}
	ctx, cancel := context.WithTimeout(context.Background(), 5*time.Second)
	defer cancel()
	_, sess, err := d.Dial(ctx, "https://"+addr+"/engine.io/"+connectQuery, nil)
	if err != nil {
		t.Fatal("dial:", err)
	}
	t.Cleanup(func() { sess.CloseWithError(0, "") })
	str, err := sess.OpenStreamSync(ctx)
	if err != nil {
		t.Fatal("open stream:", err)
	}
	write := func(b []byte) {
		if _, err := str.Write(b); err != nil {
			t.Fatal(err)
		}
	}
	br := bufio.NewReader(str)
	write(h2c14Frame7(false, []byte(`0{"sid":"`+open.Sid+`"}`)))
	write(h2c14Frame7(false, []byte("2probe")))
	f, err := h2c14ReadFrame(br)
	if err != nil {
		t.Fatal(err)
	}
	if f.binary || string(f.payload) != "3probe" {
		t.Fatalf("probe answer: % x %q", f.hdr, f.payload)
	}
	write(h2c14Frame7(false, []byte("5")))
	deadline := time.Now().Add(3 * time.Second)
	for !(s.Upgraded() && s.Transport().Name() == "webtransport") && time.Now().Before(deadline) {
		time.Sleep(10 * time.Millisecond)
	}
	if !s.Upgraded() || s.Transport().Name() != "webtransport" {
		t.Fatalf("not upgraded: %v %s", s.Upgraded(), s.Transport().Name())
	}
	return &h2c14Session{sock: s, write: write, br: br, got: got}
}

func (u *h2c14Session) expect(t *testing.T, want string) {
	t.Helper()
	select {
	case g := <-u.got:
		if g != want {
			t.Errorf("server application saw %q, want %q", g, want)
		}
	case <-time.After(2 * time.Second):
		t.Errorf("timeout waiting for %q", want)
	}
}

// server -> client: the bytes emitted for the binary message {1,2,3} must be
// the single frame 83 01 02 03
func TestWTUpgradeServerToClientBinary(t *testing.T) {
	u := h2c14Upgraded(t, "")
	u.sock.Send(types.NewBytesBuffer([]byte{1, 2, 3}), nil, nil)
	f, err := h2c14ReadFrame(u.br)
	if err != nil {
		t.Fatal(err)
	}
	if want := []byte{0x83, 1, 2, 3}; !bytes.Equal(f.wire(), want) {
		t.Errorf("binary message {1,2,3} on the wire: got % x, want % x", f.wire(), want)
	}
}

// client -> server: a binary frame is a message packet whose data is the whole payload
func TestWTUpgradeClientToServerBinary(t *testing.T) {
	for _, p := range [][]byte{{4, 5, 6}, {9, 9}, {1, 2, 3}, {2}} {
		t.Run(fmt.Sprintf("% x", p), func(t *testing.T) {
			u := h2c14Upgraded(t, "")
			u.write(h2c14Frame7(true, p))
			u.expect(t, fmt.Sprintf("bin:% x", p))
		})
	}
}

// control: the same exchange passes when the client happens to put EIO=4 into the CONNECT URL
func TestWTUpgradeControlWithEIO4InURL(t *testing.T) {
	u := h2c14Upgraded(t, "?EIO=4")
	u.sock.Send(types.NewBytesBuffer([]byte{1, 2, 3}), nil, nil)
	f, err := h2c14ReadFrame(u.br)
	if err != nil {
		t.Fatal(err)
	}
	if want := []byte{0x83, 1, 2, 3}; !bytes.Equal(f.wire(), want) {
		t.Errorf("binary message {1,2,3} on the wire: got % x, want % x", f.wire(), want)
	}
	u.write(h2c14Frame7(true, []byte{1, 2, 3}))
	u.expect(t, "bin:01 02 03")
}
