package engine

// Demonstration for property C16 (poll response decodes to the batch).
// Place in engine/ and run:
//   export GOFLAGS=-mod=mod GOPROXY=off; unset GOWORK
//   go test -vet=off -count=1 -run TestC16_V3BinaryPayloadNonASCIIString -v ./engine/
//
// A revision-3 session with binary support (no b64) is handed one batch that
// holds a binary message and a text message with a non-ASCII character. The
// response body (application/octet-stream, the revision-3 binary payload
// format) is decoded with an independent decoder written after the reference
// implementation (engine.io-parser 2.x decodePayloadAsBinary): every frame is
// <0|1> <length digits> 0xFF <length bytes>; a string frame holds the UTF-8
// bytes of the packet.

import (
	"bytes"
	"fmt"
	"io"
	"net/http"
	"net/http/httptest"
	"regexp"
	"testing"
	"time"
	"unicode/utf8"

	"github.com/zishang520/engine.io/v2/config"
	"github.com/zishang520/engine.io/v2/types"
)

type c16Packet struct {
	Type   byte // '0'..'6'
	Binary bool
	Data   []byte
}

func c16DecodeV3Binary(body []byte) ([]c16Packet, error) {
	var out []c16Packet
	for len(body) > 0 {
		if body[0] > 1 {
			return out, fmt.Errorf("frame marker %d is neither 0 (string) nor 1 (binary)", body[0])
		}
		isString := body[0] == 0
		body = body[1:]
		n, i := 0, 0
		for ; i < len(body) && body[i] != 0xFF; i++ {
			if body[i] > 9 {
				return out, fmt.Errorf("length digit %d out of range", body[i])
			}
			n = n*10 + int(body[i])
		}
		if i == len(body) {
			return out, fmt.Errorf("length not terminated by 0xFF")
		}
		body = body[i+1:]
		if n == 0 || n > len(body) {
			return out, fmt.Errorf("frame length %d, %d bytes left", n, len(body))
		}
		frame := body[:n]
		body = body[n:]
		if isString {
			if !utf8.Valid(frame) {
				return out, fmt.Errorf("string frame %q is not UTF-8", frame)
			}
			out = append(out, c16Packet{frame[0], false, frame[1:]})
		} else {
			out = append(out, c16Packet{frame[0] + '0', true, frame[1:]})
		}
	}
	return out, nil
}

func c16Get(t *testing.T, url string) (*http.Response, []byte) {
	t.Helper()
	resp, err := (&http.Client{Timeout: 5 * time.Second}).Get(url)
	if err != nil {
		t.Fatal(err)
	}
	defer resp.Body.Close()
	b, _ := io.ReadAll(resp.Body)
	return resp, b
}

func TestC16_V3BinaryPayloadNonASCIIString(t *testing.T) {
	opts := config.DefaultServerOptions()
	opts.SetAllowEIO3(true)
	srv := NewServer(opts)
	conns := make(chan Socket, 1)
	srv.On("connection", func(a ...any) { conns <- a[0].(Socket) })
	ts := httptest.NewServer(srv)
	defer ts.Close()

	base := ts.URL + "/engine.io/?EIO=3&transport=polling"
	_, hs := c16Get(t, base)
	m := regexp.MustCompile(`"sid":"([^"]+)"`).FindSubmatch(hs)
	if m == nil {
		t.Fatalf("no sid in handshake %q", hs)
	}
	sock := <-conns

	// one batch: both are buffered until the next poll arrives
	text := "é" // any non-ASCII text: "€", "😀", "日本" ...
	sock.Send(types.NewBytesBuffer([]byte{1, 2, 3}), nil, nil)
	sock.Send(types.NewStringBufferString(text), nil, nil)

	resp, body := c16Get(t, base+"&sid="+string(m[1]))
	t.Logf("Content-Type %q, body % x", resp.Header.Get("Content-Type"), body)
	if ct := resp.Header.Get("Content-Type"); ct != "application/octet-stream" {
		t.Fatalf("expected the binary payload format, got %q", ct)
	}

	want := []c16Packet{{'4', true, []byte{1, 2, 3}}, {'4', false, []byte(text)}}
	got, err := c16DecodeV3Binary(body)
	if err != nil {
		t.Errorf("the body is not a well-formed revision-3 binary payload: %v (decoded so far: %q)", err, got)
	}
	if fmt.Sprintf("%q", got) != fmt.Sprintf("%q", want) {
		t.Errorf("decoded packets differ from the batch\n want %q\n got  %q", want, got)
	}
	wantBody := append([]byte{1, 4, 0xFF, 4, 1, 2, 3, 0, 3, 0xFF, '4'}, text...)
	if !bytes.Equal(body, wantBody) {
		t.Errorf("body\n want % x\n got  % x", wantBody, body)
	}
}
