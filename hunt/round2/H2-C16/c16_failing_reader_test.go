package engine

// Second demonstration (same place, polling.send discards the encoder's error).
//   go test -vet=off -count=1 -run TestC16_FailingReaderCrashesServer -v ./engine/
// On the unmodified tree the test binary dies with a nil pointer dereference in
// transports.(*polling).DoWrite (goroutine started by polling.Send).

import (
	"errors"
	"net/http/httptest"
	"regexp"
	"testing"

	"github.com/zishang520/engine.io/v2/config"
)

type c16FailingReader struct{}

func (c16FailingReader) Read([]byte) (int, error) { return 0, errors.New("source failed") }

func TestC16_FailingReaderCrashesServer(t *testing.T) {
	srv := NewServer(config.DefaultServerOptions())
	conns := make(chan Socket, 1)
	srv.On("connection", func(a ...any) { conns <- a[0].(Socket) })
	ts := httptest.NewServer(srv)
	defer ts.Close()

	base := ts.URL + "/engine.io/?EIO=4&transport=polling"
	_, hs := c16Get(t, base)
	m := regexp.MustCompile(`"sid":"([^"]+)"`).FindSubmatch(hs)
	sock := <-conns
	closed := make(chan []any, 1)
	sock.On("close", func(a ...any) { closed <- a })

	// e.g. a file or network stream handed to Send whose Read fails
	sock.Send(c16FailingReader{}, nil, nil)

	// the poll must be answered one way or the other (an error status, or the
	// session closed with a transport error); the process must survive
	resp, body := c16Get(t, base+"&sid="+string(m[1]))
	t.Logf("poll answered: %d %q", resp.StatusCode, body)
}
