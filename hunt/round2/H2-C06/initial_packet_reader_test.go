package engine

// Demonstration for property C06: "A configured initial packet is delivered as
// the first message right after [the open packet]" -- for every session, and
// for every form the option accepts (config.ServerOptions.SetInitialPacket
// takes an io.Reader).
//
// Place this file in engine/ and run
//   export GOFLAGS=-mod=mod GOPROXY=off; unset GOWORK
//   go test -vet=off -count=1 -run 'TestInitialPacketReader' -v ./engine/
//
// It FAILS on the unmodified tree: only the first session receives the
// configured initial packet when the option is a plain reader (*strings.Reader,
// *bytes.Reader, *bytes.Buffer, *types.Buffer ...); every later session gets an
// EMPTY message ("4" / "b"), and two concurrent handshakes read the one shared
// reader at the same time.

import (
	"bytes"
	"encoding/json"
	"io"
	"net/http"
	"net/http/httptest"
	"strings"
	"testing"
	"time"

	ws "github.com/gorilla/websocket"
	"github.com/zishang520/engine.io/v2/config"
	"github.com/zishang520/engine.io/v2/types"
)

func ipGet(t *testing.T, url string) string {
	t.Helper()
	c := &http.Client{Timeout: 3 * time.Second}
	resp, err := c.Get(url)
	if err != nil {
		t.Fatalf("GET %s: %v", url, err)
	}
	defer resp.Body.Close()
	b, _ := io.ReadAll(resp.Body)
	if resp.StatusCode != 200 {
		t.Fatalf("GET %s: %d %s", url, resp.StatusCode, b)
	}
	return string(b)
}

func ipSid(t *testing.T, open string) string {
	t.Helper()
	if len(open) == 0 || open[0] != '0' {
		t.Fatalf("first packet is not an open packet: %q", open)
	}
	var o struct {
		Sid string `json:"sid"`
	}
	if err := json.Unmarshal([]byte(open[1:]), &o); err != nil || o.Sid == "" {
		t.Fatalf("bad open packet %q: %v", open, err)
	}
	return o.Sid
}

func TestInitialPacketReader(t *testing.T) {
	kinds := []struct {
		name string
		mk   func() io.Reader
		want string // EIO 4 text encoding of the message
	}{
		// control: the two forms the earlier repair covers
		{"types.StringBuffer", func() io.Reader { return types.NewStringBufferString("hello") }, "4hello"},
		{"types.BytesBuffer", func() io.Reader { return types.NewBytesBuffer([]byte("hello")) }, "baGVsbG8="},
		// the forms it does not cover
		{"strings.Reader", func() io.Reader { return strings.NewReader("hello") }, "4hello"},
		{"bytes.Reader", func() io.Reader { return bytes.NewReader([]byte("hello")) }, "baGVsbG8="},
		{"bytes.Buffer", func() io.Reader { return bytes.NewBufferString("hello") }, "baGVsbG8="},
		{"types.Buffer", func() io.Reader { return types.NewBufferString("hello") }, "baGVsbG8="},
	}
	for _, k := range kinds {
		t.Run(k.name, func(t *testing.T) {
			o := config.DefaultServerOptions()
			o.SetInitialPacket(k.mk())
			srv := NewServer(o)
			hs := httptest.NewServer(srv)
			defer hs.Close()
			defer srv.Close()

			// three sessions one after the other on polling, then two on websocket
			for i := 1; i <= 3; i++ {
				base := hs.URL + "/engine.io/?EIO=4&transport=polling"
				sid := ipSid(t, ipGet(t, base))
				if got := ipGet(t, base+"&sid="+sid); got != k.want {
					t.Errorf("polling session #%d: first message after open = %q, want %q", i, got, k.want)
				}
			}
			for i := 4; i <= 5; i++ {
				c, _, err := ws.DefaultDialer.Dial("ws"+strings.TrimPrefix(hs.URL, "http")+"/engine.io/?EIO=4&transport=websocket&b64=1", nil)
				if err != nil {
					t.Fatal(err)
				}
				c.SetReadDeadline(time.Now().Add(2 * time.Second))
				_, m, _ := c.ReadMessage()
				ipSid(t, string(m))
				_, m, _ = c.ReadMessage()
				if string(m) != k.want {
					t.Errorf("websocket session #%d: first message after open = %q, want %q", i, m, k.want)
				}
				c.Close()
			}
		})
	}
}
