package engine

// Finding A, deterministic demonstration (needs sleep.diff: one time.Sleep
// immediately before bs.Emit("connection", socket) in engine/base-server.go,
// which adds nothing but time to the window that exists in the unmodified code).
//
// Place in engine/, `git apply sleep.diff`, and run
//   export GOFLAGS=-mod=mod GOPROXY=off; unset GOWORK
//   go test -vet=off -count=1 -run TestWSMessageBeforeConnection -v ./engine/
//
// Without the sleep the same loss shows up statistically: see
// ws_message_before_connection_stress_test.go, which fails on the unmodified tree.

import (
	"io"
	"net/http/httptest"
	"strings"
	"testing"
	"time"

	ws "github.com/gorilla/websocket"
	"github.com/zishang520/engine.io/v2/config"
)

func TestWSMessageBeforeConnection(t *testing.T) {
	srv := NewServer(config.DefaultServerOptions())
	got := make(chan string, 1)
	srv.On("connection", func(a ...any) {
		a[0].(Socket).On("message", func(m ...any) {
			b, _ := io.ReadAll(m[0].(io.Reader))
			got <- string(b)
		})
	})
	hs := httptest.NewServer(srv)
	defer hs.Close()
	defer srv.Close()

	c, _, err := ws.DefaultDialer.Dial("ws"+strings.TrimPrefix(hs.URL, "http")+"/engine.io/?EIO=4&transport=websocket", nil)
	if err != nil {
		t.Fatal(err)
	}
	defer c.Close()
	if _, m, err := c.ReadMessage(); err != nil || m[0] != '0' {
		t.Fatalf("open: %q %v", m, err)
	}
	// the session is open as far as the client can tell: send a message
	if err := c.WriteMessage(ws.TextMessage, []byte("4hello")); err != nil {
		t.Fatal(err)
	}
	select {
	case m := <-got:
		if m != "hello" {
			t.Fatalf("got %q", m)
		}
	case <-time.After(2 * time.Second):
		t.Fatal("the message the client sent right after the open packet was never delivered to the application (the session consumed it before the connection event)")
	}
}
