package engine

// Finding A, demonstration on the UNMODIFIED tree (no sleep needed; statistical).
//
// Place in engine/ and run
//   export GOFLAGS=-mod=mod GOPROXY=off; unset GOWORK
//   go test -vet=off -count=1 -run TestWSFirstMessageLostBeforeConnection -v ./engine/
//
// Every client opens a session directly on WebSocket, waits for the open packet
// and then sends ONE message.  The application attaches its "message" listener
// in the "connection" handler (the documented usage; socket.io does the same
// with "data").  Every message must reach that listener.
//
// On the unmodified tree a fraction of the messages (about 0.5 % - 1.5 % on a
// 16 core machine with 16 parallel local clients, 1 in 3000 with a single
// sequential client) is processed by the session BEFORE the server has emitted
// "connection", i.e. emitted to no listener, and is lost.  The control listener
// attached at the time the OPEN packet is flushed sees all of them, which shows
// that nothing else is dropping them.

import (
	"io"
	"net/http/httptest"
	"strings"
	"sync"
	"sync/atomic"
	"testing"
	"time"

	ws "github.com/gorilla/websocket"
	"github.com/zishang520/engine.io/v2/config"
)

func TestWSFirstMessageLostBeforeConnection(t *testing.T) {
	const (
		rounds   = 5    // stop at the first round that shows the loss
		perRound = 3000 // sessions per round
		parallel = 16   // concurrent clients
	)
	for round := 1; round <= rounds; round++ {
		srv := NewServer(config.DefaultServerOptions())
		var delivered, connections, control atomic.Int32

		// the application: listeners are attached when the session is announced
		srv.On("connection", func(a ...any) {
			connections.Add(1)
			a[0].(Socket).On("message", func(m ...any) {
				io.Copy(io.Discard, m[0].(io.Reader))
				delivered.Add(1)
			})
		})
		// control only: the server-level "flush" event is emitted when the OPEN
		// packet is handed to the transport, which is before "connection"
		var seen sync.Map
		srv.On("flush", func(a ...any) {
			sock := a[0].(Socket)
			if _, loaded := seen.LoadOrStore(sock.Id(), true); !loaded {
				sock.On("message", func(...any) { control.Add(1) })
			}
		})

		hs := httptest.NewServer(srv)
		var wg sync.WaitGroup
		var conns sync.Map // keep the client connections open until the end
		sem := make(chan struct{}, parallel)
		for i := 0; i < perRound; i++ {
			wg.Add(1)
			sem <- struct{}{}
			go func(i int) {
				defer wg.Done()
				defer func() { <-sem }()
				c, _, err := ws.DefaultDialer.Dial("ws"+strings.TrimPrefix(hs.URL, "http")+"/engine.io/?EIO=4&transport=websocket", nil)
				if err != nil {
					t.Error(err)
					return
				}
				conns.Store(i, c)
				if _, m, err := c.ReadMessage(); err != nil || len(m) == 0 || m[0] != '0' {
					t.Errorf("open packet: %q %v", m, err)
					return
				}
				// the session is open as far as the client can tell
				c.WriteMessage(ws.TextMessage, []byte("4hello"))
			}(i)
		}
		wg.Wait()
		time.Sleep(500 * time.Millisecond)
		conns.Range(func(_, c any) bool { c.(*ws.Conn).Close(); return true })
		hs.Close()

		t.Logf("round %d: sessions announced %d, messages seen by the control listener %d, messages delivered to the application %d",
			round, connections.Load(), control.Load(), delivered.Load())
		if lost := perRound - int(delivered.Load()); lost > 0 {
			t.Fatalf("%d of %d first messages were consumed by their session before the connection event and never reached the application", lost, perRound)
		}
	}
}
