package engine

// Place in /tmp/hunt/H2-C02/engine/ and run
//   export GOFLAGS=-mod=mod GOPROXY=off; unset GOWORK
//   go test -vet=off -count=1 -v -run TestC02FirstMessageAfterOpen ./engine/
//
// Every client opens a WebSocket session, WAITS for the open packet (so the
// session is open and the client is entitled to send) and sends one message.
// The application attaches its message listener in the "connection" handler,
// which is the earliest moment it can. Every message must be delivered.
// No sleep in the library is needed; the unmodified tree loses a few messages
// per thousand sessions on every run (16 cores; also with 4 parallel clients).

import (
	"net/http"
	"net/http/httptest"
	"strings"
	"sync"
	"sync/atomic"
	"testing"
	"time"

	ws "github.com/gorilla/websocket"
	"github.com/zishang520/engine.io/v2/config"
)

func TestC02FirstMessageAfterOpen(t *testing.T) {
	srv := NewServer(config.DefaultServerOptions())
	var delivered, sessions atomic.Int64
	srv.On("connection", func(args ...any) {
		sessions.Add(1)
		args[0].(Socket).On("message", func(...any) { delivered.Add(1) })
	})
	ts := httptest.NewServer(http.HandlerFunc(srv.ServeHTTP))
	defer ts.Close()

	const total, parallel = 3000, 64
	var wg sync.WaitGroup
	var sent atomic.Int64
	slots := make(chan struct{}, parallel)
	for i := 0; i < total; i++ {
		wg.Add(1)
		slots <- struct{}{}
		go func() {
			defer wg.Done()
			defer func() { <-slots }()
			c, _, err := ws.DefaultDialer.Dial("ws"+strings.TrimPrefix(ts.URL, "http")+"/engine.io/?transport=websocket&EIO=4", nil)
			if err != nil {
				return
			}
			defer c.Close()
			if _, open, err := c.ReadMessage(); err != nil || !strings.HasPrefix(string(open), "0{") {
				return
			}
			// the open packet has arrived: the session is open
			if c.WriteMessage(ws.TextMessage, []byte("4hello")) == nil {
				sent.Add(1)
			}
			time.Sleep(100 * time.Millisecond)
		}()
	}
	wg.Wait()
	time.Sleep(300 * time.Millisecond)
	t.Logf("sessions=%d sent=%d delivered=%d", sessions.Load(), sent.Load(), delivered.Load())
	if delivered.Load() != sent.Load() {
		t.Fatalf("%d of %d first messages were never delivered", sent.Load()-delivered.Load(), sent.Load())
	}
}
