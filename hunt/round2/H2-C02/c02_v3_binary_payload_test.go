package engine

// Place in /tmp/hunt/H2-C02/engine/ and run
//   export GOFLAGS=-mod=mod GOPROXY=off; unset GOWORK
//   go test -vet=off -count=1 -v -run TestC02V3BinaryPayload ./engine/
//
// A revision-3 client that has a binary packet in its write buffer POSTs the
// whole buffer as ONE binary payload (Content-Type: application/octet-stream):
//   <0 = text | 1 = binary> <length, one decimal digit per byte> <255> <packet>
// A text packet is its UTF-8 bytes (one byte per char code of the utf8-encoded
// string), the length is the number of bytes. Every packet of such a payload
// must reach the application once, in order, intact.

import (
	"bytes"
	"fmt"
	"io"
	"net/http"
	"net/http/httptest"
	"regexp"
	"strings"
	"sync"
	"testing"
	"time"

	"github.com/zishang520/engine.io/v2/config"
	"github.com/zishang520/engine.io/v2/types"
)

type c02Recorder struct {
	mu     sync.Mutex
	msgs   []string
	closed []string
}

func (r *c02Recorder) snapshot() (msgs, closed []string) {
	r.mu.Lock()
	defer r.mu.Unlock()
	return append([]string{}, r.msgs...), append([]string{}, r.closed...)
}

func c02Server(t *testing.T) (*httptest.Server, *c02Recorder) {
	opts := config.DefaultServerOptions()
	opts.SetAllowEIO3(true)
	srv := NewServer(opts)
	r := &c02Recorder{}
	srv.On("connection", func(args ...any) {
		s := args[0].(Socket)
		s.On("message", func(a ...any) {
			r.mu.Lock()
			defer r.mu.Unlock()
			switch v := a[0].(type) {
			case *types.StringBuffer:
				r.msgs = append(r.msgs, "text:"+v.String())
			case *types.BytesBuffer:
				r.msgs = append(r.msgs, "bin:"+string(v.Bytes()))
			default:
				r.msgs = append(r.msgs, fmt.Sprintf("%T", a[0]))
			}
		})
		s.On("close", func(a ...any) {
			r.mu.Lock()
			defer r.mu.Unlock()
			r.closed = append(r.closed, fmt.Sprint(a...))
		})
	})
	ts := httptest.NewServer(http.HandlerFunc(srv.ServeHTTP))
	t.Cleanup(ts.Close)
	return ts, r
}

var c02Sid = regexp.MustCompile(`"sid":"([^"]+)"`)

func c02Handshake(t *testing.T, ts *httptest.Server) string {
	resp, err := http.Get(ts.URL + "/engine.io/?transport=polling&EIO=3")
	if err != nil {
		t.Fatal(err)
	}
	b, _ := io.ReadAll(resp.Body)
	resp.Body.Close()
	m := c02Sid.FindSubmatch(b)
	if m == nil {
		t.Fatalf("no sid in %q", b)
	}
	return string(m[1])
}

// the payload engine.io-client 3.x / engine.io-parser 2.x put on the wire
func c02BinaryPayload(msgs ...any) []byte {
	var out []byte
	for _, m := range msgs {
		var data []byte
		switch v := m.(type) {
		case string:
			out = append(out, 0)
			data = append([]byte{'4'}, v...)
		case []byte:
			out = append(out, 1)
			data = append([]byte{4}, v...)
		}
		for _, d := range fmt.Sprint(len(data)) {
			out = append(out, byte(d-'0'))
		}
		out = append(out, 255)
		out = append(out, data...)
	}
	return out
}

func TestC02V3BinaryPayload(t *testing.T) {
	cases := []struct {
		name string
		msgs []any
	}{
		// plain ASCII: two short text packets followed by a binary one
		{"ascii text,text,binary", []any{"hi", "yo", []byte{1, 2, 3}}},
		// plain ASCII: text, short binary, text
		{"ascii text,binary,text", []any{"hi", []byte{1, 2, 3}, "x"}},
		// a text packet that is not ASCII
		{"non-ascii text,binary", []any{"é", []byte{1, 2, 3}}},
		{"binary,non-ascii text", []any{[]byte{1, 2, 3}, "€uro"}},
	}
	for _, c := range cases {
		t.Run(c.name, func(t *testing.T) {
			ts, r := c02Server(t)
			sid := c02Handshake(t, ts)
			body := c02BinaryPayload(c.msgs...)
			resp, err := http.Post(ts.URL+"/engine.io/?transport=polling&EIO=3&sid="+sid, "application/octet-stream", bytes.NewReader(body))
			if err != nil {
				t.Fatal(err)
			}
			ack, _ := io.ReadAll(resp.Body)
			resp.Body.Close()
			time.Sleep(100 * time.Millisecond)

			var want []string
			for _, m := range c.msgs {
				switch v := m.(type) {
				case string:
					want = append(want, "text:"+v)
				case []byte:
					want = append(want, "bin:"+string(v))
				}
			}
			got, closed := r.snapshot()
			t.Logf("payload % x", body)
			t.Logf("POST answered %d %q, session close events: %v", resp.StatusCode, ack, closed)
			if strings.Join(got, "|") != strings.Join(want, "|") {
				t.Errorf("delivered %q, want %q", got, want)
			}
		})
	}
}
