package engine

// Place in /tmp/hunt/H2-C11/engine/ and run
//   export GOFLAGS=-mod=mod GOPROXY=off; unset GOWORK
//   go test -vet=off -count=1 -run 'TestC11_' -v ./engine/
//
// TestC11_HandlerReturnsWhileResponseIsBeingWritten   deterministic (no sleep in the library)
// TestC11_AbortedPollCorruptsOtherResponses           the same interleaving with the real net/http
//                                                     ResponseWriter: other clients' responses lose
//                                                     their body (or the process dies with a nil
//                                                     pointer dereference in bufio.(*Writer).Write)

import (
	"fmt"
	"io"
	"net"
	"net/http"
	"net/http/httptest"
	"strings"
	"sync"
	"sync/atomic"
	"testing"
	"time"

	"github.com/zishang520/engine.io-go-parser/packet"
	"github.com/zishang520/engine.io/v2/config"
)

func c11Server(t *testing.T, wrap func(http.Handler) http.Handler) (Server, *httptest.Server) {
	opts := config.DefaultServerOptions()
	opts.SetMaxHttpBufferSize(1 << 30)
	s := NewServer(opts)
	var h http.Handler = http.HandlerFunc(s.ServeHTTP)
	if wrap != nil {
		h = wrap(h)
	}
	ts := httptest.NewServer(h)
	t.Cleanup(ts.Close)
	return s, ts
}

func c11Handshake(t *testing.T, ts *httptest.Server) string {
	resp, err := http.Get(ts.URL + "/engine.io/?EIO=4&transport=polling")
	if err != nil {
		t.Fatal(err)
	}
	b, _ := io.ReadAll(resp.Body)
	resp.Body.Close()
	body := string(b)
	i := strings.Index(body, `"sid":"`)
	if resp.StatusCode != 200 || i < 0 {
		t.Fatalf("handshake: %d %q", resp.StatusCode, body)
	}
	rest := body[i+7:]
	return rest[:strings.Index(rest, `"`)]
}

// gatedWriter stands for a ResponseWriter whose Write takes time (a large
// payload, a slow peer): Write announces itself and then waits for the test.
type gatedWriter struct {
	http.ResponseWriter
	handlerDone *atomic.Bool
	started     chan struct{}
	release     chan struct{}
	lateWrite   *atomic.Bool
}

func (g *gatedWriter) Write(b []byte) (int, error) {
	g.started <- struct{}{}
	<-g.release
	if g.handlerDone.Load() {
		// net/http forbids any use of the ResponseWriter after the handler has
		// returned; do not forward (it would corrupt / crash), just record it
		g.lateWrite.Store(true)
		return len(b), nil
	}
	return g.ResponseWriter.Write(b)
}

func TestC11_HandlerReturnsWhileResponseIsBeingWritten(t *testing.T) {
	var (
		handlerDone, lateWrite atomic.Bool
		started                = make(chan struct{}, 1)
		release                = make(chan struct{})
		returned               = make(chan struct{})
	)
	s, ts := c11Server(t, func(next http.Handler) http.Handler {
		return http.HandlerFunc(func(w http.ResponseWriter, r *http.Request) {
			if r.Method == http.MethodGet && r.URL.Query().Get("sid") != "" {
				// the poll request of the session
				next.ServeHTTP(&gatedWriter{w, &handlerDone, started, release, &lateWrite}, r)
				handlerDone.Store(true)
				close(returned)
				return
			}
			next.ServeHTTP(w, r)
		})
	})
	socks := make(chan Socket, 1)
	s.On("connection", func(a ...any) { socks <- a[0].(Socket) })

	sid := c11Handshake(t, ts)
	sock := <-socks

	conn, err := net.Dial("tcp", ts.Listener.Addr().String())
	if err != nil {
		t.Fatal(err)
	}
	fmt.Fprintf(conn, "GET /engine.io/?EIO=4&transport=polling&sid=%s HTTP/1.1\r\nHost: x\r\n\r\n", sid)
	for i := 0; i < 200 && !sock.Transport().Writable(); i++ {
		time.Sleep(5 * time.Millisecond)
	}
	if !sock.Transport().Writable() {
		t.Fatal("poll not parked")
	}

	// the server answers the parked poll ...
	sock.Send(strings.NewReader("hello"), &packet.Options{Compress: false}, nil)
	select {
	case <-started:
	case <-time.After(2 * time.Second):
		t.Fatal("response write did not start")
	}
	// ... and while the response is being written the client goes away
	conn.Close()

	select {
	case <-returned:
		t.Errorf("HandleRequest returned while HttpContext.Write was still writing the response of this very request")
	case <-time.After(1500 * time.Millisecond):
		// correct: the handler waits for the write in flight
	}
	close(release)
	select {
	case <-returned:
	case <-time.After(2 * time.Second):
		t.Fatal("handler never returned")
	}
	time.Sleep(100 * time.Millisecond)
	if lateWrite.Load() {
		t.Errorf("the poll response was written to the http.ResponseWriter after its handler had returned")
	}
}

// The same interleaving against the real net/http ResponseWriter. No hook, no
// sleep in the library: clients that drop the connection while a large poll
// response is being written to them, and at the same time other clients doing
// nothing but handshakes. The write that is still in flight when the handler of
// the aborted poll returns keeps using the bufio.Writer that net/http has already
// recycled for another request; its write error lands in that other request's
// writer, whose body is then dropped: an innocent client receives the headers of
// its handshake response (Content-Length: 125) and never a body. Sometimes the
// process dies instead (nil pointer dereference in bufio.(*Writer).Write, in the
// transport's send goroutine), and `go test -race` reports the data races between
// net/http.(*response).finishRequest / (*conn).finalFlush and HttpContext.Write.
func TestC11_AbortedPollCorruptsOtherResponses(t *testing.T) {
	s, ts := c11Server(t, nil)
	var mu sync.Mutex
	socks := map[string]Socket{}
	s.On("connection", func(a ...any) {
		mu.Lock()
		socks[a[0].(Socket).Id()] = a[0].(Socket)
		mu.Unlock()
	})
	big := strings.Repeat("x", 1<<20)
	var broken atomic.Int32
	var first atomic.Value

	// returns the sid, or "" when the handshake response was defective
	doHandshake := func() string {
		cl := http.Client{Timeout: 3 * time.Second}
		resp, err := cl.Get(ts.URL + "/engine.io/?EIO=4&transport=polling")
		if err != nil {
			broken.Add(1)
			first.CompareAndSwap(nil, fmt.Sprintf("handshake: %v", err))
			return ""
		}
		b, err := io.ReadAll(resp.Body)
		resp.Body.Close()
		cl.CloseIdleConnections()
		body := string(b)
		i := strings.Index(body, `"sid":"`)
		if err != nil || resp.StatusCode != 200 || i < 0 {
			broken.Add(1)
			first.CompareAndSwap(nil, fmt.Sprintf("handshake response: status=%d headers=%v body=%q err=%v", resp.StatusCode, resp.Header, body, err))
			return ""
		}
		rest := body[i+7:]
		return rest[:strings.Index(rest, `"`)]
	}

	var wg sync.WaitGroup
	// well-behaved clients: handshakes only
	for w := 0; w < 4; w++ {
		wg.Add(1)
		go func() {
			defer wg.Done()
			for it := 0; it < 150; it++ {
				doHandshake()
			}
		}()
	}
	// clients that go away while their poll is being answered
	for w := 0; w < 8; w++ {
		wg.Add(1)
		go func() {
			defer wg.Done()
			for it := 0; it < 40; it++ {
				sid := doHandshake()
				if sid == "" {
					continue
				}
				mu.Lock()
				sock := socks[sid]
				mu.Unlock()
				conn, err := net.Dial("tcp", ts.Listener.Addr().String())
				if err != nil {
					return
				}
				fmt.Fprintf(conn, "GET /engine.io/?EIO=4&transport=polling&sid=%s HTTP/1.1\r\nHost: x\r\n\r\n", sid)
				for i := 0; i < 200 && !sock.Transport().Writable(); i++ {
					time.Sleep(5 * time.Millisecond)
				}
				sock.Send(strings.NewReader(big), &packet.Options{Compress: false}, nil)
				buf := make([]byte, 1024)
				conn.SetReadDeadline(time.Now().Add(3 * time.Second))
				conn.Read(buf) // the response has started ...
				conn.Close()   // ... and the client goes away
			}
		}()
	}
	wg.Wait()
	if n := broken.Load(); n > 0 {
		t.Errorf("%d handshake requests of other clients did not get a well-formed response; first: %v", n, first.Load())
	}
}
