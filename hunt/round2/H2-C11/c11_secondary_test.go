package engine

// Secondary findings (see finding.md, sections B, C and E). Place next to
// c11_abort_during_write_test.go in /tmp/hunt/H2-C11/engine/ and run
//   export GOFLAGS=-mod=mod GOPROXY=off; unset GOWORK
//   go test -vet=off -count=1 -run 'TestC11b_' -v ./engine/
//   go test -vet=off -count=1 -run 'TestC11e_' -v ./engine/
//   go test -vet=off -count=1 -run 'TestC11c_' -v ./engine/     (kills the test process)

import (
	"errors"
	"io"
	"net/http"
	"net/http/httptest"
	"strings"
	"testing"
	"time"

	"github.com/zishang520/engine.io/v2/config"
)

// B. A revision-3 binary data request whose length prefix promises more
// characters than the body holds is never answered: the parser's
// decodePayloadAsBinary counts up to the declared length one by one after the
// input is exhausted (999999999999999999 iterations here). The handler goroutine
// spins at 100% CPU for ever, the POST gets no response, the session's data slot
// stays taken.
func TestC11b_V3BinaryLengthPrefixNeverAnswered(t *testing.T) {
	opts := config.DefaultServerOptions()
	opts.SetAllowEIO3(true)
	s := NewServer(opts)
	// deliberately not closed: Close would wait for the spinning handler
	ts := httptest.NewUnstartedServer(http.HandlerFunc(s.ServeHTTP))
	ts.Start()

	resp, err := http.Get(ts.URL + "/engine.io/?EIO=3&transport=polling")
	if err != nil {
		t.Fatal(err)
	}
	b, _ := io.ReadAll(resp.Body)
	resp.Body.Close()
	body := string(b)
	i := strings.Index(body, `"sid":"`)
	if i < 0 {
		t.Fatalf("handshake: %q", body)
	}
	rest := body[i+7:]
	sid := rest[:strings.Index(rest, `"`)]

	// <0 = string> <length digits 9 x18> <255> "4"   (a message packet, 1 char)
	payload := []byte{0}
	for k := 0; k < 18; k++ {
		payload = append(payload, 9)
	}
	payload = append(payload, 0xFF, '4')

	c := http.Client{Timeout: 5 * time.Second}
	post, err := c.Post(ts.URL+"/engine.io/?EIO=3&transport=polling&sid="+sid, "application/octet-stream", strings.NewReader(string(payload)))
	if err != nil {
		t.Fatalf("the data request was not answered within 5s: %v", err)
	}
	post.Body.Close()
	t.Logf("answered: %s", post.Status)
}

type c11FailingReader struct{}

func (c11FailingReader) Read([]byte) (int, error) { return 0, errors.New("source failed") }

// C. The poll response path discards the error of EncodePayload and hands the
// nil payload to DoWrite, which dereferences it in the send goroutine: the parked
// poll is never answered and the whole process dies.
func TestC11c_EncodeErrorCrashesInsteadOfAnsweringThePoll(t *testing.T) {
	s, ts := c11Server(t, nil)
	socks := make(chan Socket, 1)
	s.On("connection", func(a ...any) { socks <- a[0].(Socket) })
	sid := c11Handshake(t, ts)
	sock := <-socks

	answered := make(chan string, 1)
	go func() {
		c := http.Client{Timeout: 3 * time.Second}
		resp, err := c.Get(ts.URL + "/engine.io/?EIO=4&transport=polling&sid=" + sid)
		if err != nil {
			answered <- "no response: " + err.Error()
			return
		}
		b, _ := io.ReadAll(resp.Body)
		resp.Body.Close()
		answered <- resp.Status + " " + string(b)
	}()
	for i := 0; i < 200 && !sock.Transport().Writable(); i++ {
		time.Sleep(5 * time.Millisecond)
	}
	// an io.Reader is what Send accepts; this one fails when it is read
	sock.Send(c11FailingReader{}, nil, nil)
	t.Log(<-answered)
}

// E. A payload with a malformed packet in the middle: the packets before it are
// processed, the rest is dropped without any error, the request is acknowledged
// with "ok" and the session stays open (the reference implementation turns the
// malformed packet into an error packet: session closed with "parse error").
func TestC11e_OkForPayloadThatWasNotProcessedCompletely(t *testing.T) {
	s, ts := c11Server(t, nil)
	socks := make(chan Socket, 1)
	s.On("connection", func(a ...any) { socks <- a[0].(Socket) })
	sid := c11Handshake(t, ts)
	sock := <-socks
	var got []string
	sock.On("message", func(a ...any) {
		b, _ := io.ReadAll(a[0].(io.Reader))
		got = append(got, string(b))
	})
	closed := make(chan any, 1)
	sock.On("close", func(a ...any) { closed <- a[0] })

	resp, err := http.Post(ts.URL+"/engine.io/?EIO=4&transport=polling&sid="+sid, "text/plain",
		strings.NewReader("4one\x1eZbad\x1e4three"))
	if err != nil {
		t.Fatal(err)
	}
	b, _ := io.ReadAll(resp.Body)
	resp.Body.Close()
	sessionClosed := false
	select {
	case <-closed:
		sessionClosed = true
	case <-time.After(300 * time.Millisecond):
	}
	t.Logf("response %s %q, messages delivered %q, session closed: %v", resp.Status, b, got, sessionClosed)
	if string(b) == "ok" && len(got) != 2 && !sessionClosed {
		t.Errorf("acknowledged with ok, but only %q of the payload's messages were processed and no error was raised", got)
	}
}
