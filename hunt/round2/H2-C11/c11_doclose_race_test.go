package engine

// Finding D (see finding.md). Needs the temporary sleep of sleep.diff (it only
// widens the window between DoClose's Writable() test and its shouldClose.Store):
//   cd /tmp/hunt/H2-C11 && git apply /tmp/hunt/H2-C11.out/sleep.diff
//   cp /tmp/hunt/H2-C11.out/c11_abort_during_write_test.go /tmp/hunt/H2-C11.out/c11_doclose_race_test.go engine/
//   export GOFLAGS=-mod=mod GOPROXY=off; unset GOWORK
//   go test -vet=off -count=1 -run 'TestC11d_' -v ./engine/        (takes 30 s)
//   git checkout transports/polling.go
// (uses the helpers c11Server / c11Handshake of c11_abort_during_write_test.go)

import (
	"io"
	"net/http"
	"testing"
	"time"
)

func TestC11d_PollInstalledDuringDoClose(t *testing.T) {
	s, ts := c11Server(t, nil)
	socks := make(chan Socket, 1)
	s.On("connection", func(a ...any) { socks <- a[0].(Socket) })
	sid := c11Handshake(t, ts)
	sock := <-socks
	closed := make(chan time.Time, 1)
	sock.On("close", func(...any) { closed <- time.Now() })

	go sock.Close(false) // no poll pending: DoClose takes the "buffer an orderly close" branch
	time.Sleep(100 * time.Millisecond)
	start := time.Now()
	c := http.Client{Timeout: 40 * time.Second}
	resp, err := c.Get(ts.URL + "/engine.io/?EIO=4&transport=polling&sid=" + sid)
	if err != nil {
		t.Fatalf("poll: %v after %v", err, time.Since(start))
	}
	b, _ := io.ReadAll(resp.Body)
	resp.Body.Close()
	t.Logf("poll answered after %v: %s %q", time.Since(start), resp.Status, b)
	if d := time.Since(start); d > 5*time.Second {
		t.Errorf("poll parked for %v on a session that was being closed", d)
	}
}
