package engine

// Tests of hypotheses that HELD (all pass on the unmodified tree). Evidence
// for notes.md.

import (
	"io"
	"net"
	"net/http"
	"strings"
	"sync"
	"testing"
	"time"

	"github.com/gorilla/websocket"
	"github.com/zishang520/engine.io/v2/config"
	"github.com/zishang520/engine.io/v2/types"
)

// Mixed load: v3/v4, polling / websocket / upgrade, client closes, abandoned
// sessions (ping timeout), application Close(false/true) at random moments,
// server Close in the middle. After quiescence: table == count, every created
// socket is either closed and unreachable or live and reachable.
func TestC04HeldStress(t *testing.T) {
	for round := 0; round < 5; round++ {
		s, ts := c04Server(t, func(o *config.ServerOptions) {
			o.SetPingInterval(30 * time.Millisecond)
			o.SetPingTimeout(20 * time.Millisecond)
			o.SetUpgradeTimeout(50 * time.Millisecond)
		})
		var mu sync.Mutex
		var all []Socket
		s.On("connection", func(a ...any) {
			so := a[0].(Socket)
			mu.Lock()
			all = append(all, so)
			n := len(all)
			mu.Unlock()
			switch n % 5 {
			case 0:
				so.Close(false)
			case 1:
				go func() { time.Sleep(time.Duration(n%7) * 5 * time.Millisecond); so.Close(true) }()
			case 2:
				go func() { time.Sleep(time.Duration(n%7) * 5 * time.Millisecond); so.Close(false) }()
			}
		})
		var wg sync.WaitGroup
		wsURL := "ws" + strings.TrimPrefix(ts.URL, "http")
		for i := 0; i < 150; i++ {
			wg.Add(1)
			go func(i int) {
				defer wg.Done()
				eio := "4"
				if i%2 == 0 {
					eio = "3"
				}
				switch i % 3 {
				case 0:
					_, body, err := c04Get(ts.URL + "/engine.io/?EIO=" + eio + "&transport=polling")
					if err != nil {
						return
					}
					sid := c04Sid(body)
					for k := 0; k < 3; k++ {
						c04Get(ts.URL + "/engine.io/?EIO=" + eio + "&transport=polling&sid=" + sid)
					}
					if i%2 == 1 {
						if resp, err := http.Post(ts.URL+"/engine.io/?EIO="+eio+"&transport=polling&sid="+sid, "text/plain", strings.NewReader("1")); err == nil {
							resp.Body.Close()
						}
					}
				case 1:
					c, _, err := websocket.DefaultDialer.Dial(wsURL+"/engine.io/?EIO="+eio+"&transport=websocket", nil)
					if err != nil {
						return
					}
					time.Sleep(time.Duration(i%10) * 5 * time.Millisecond)
					c.Close()
				case 2:
					_, body, err := c04Get(ts.URL + "/engine.io/?EIO=" + eio + "&transport=polling")
					if err != nil {
						return
					}
					sid := c04Sid(body)
					go c04Get(ts.URL + "/engine.io/?EIO=" + eio + "&transport=polling&sid=" + sid)
					c, _, err := websocket.DefaultDialer.Dial(wsURL+"/engine.io/?EIO="+eio+"&transport=websocket&sid="+sid, nil)
					if err != nil {
						return
					}
					c.WriteMessage(websocket.TextMessage, []byte("2probe"))
					c.SetReadDeadline(time.Now().Add(200 * time.Millisecond))
					c.ReadMessage()
					c.WriteMessage(websocket.TextMessage, []byte("5"))
					time.Sleep(time.Duration(i%10) * 5 * time.Millisecond)
					c.Close()
				}
			}(i)
		}
		go func() {
			time.Sleep(30 * time.Millisecond)
			s.Close()
		}()
		wg.Wait()
		time.Sleep(500 * time.Millisecond)
		c04CheckRegistry(t, s)
		mu.Lock()
		seen := map[string]bool{}
		for _, so := range all {
			if seen[so.Id()] {
				t.Errorf("id %s handed out twice", so.Id())
			}
			seen[so.Id()] = true
			if strings.ContainsAny(so.Id(), "+/=?&#% ") {
				t.Errorf("id %q not URL-safe", so.Id())
			}
			got, ok := s.Clients().Load(so.Id())
			if so.ReadyState() == "closed" && ok {
				t.Errorf("closed %s reachable", so.Id())
			}
			if so.ReadyState() != "closed" && (!ok || got != so) {
				t.Errorf("live %s (%s) unreachable", so.Id(), so.ReadyState())
			}
		}
		t.Logf("round %d: %d sessions created, count=%d", round, len(all), s.ClientsCount())
		mu.Unlock()
	}
}

// A request naming a closed session is answered 'Session ID unknown' (GET, POST, upgrade).
func TestC04HeldClosedSessionUnknown(t *testing.T) {
	s, ts := c04Server(t, nil)
	wsURL := "ws" + strings.TrimPrefix(ts.URL, "http")
	_, body, _ := c04Get(ts.URL + "/engine.io/?EIO=4&transport=polling")
	sid := c04Sid(body)
	so, _ := s.Clients().Load(sid)
	so.Close(true)
	if _, body, _ := c04Get(ts.URL + "/engine.io/?EIO=4&transport=polling&sid=" + sid); !strings.Contains(body, "Session ID unknown") {
		t.Errorf("GET: %s", body)
	}
	resp, _ := http.Post(ts.URL+"/engine.io/?EIO=4&transport=polling&sid="+sid, "text/plain", strings.NewReader("4x"))
	if b, _ := io.ReadAll(resp.Body); !strings.Contains(string(b), "Session ID unknown") {
		t.Errorf("POST: %s", b)
	}
	if _, r, err := websocket.DefaultDialer.Dial(wsURL+"/engine.io/?EIO=4&transport=websocket&sid="+sid, nil); err == nil {
		t.Errorf("upgrade accepted")
	} else if b, _ := io.ReadAll(r.Body); !strings.Contains(string(b), "Session ID unknown") {
		t.Errorf("WS: %s", b)
	}
	c04CheckRegistry(t, s)
}

// 300 websocket handshakes whose client closes the TCP connection right after
// sending the upgrade request (transport dies during construction): with a
// 45 s heartbeat nothing may be left after 1 s.
func TestC04HeldWsDiesDuringHandshake(t *testing.T) {
	s, ts := c04Server(t, func(o *config.ServerOptions) {
		o.SetPingInterval(25 * time.Second)
		o.SetPingTimeout(20 * time.Second)
	})
	addr := strings.TrimPrefix(ts.URL, "http://")
	var wg sync.WaitGroup
	for i := 0; i < 300; i++ {
		wg.Add(1)
		go func() {
			defer wg.Done()
			c, err := net.Dial("tcp", addr)
			if err != nil {
				return
			}
			io.WriteString(c, "GET /engine.io/?EIO=4&transport=websocket HTTP/1.1\r\nHost: x\r\nConnection: Upgrade\r\nUpgrade: websocket\r\nSec-WebSocket-Version: 13\r\nSec-WebSocket-Key: dGhlIHNhbXBsZSBub25jZQ==\r\n\r\n")
			c.Close()
		}()
	}
	wg.Wait()
	time.Sleep(time.Second)
	if n := s.ClientsCount(); n != 0 {
		t.Errorf("%d sessions linger", n)
	}
	c04CheckRegistry(t, s)
}

// Observations (not failures of C04; logged only):
//   - a session the application put into "closing" (Close(false), no poll
//     pending) survives server.Close() until its next poll / closeTimeout;
//   - a handshake that passed Verify before server.Close() creates a session
//     after it (Close has no "closed" state).
// In both cases table, count and live set still coincide.
func TestC04HeldServerCloseObservations(t *testing.T) {
	s, ts := c04Server(t, func(o *config.ServerOptions) {
		o.SetPingInterval(5 * time.Second)
		o.SetPingTimeout(5 * time.Second)
	})
	_, body, _ := c04Get(ts.URL + "/engine.io/?EIO=4&transport=polling")
	sid := c04Sid(body)
	so, _ := s.Clients().Load(sid)
	so.Close(false)
	s.Close()
	t.Logf("after server Close: count=%d state=%s", s.ClientsCount(), so.ReadyState())
	c04CheckRegistry(t, s)
	_, body, _ = c04Get(ts.URL + "/engine.io/?EIO=4&transport=polling&sid=" + sid)
	time.Sleep(50 * time.Millisecond)
	t.Logf("after next poll (%q): count=%d state=%s", body, s.ClientsCount(), so.ReadyState())
	c04CheckRegistry(t, s)

	gate, entered := make(chan struct{}), make(chan struct{}, 1)
	s2, ts2 := c04Server(t, func(o *config.ServerOptions) {
		o.SetAllowRequest(func(*types.HttpContext) error { entered <- struct{}{}; <-gate; return nil })
	})
	done := make(chan string)
	go func() { _, b, _ := c04Get(ts2.URL + "/engine.io/?EIO=4&transport=polling"); done <- b }()
	<-entered
	s2.Close()
	close(gate)
	t.Logf("handshake completing after Close: %s count=%d", <-done, s2.ClientsCount())
	c04CheckRegistry(t, s2)
}
