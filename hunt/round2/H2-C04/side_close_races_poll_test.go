package engine

// SIDE FINDING (not property C04): needs side_sleep.diff applied to make the
// interleaving deterministic; the sleep adds nothing but time.

import (
	"testing"
	"time"

	"github.com/zishang520/engine.io/v2/config"
)

func TestSideCloseRacesPoll(t *testing.T) {
	s, ts := c04Server(t, func(o *config.ServerOptions) {
		o.SetPingInterval(25 * time.Second)
		o.SetPingTimeout(20 * time.Second)
	})
	_, body, _ := c04Get(ts.URL + "/engine.io/?EIO=4&transport=polling")
	sid := c04Sid(body)
	so, _ := s.Clients().Load(sid)
	go so.Close(false) // no poll pending: DoClose takes the "buffer orderly close" branch
	time.Sleep(50 * time.Millisecond)
	start := time.Now()
	done := make(chan string, 1)
	go func() {
		_, body, _ := c04Get(ts.URL + "/engine.io/?EIO=4&transport=polling&sid=" + sid)
		done <- body
	}()
	select {
	case b := <-done:
		t.Logf("poll answered after %v: %q", time.Since(start), b)
	case <-time.After(3 * time.Second):
		t.Errorf("poll on a closing session unanswered after 3s (answered only by closeTimeout, 30s); state=%s count=%d", so.ReadyState(), s.ClientsCount())
	}
}
