package engine

// Helpers shared by the C04 hunt tests. Place every file of this directory in
// /tmp/hunt/H2-C04/engine/ (package engine, internal tests).

import (
	"io"
	"net/http"
	"net/http/httptest"
	"strings"
	"testing"
	"time"

	"github.com/zishang520/engine.io/v2/config"
	"github.com/zishang520/engine.io/v2/types"
)

func c04Server(t *testing.T, mod func(*config.ServerOptions)) (Server, *httptest.Server) {
	opts := config.DefaultServerOptions()
	opts.SetPingInterval(300 * time.Millisecond)
	opts.SetPingTimeout(200 * time.Millisecond)
	opts.SetAllowEIO3(true)
	if mod != nil {
		mod(opts)
	}
	s := NewServer(opts)
	ts := httptest.NewServer(s)
	t.Cleanup(ts.Close)
	return s, ts
}

func c04Get(url string) (int, string, error) {
	resp, err := http.Get(url)
	if err != nil {
		return 0, "", err
	}
	defer resp.Body.Close()
	b, _ := io.ReadAll(resp.Body)
	return resp.StatusCode, string(b), nil
}

func c04Sid(body string) string {
	i := strings.Index(body, `"sid":"`)
	if i < 0 {
		return ""
	}
	rest := body[i+7:]
	return rest[:strings.Index(rest, `"`)]
}

// table == count, every key holds its own socket, no closed socket registered
func c04CheckRegistry(t *testing.T, s BaseServer) {
	t.Helper()
	if n, c := s.Clients().Len(), s.ClientsCount(); uint64(n) != c {
		t.Errorf("table has %d entries, count says %d", n, c)
	}
	s.Clients().Range(func(id string, so Socket) bool {
		if so.Id() != id {
			t.Errorf("key %s holds socket %s", id, so.Id())
		}
		if so.ReadyState() == "closed" {
			t.Errorf("closed session %s still registered", id)
		}
		return true
	})
}

// A server type that overrides GenerateId the way README.md documents it
// ("Overwrite this method to generate your custom socket id") using the
// library's own Prototype mechanism.
type c04CustomIdServer struct {
	Server
	calls int
	next  func() (string, error)
}

func (c *c04CustomIdServer) GenerateId(*types.HttpContext) (string, error) {
	c.calls++
	return c.next()
}

func newC04CustomIdServer(next func() (string, error)) *c04CustomIdServer {
	cs := &c04CustomIdServer{Server: MakeServer(), next: next}
	cs.Prototype(cs) // Construct() should be called after calling Prototype()
	cs.Construct(config.DefaultServerOptions())
	return cs
}
