package engine

import (
	"sync"
	"sync/atomic"
	"testing"
	"time"

	"github.com/zishang520/engine.io/v2/config"
)

func TestSideLoopNoSleep(t *testing.T) {
	s, ts := c04Server(t, func(o *config.ServerOptions) {
		o.SetPingInterval(25 * time.Second)
		o.SetPingTimeout(20 * time.Second)
	})
	var stuck atomic.Int32
	var wg sync.WaitGroup
	sem := make(chan struct{}, 16)
	for i := 0; i < 3000; i++ {
		wg.Add(1)
		sem <- struct{}{}
		go func() {
			defer wg.Done()
			defer func() { <-sem }()
			_, body, err := c04Get(ts.URL + "/engine.io/?EIO=4&transport=polling")
			if err != nil {
				return
			}
			sid := c04Sid(body)
			so, ok := s.Clients().Load(sid)
			if !ok {
				return
			}
			done := make(chan struct{})
			go func() {
				c04Get(ts.URL + "/engine.io/?EIO=4&transport=polling&sid=" + sid)
				close(done)
			}()
			time.Sleep(time.Duration(150+len(sid)%7*10) * time.Microsecond)
			so.Close(false)
			select {
			case <-done:
			case <-time.After(2 * time.Second):
				stuck.Add(1)
				so.Close(true)
			}
		}()
	}
	wg.Wait()
	t.Logf("stuck polls: %d / 3000", stuck.Load())
	if stuck.Load() > 0 {
		t.Errorf("a poll racing Close(false) stayed unanswered > 2s in %d cases", stuck.Load())
	}
}
