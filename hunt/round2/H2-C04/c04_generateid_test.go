package engine

import (
	"errors"
	"net/http/httptest"
	"testing"
)

// FAILS on the unmodified tree: the overridden GenerateId is never called,
// the session gets a library-generated id.
func TestC04CustomGenerateIdIsIgnored(t *testing.T) {
	cs := newC04CustomIdServer(func() (string, error) { return "my-custom-id", nil })
	ts := httptest.NewServer(cs)
	defer ts.Close()

	_, body, err := c04Get(ts.URL + "/engine.io/?EIO=4&transport=polling")
	if err != nil {
		t.Fatal(err)
	}
	t.Logf("handshake: %s", body)
	if cs.calls == 0 {
		t.Errorf("custom GenerateId was never called (Handshake calls bs.GenerateId, not bs._proto_.GenerateId)")
	}
	if got := c04Sid(body); got != "my-custom-id" {
		t.Errorf("sid = %q, want the id of the custom generator", got)
	}
	if _, ok := cs.Clients().Load("my-custom-id"); !ok {
		t.Errorf("session not registered under the custom id")
	}
}

// FAILS on the unmodified tree: a generator that refuses (returns an error)
// must make the handshake fail with BAD_REQUEST / ID_GENERATION_ERROR; it is
// not consulted and the session is created anyway.
func TestC04CustomGenerateIdErrorIsIgnored(t *testing.T) {
	cs := newC04CustomIdServer(func() (string, error) { return "", errors.New("no more ids") })
	ts := httptest.NewServer(cs)
	defer ts.Close()

	code, body, _ := c04Get(ts.URL + "/engine.io/?EIO=4&transport=polling")
	t.Logf("handshake: %d %s", code, body)
	if code != 400 {
		t.Errorf("handshake succeeded (%d) although the id generator returned an error", code)
	}
	if n := cs.ClientsCount(); n != 0 {
		t.Errorf("a session was registered (count=%d) although the id generator returned an error", n)
	}
}

// LATENT (only reachable once the dispatch is repaired with
// `bs._proto_.GenerateId(ctx)`; skipped on the unmodified tree): a generator
// that returns an id that is still in use corrupts the registry - Store
// overwrites the live session, the old session's close listener deletes the
// NEW session's entry, the new session's own close then finds nothing and the
// count stays at 1 forever.
func TestC04DuplicateIdCorruptsRegistry(t *testing.T) {
	cs := newC04CustomIdServer(func() (string, error) { return "dup", nil })
	ts := httptest.NewServer(cs)
	defer ts.Close()
	var socks []Socket
	cs.On("connection", func(a ...any) { socks = append(socks, a[0].(Socket)) })

	c04Get(ts.URL + "/engine.io/?EIO=4&transport=polling")
	c04Get(ts.URL + "/engine.io/?EIO=4&transport=polling")
	if cs.calls == 0 {
		t.Skip("custom GenerateId not dispatched (see TestC04CustomGenerateIdIsIgnored)")
	}
	t.Logf("two live sessions: table=%d count=%d", cs.Clients().Len(), cs.ClientsCount())
	socks[0].Close(true)
	if got, ok := cs.Clients().Load("dup"); !ok || got != socks[1] {
		t.Errorf("live session (state %s) is no longer reachable under its id after the OTHER session closed", socks[1].ReadyState())
	}
	socks[1].Close(true)
	if n := cs.ClientsCount(); n != 0 {
		t.Errorf("count = %d with no session left (drift)", n)
	}
}
