package webtransport

import (
	"bytes"
	"fmt"
	"io"
	"math/rand"
	"strings"
	"sync"
	"testing"
	"time"

	"github.com/quic-go/quic-go"
	wt "github.com/zishang520/webtransport-go"
)

// fakeStream: writes are appended to wbuf; reads come from rd.
type fakeStream struct {
	wbuf   bytes.Buffer
	writes [][]byte
	rd     io.Reader
	werr   error
	failAt int // fail the failAt-th write (1-based) if >0
	nw     int
}

func (s *fakeStream) Write(p []byte) (int, error) {
	s.nw++
	if s.failAt > 0 && s.nw == s.failAt {
		return 0, s.werr
	}
	s.writes = append(s.writes, append([]byte(nil), p...))
	return s.wbuf.Write(p)
}
func (s *fakeStream) Close() error                       { return nil }
func (s *fakeStream) StreamID() quic.StreamID            { return 0 }
func (s *fakeStream) CancelWrite(wt.StreamErrorCode)     {}
func (s *fakeStream) CancelRead(wt.StreamErrorCode)      {}
func (s *fakeStream) SetWriteDeadline(time.Time) error   { return nil }
func (s *fakeStream) SetReadDeadline(time.Time) error    { return nil }
func (s *fakeStream) SetDeadline(time.Time) error        { return nil }
func (s *fakeStream) Read(p []byte) (int, error)         { return s.rd.Read(p) }

// fragReader returns at most frag(i) bytes per read
type fragReader struct {
	data    []byte
	next    func() int
	eofWith bool // return last bytes together with io.EOF
}

func (f *fragReader) Read(p []byte) (int, error) {
	if len(f.data) == 0 {
		return 0, io.EOF
	}
	if len(p) == 0 {
		return 0, nil
	}
	n := f.next()
	if n < 1 {
		n = 1
	}
	if n > len(p) {
		n = len(p)
	}
	if n > len(f.data) {
		n = len(f.data)
	}
	copy(p, f.data[:n])
	f.data = f.data[n:]
	if len(f.data) == 0 && f.eofWith {
		return n, io.EOF
	}
	return n, nil
}

type msg struct {
	mt   int
	data []byte
}

type onlyWriter struct{ io.Writer }
type onlyReader struct{ io.Reader }

func payload(n int, seed int64) []byte {
	r := rand.New(rand.NewSource(seed))
	b := make([]byte, n)
	r.Read(b)
	return b
}

func readAll(t *testing.T, wire []byte, rbuf int, next func() int, eofWith bool, chunk int) ([]msg, error) {
	fs := &fakeStream{rd: &fragReader{data: wire, next: next, eofWith: eofWith}}
	c := NewConn(nil, fs, false, rbuf, 0, nil, nil, nil)
	var out []msg
	for {
		mt, r, err := c.NextReader()
		if err != nil {
			return out, err
		}
		var p []byte
		if chunk <= 0 {
			p, err = io.ReadAll(r)
		} else {
			b := make([]byte, chunk)
			for {
				var n int
				n, err = r.Read(b)
				p = append(p, b[:n]...)
				if err != nil {
					if err == io.EOF {
						err = nil
					}
					break
				}
			}
		}
		if err != nil {
			return out, err
		}
		out = append(out, msg{mt, p})
	}
}

func describe(ms []msg) string {
	var sb strings.Builder
	for _, m := range ms {
		fmt.Fprintf(&sb, "[%d len=%d] ", m.mt, len(m.data))
	}
	return sb.String()
}

// write paths
const (
	pWriteMessage = iota
	pWriterWrite
	pWriterWriteChunks
	pWriterWriteString
	pReadFrom
	pReadFromChunks
	pPrepared
	pIoCopyWriterTo
	nPaths
)

var pathNames = []string{"WriteMessage", "Writer.Write", "Writer.Write(chunks)", "WriteString", "ReadFrom", "ReadFrom(chunks)", "Prepared", "io.Copy"}

func writeOne(c *Conn, path int, m msg, chunk int) error {
	switch path {
	case pWriteMessage:
		return c.WriteMessage(m.mt, m.data)
	case pPrepared:
		pm, err := NewPreparedMessage(m.mt, m.data)
		if err != nil {
			return err
		}
		return c.WritePreparedMessage(pm)
	}
	w, err := c.NextWriter(m.mt)
	if err != nil {
		return err
	}
	switch path {
	case pWriterWrite:
		_, err = w.Write(m.data)
	case pWriterWriteChunks:
		d := m.data
		for len(d) > 0 && err == nil {
			n := chunk
			if n > len(d) {
				n = len(d)
			}
			_, err = w.Write(d[:n])
			d = d[n:]
		}
	case pWriterWriteString:
		_, err = io.WriteString(w, string(m.data))
	case pReadFrom:
		_, err = w.(io.ReaderFrom).ReadFrom(onlyReader{bytes.NewReader(m.data)})
	case pReadFromChunks:
		d := m.data
		k := chunk
		_, err = w.(io.ReaderFrom).ReadFrom(&fragReader{data: d, next: func() int { return k }})
	case pIoCopyWriterTo:
		_, err = io.Copy(w, bytes.NewBuffer(append([]byte(nil), m.data...)))
	}
	if err != nil {
		return err
	}
	return w.Close()
}

func TestSweep(t *testing.T) {
	type fail struct{ desc string }
	fails := map[string]int{}
	var examples []string
	report := func(key, ex string) {
		fails[key]++
		if fails[key] <= 2 && !strings.Contains(key, "multi=gt") {
			examples = append(examples, key+": "+ex)
		}
	}
	for _, wbs := range []int{1, 7, 16, 125, 126, 127, 128, 300, 4096} {
		lens := map[int]bool{}
		for _, base := range []int{0, 125, 126, 65535, 65536, wbs, 2 * wbs, wbs + 9, 2*wbs + 18, 2 * (wbs + 9)} {
			for d := -2; d <= 2; d++ {
				if base+d >= 0 {
					lens[base+d] = true
				}
			}
		}
		lens[100000] = true
		for _, isServer := range []bool{true, false} {
			for _, usePool := range []bool{false, true} {
				for path := 0; path < nPaths; path++ {
					for l := range lens {
						for _, mt := range []int{TextMessage, BinaryMessage} {
							var pool BufferPool
							if usePool {
								pool = &sync.Pool{}
							}
							fs := &fakeStream{}
							c := NewConn(nil, fs, isServer, 0, wbs, pool, nil, nil)
							ms := []msg{{mt, payload(l, int64(l))}, {3 - mt, []byte("x")}, {mt, payload(l, int64(l)+1)}}
							var werr error
							for _, m := range ms {
								if werr = writeOne(c, path, m, 5); werr != nil {
									break
								}
							}
							multi := "le"
							if l > wbs {
								multi = "gt"
							} else if l == wbs || wbs == 1 {
								multi = "eq"
							}
							key := fmt.Sprintf("server=%v pool=%v path=%s multi=%v", isServer, usePool, pathNames[path], multi)
							if werr != nil {
								report(key+" WRITEERR", fmt.Sprintf("wbs=%d len=%d: %v", wbs, l, werr))
								continue
							}
							got, err := readAll(t, fs.wbuf.Bytes(), 0, func() int { return 1 << 20 }, false, 0)
							ok := err == io.EOF || err == nil || IsCloseError(err, CloseAbnormalClosure)
							if len(got) != len(ms) {
								ok = false
							} else {
								for i := range ms {
									if got[i].mt != ms[i].mt || !bytes.Equal(got[i].data, ms[i].data) {
										ok = false
									}
								}
							}
							if !ok {
								report(key, fmt.Sprintf("wbs=%d len=%d mt=%d: got %.300s err=%v", wbs, l, mt, describe(got), err))
							}
						}
					}
				}
			}
		}
	}
	for _, e := range examples {
		t.Log(e)
	}
	for k, v := range fails {
		t.Logf("FAILS %s: %d", k, v)
	}
}
