package webtransport

import (
	"bytes"
	"io"
	"sync"
	"testing"
	"time"
)

// H-J: partial consumption then NextReader; zero-length Read
func TestPartialRead(t *testing.T) {
	fs := &fakeStream{}
	c := NewConn(nil, fs, true, 0, 0, nil, nil, nil)
	lens := []int{10, 0, 200, 70000, 5, 4096, 1}
	for i, l := range lens {
		if err := c.WriteMessage(1+i%2, payload(l, int64(i))); err != nil {
			t.Fatal(err)
		}
	}
	rs := &fakeStream{rd: &fragReader{data: fs.wbuf.Bytes(), next: func() int { return 13 }}}
	r := NewConn(nil, rs, false, 16, 0, nil, nil, nil)
	for i, l := range lens {
		mt, rd, err := r.NextReader()
		if err != nil {
			t.Fatalf("msg %d: %v", i, err)
		}
		if mt != 1+i%2 {
			t.Errorf("msg %d kind %d", i, mt)
		}
		if n, err := rd.Read(nil); n != 0 || (err != nil && !(l == 0 && err == io.EOF)) {
			t.Errorf("msg %d zero read: %d %v", i, n, err)
		}
		half := make([]byte, l/2)
		if _, err := io.ReadFull(rd, half); err != nil {
			t.Fatalf("msg %d: %v", i, err)
		}
		if !bytes.Equal(half, payload(l, int64(i))[:l/2]) {
			t.Errorf("msg %d: bytes differ", i)
		}
	}
}

// H-A: caller supplied write buffers of odd sizes
func TestSuppliedWriteBuf(t *testing.T) {
	for _, sz := range []int{0, 1, 8, 9, 10, 11, 20} {
		for _, isServer := range []bool{true, false} {
			func() {
				done := make(chan string, 1)
				go func() {
					defer func() {
						if r := recover(); r != nil {
							done <- "panic: " + toString(r)
						}
					}()
					fs := &fakeStream{}
					c := NewConn(nil, fs, isServer, 0, 0, nil, nil, make([]byte, sz))
					if err := c.WriteMessage(TextMessage, []byte("a")); err != nil {
						done <- "err " + err.Error()
						return
					}
					got, _ := readAll(t, fs.wbuf.Bytes(), 0, func() int { return 100 }, false, 0)
					done <- describe(got)
				}()
				select {
				case s := <-done:
					t.Logf("writeBuf=%d server=%v: %s", sz, isServer, s)
				case <-time.After(2 * time.Second):
					t.Logf("writeBuf=%d server=%v: HANG (no result in 2s)", sz, isServer)
				}
			}()
		}
	}
}

func toString(r any) string {
	if e, ok := r.(error); ok {
		return e.Error()
	}
	if s, ok := r.(string); ok {
		return s
	}
	return "?"
}

// H-C: one pool shared by connections with different buffer sizes
func TestSharedPool(t *testing.T) {
	pool := &sync.Pool{}
	fa := &fakeStream{}
	a := NewConn(nil, fa, true, 0, 1, pool, nil, nil)
	fb := &fakeStream{}
	b := NewConn(nil, fb, true, 0, 4096, pool, nil, nil)
	for i := 0; i < 50; i++ {
		if err := a.WriteMessage(TextMessage, []byte("a")); err != nil {
			t.Fatal(err)
		}
		w, _ := b.NextWriter(BinaryMessage)
		w.Write(payload(100, 1))
		if err := w.Close(); err != nil {
			t.Fatal(err)
		}
	}
	got, _ := readAll(t, fb.wbuf.Bytes(), 0, func() int { return 100 }, false, 0)
	bad := 0
	for _, m := range got {
		if m.mt != BinaryMessage || len(m.data) != 100 {
			bad++
		}
	}
	t.Logf("conn b (4096 buffers) sharing a pool with conn a (1-byte buffers): %d messages read for 50 written, %d bad", len(got), bad)
}
