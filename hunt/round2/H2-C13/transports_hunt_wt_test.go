package transports

import (
	"bytes"
	"fmt"
	"io"
	"net/http/httptest"
	"strings"
	"sync"
	"testing"
	"time"

	"github.com/quic-go/quic-go"
	"github.com/zishang520/engine.io-go-parser/packet"
	"github.com/zishang520/engine.io/v2/events"
	"github.com/zishang520/engine.io/v2/types"
	"github.com/zishang520/engine.io/v2/webtransport"
	wt "github.com/zishang520/webtransport-go"
)

type pipeStream struct {
	mu   sync.Mutex
	wbuf bytes.Buffer
	pr   *io.PipeReader
}

func (s *pipeStream) Write(p []byte) (int, error) {
	s.mu.Lock()
	defer s.mu.Unlock()
	return s.wbuf.Write(p)
}
func (s *pipeStream) Close() error                     { return nil }
func (s *pipeStream) StreamID() quic.StreamID          { return 0 }
func (s *pipeStream) CancelWrite(wt.StreamErrorCode)   {}
func (s *pipeStream) CancelRead(wt.StreamErrorCode)    {}
func (s *pipeStream) SetWriteDeadline(time.Time) error { return nil }
func (s *pipeStream) SetReadDeadline(time.Time) error  { return nil }
func (s *pipeStream) SetDeadline(time.Time) error      { return nil }
func (s *pipeStream) Read(p []byte) (int, error)       { return s.pr.Read(p) }

type rs struct{ io.Reader }

func (rs) Close() error                     { return nil }
func (rs) Write([]byte) (int, error)        { return 0, nil }
func (rs) StreamID() quic.StreamID          { return 0 }
func (rs) CancelWrite(wt.StreamErrorCode)   {}
func (rs) CancelRead(wt.StreamErrorCode)    {}
func (rs) SetWriteDeadline(time.Time) error { return nil }
func (rs) SetReadDeadline(time.Time) error  { return nil }
func (rs) SetDeadline(time.Time) error      { return nil }

func TestWTTransportRoundTrip(t *testing.T) {
	pr, pw := io.Pipe()
	st := &pipeStream{pr: pr}
	conn := webtransport.NewConn(nil, st, true, 0, 0, nil, nil, nil)
	ctx := types.NewHttpContext(httptest.NewRecorder(), httptest.NewRequest("GET", "/engine.io/?EIO=4&transport=webtransport", nil))
	ctx.WebTransport = &types.WebTransportConn{EventEmitter: events.New(), Conn: conn}
	tr := NewWebTransport(ctx)

	var gotMu sync.Mutex
	var got []string
	tr.On("packet", func(a ...any) {
		p := a[0].(*packet.Packet)
		b, _ := io.ReadAll(p.Data)
		gotMu.Lock()
		got = append(got, fmt.Sprintf("%s:%T:%d", p.Type, p.Data, len(b)))
		gotMu.Unlock()
	})

	// inbound: a client conn writes frames
	cst := &pipeStream{}
	cc := webtransport.NewConn(nil, cst, false, 0, 0, nil, nil, nil)
	sizes := []int{1, 125, 126, 127, 4000, 4096}
	var want []string
	for i, n := range sizes {
		if i%2 == 0 {
			cc.WriteMessage(webtransport.TextMessage, []byte("4"+strings.Repeat("a", n-1)))
			want = append(want, fmt.Sprintf("message:*types.StringBuffer:%d", n-1))
		} else {
			cc.WriteMessage(webtransport.BinaryMessage, bytes.Repeat([]byte{0xff}, n))
			want = append(want, fmt.Sprintf("message:*types.BytesBuffer:%d", n))
		}
	}
	go func() {
		b := cst.wbuf.Bytes()
		for len(b) > 0 {
			n := 7
			if n > len(b) {
				n = len(b)
			}
			pw.Write(b[:n])
			b = b[n:]
		}
	}()
	deadline := time.Now().Add(2 * time.Second)
	for time.Now().Before(deadline) {
		gotMu.Lock()
		n := len(got)
		gotMu.Unlock()
		if n >= len(want) {
			break
		}
		time.Sleep(10 * time.Millisecond)
	}
	gotMu.Lock()
	if strings.Join(got, ",") != strings.Join(want, ",") {
		t.Errorf("inbound: got %v want %v", got, want)
	}
	gotMu.Unlock()

	// outbound
	type exp struct {
		mt int
		b  []byte
	}
	var exps []exp
	var pkts []*packet.Packet
	for i, n := range []int{0, 1, 124, 125, 126, 4000, 4095} {
		switch i % 4 {
		case 0:
			pkts = append(pkts, &packet.Packet{Type: packet.MESSAGE, Data: types.NewStringBufferString(strings.Repeat("s", n))})
			exps = append(exps, exp{1, []byte("4" + strings.Repeat("s", n))})
		case 1:
			pkts = append(pkts, &packet.Packet{Type: packet.MESSAGE, Data: types.NewBytesBuffer(bytes.Repeat([]byte{1}, n))})
			exps = append(exps, exp{2, bytes.Repeat([]byte{1}, n)})
		case 2:
			pkts = append(pkts, &packet.Packet{Type: packet.MESSAGE, Data: strings.NewReader("zzz"), Options: &packet.Options{WsPreEncodedFrame: types.NewStringBufferString("4" + strings.Repeat("p", n))}})
			exps = append(exps, exp{1, []byte("4" + strings.Repeat("p", n))})
		case 3:
			pkts = append(pkts, &packet.Packet{Type: packet.MESSAGE, Data: strings.NewReader("zzz"), Options: &packet.Options{WsPreEncodedFrame: types.NewBytesBuffer(bytes.Repeat([]byte{2}, n))}})
			exps = append(exps, exp{2, bytes.Repeat([]byte{2}, n)})
		}
	}
	drained := make(chan struct{}, 10)
	tr.On("drain", func(...any) { drained <- struct{}{} })
	tr.Send(pkts)
	select {
	case <-drained:
	case <-time.After(2 * time.Second):
		t.Fatal("no drain")
	}
	st.mu.Lock()
	wire := append([]byte(nil), st.wbuf.Bytes()...)
	st.mu.Unlock()
	rc := webtransport.NewConn(nil, rs{bytes.NewReader(wire)}, false, 0, 0, nil, nil, nil)
	for i, e := range exps {
		mt, p, err := rc.ReadMessage()
		if err != nil {
			t.Fatalf("outbound %d: %v", i, err)
		}
		if mt != e.mt || !bytes.Equal(p, e.b) {
			t.Errorf("outbound %d: got kind %d len %d, want kind %d len %d", i, mt, len(p), e.mt, len(e.b))
		}
	}
	if _, _, err := rc.ReadMessage(); err == nil {
		t.Errorf("extra outbound message")
	}
}
