package webtransport

import (
	"bytes"
	"fmt"
	"math/rand"
	"sync"
	"testing"
)

func TestReadFrag(t *testing.T) {
	lens := []int{0, 1, 2, 15, 16, 17, 124, 125, 126, 127, 128, 4095, 4096, 4097, 65534, 65535, 65536, 65537, 100000, 0, 0, 1, 70000}
	for _, usePool := range []bool{false, true} {
		var pool BufferPool
		if usePool {
			pool = &sync.Pool{}
		}
		fs := &fakeStream{}
		c := NewConn(nil, fs, true, 0, 0, pool, nil, nil)
		var ms []msg
		for i, l := range lens {
			m := msg{1 + i%2, payload(l, int64(i))}
			if i%3 == 0 {
				m.mt = 3 - m.mt
			}
			ms = append(ms, m)
			var err error
			if i%2 == 0 {
				err = c.WriteMessage(m.mt, m.data)
			} else {
				err = writeOne(c, pPrepared, m, 0)
			}
			if err != nil {
				t.Fatal(err)
			}
		}
		wire := append([]byte(nil), fs.wbuf.Bytes()...)
		rnd := rand.New(rand.NewSource(1))
		frags := map[string]func() int{
			"1": func() int { return 1 }, "2": func() int { return 2 }, "3": func() int { return 3 }, "7": func() int { return 7 },
			"9": func() int { return 9 }, "16": func() int { return 16 }, "17": func() int { return 17 }, "big": func() int { return 1 << 20 },
			"rand": func() int { return 1 + rnd.Intn(40) }, "rand2": func() int { return 1 + rnd.Intn(9000) },
		}
		for fname, f := range frags {
			for _, rbuf := range []int{-5, 1, 16, 17, 100, 4096, 100000} {
				for _, chunk := range []int{0, 1, 3, 16, 17, 5000} {
					for _, eofWith := range []bool{false, true} {
						got, err := readAll(t, wire, rbuf, f, eofWith, chunk)
						ok := len(got) == len(ms)
						if ok {
							for i := range ms {
								if got[i].mt != ms[i].mt || !bytes.Equal(got[i].data, ms[i].data) {
									ok = false
								}
							}
						}
						if !ok {
							t.Errorf("pool=%v frag=%s rbuf=%d chunk=%d eofWith=%v: got %d msgs %.200s err=%v", usePool, fname, rbuf, chunk, eofWith, len(got), describe(got), err)
						}
						_ = fmt.Sprint
					}
				}
			}
		}
	}
}
