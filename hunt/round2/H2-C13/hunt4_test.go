package webtransport

import (
	"errors"
	"math/rand"
	"testing"
	"unsafe"
)

type trackPool struct {
	t     *testing.T
	free  []interface{}
	inUse map[unsafe.Pointer]bool
	bad   int
}

func (p *trackPool) Get() interface{} {
	if len(p.free) == 0 {
		return nil
	}
	v := p.free[len(p.free)-1]
	p.free = p.free[:len(p.free)-1]
	p.inUse[unsafe.Pointer(&v.(writePoolData).buf[0])] = true
	return v
}
func (p *trackPool) Put(v interface{}) {
	k := unsafe.Pointer(&v.(writePoolData).buf[0])
	for _, f := range p.free {
		if unsafe.Pointer(&f.(writePoolData).buf[0]) == k {
			p.bad++
			p.t.Errorf("buffer put twice")
		}
	}
	delete(p.inUse, k)
	p.free = append(p.free, v)
}

func TestPoolDiscipline(t *testing.T) {
	rnd := rand.New(rand.NewSource(7))
	for iter := 0; iter < 2000; iter++ {
		pool := &trackPool{t: t, inUse: map[unsafe.Pointer]bool{}}
		var conns []*Conn
		var streams []*fakeStream
		for i := 0; i < 3; i++ {
			fs := &fakeStream{werr: errors.New("boom")}
			if rnd.Intn(2) == 0 {
				fs.failAt = 1 + rnd.Intn(6)
			}
			streams = append(streams, fs)
			conns = append(conns, NewConn(nil, fs, rnd.Intn(2) == 0, 0, 32, pool, nil, nil))
		}
		type sent struct {
			mt int
			b  []byte
		}
		sents := make([][]sent, 3)
		writers := make([]interface {
			Write([]byte) (int, error)
			Close() error
		}, 3)
		var cur [3]sent
		for op := 0; op < 30; op++ {
			i := rnd.Intn(3)
			c := conns[i]
			switch rnd.Intn(5) {
			case 0:
				m := sent{1 + rnd.Intn(2), payload(rnd.Intn(33), int64(op))}
				if writers[i] != nil { // beginMessage closes the open writer
					if streams[i].failAt == 0 || streams[i].nw < streams[i].failAt-1 {
					}
				}
				prev := writers[i]
				prevMsg := cur[i]
				writers[i] = nil
				err := c.WriteMessage(m.mt, m.b)
				if prev != nil {
					sents[i] = append(sents[i], prevMsg)
				}
				if err == nil {
					sents[i] = append(sents[i], m)
				}
			case 1:
				prev := writers[i]
				prevMsg := cur[i]
				mt := 1 + rnd.Intn(2)
				w, err := c.NextWriter(mt)
				if prev != nil {
					sents[i] = append(sents[i], prevMsg)
				}
				writers[i] = nil
				if err == nil {
					writers[i] = w
					cur[i] = sent{mt, nil}
				}
			case 2:
				if writers[i] != nil {
					room := 32 - len(cur[i].b)
					b := payload(rnd.Intn(room+1), int64(op))
					if _, err := writers[i].Write(b); err == nil {
						cur[i].b = append(cur[i].b, b...)
					}
				}
			case 3:
				if writers[i] != nil {
					if err := writers[i].Close(); err == nil {
						sents[i] = append(sents[i], cur[i])
					}
					writers[i] = nil
				}
			case 4:
				m := sent{1 + rnd.Intn(2), payload(rnd.Intn(33), int64(op))}
				pm, _ := NewPreparedMessage(m.mt, m.b)
				if err := c.WritePreparedMessage(pm); err == nil {
					sents[i] = append(sents[i], m)
				}
			}
		}
		// only check connections whose stream never failed
		for i := range conns {
			if streams[i].failAt != 0 {
				continue
			}
			got, _ := readAll(t, streams[i].wbuf.Bytes(), 0, func() int { return 5 }, false, 0)
			// prepared messages may overtake an open writer: compare as multisets is too weak; compare in order ignoring that case
			ok := len(got) == len(sents[i])
			if ok {
				for k := range got {
					if got[k].mt != sents[i][k].mt || string(got[k].data) != string(sents[i][k].b) {
						ok = false
					}
				}
			}
			if !ok {
				t.Fatalf("iter %d conn %d: wrote %d msgs, read %d: %s", iter, i, len(sents[i]), len(got), describe(got))
			}
		}
	}
}
