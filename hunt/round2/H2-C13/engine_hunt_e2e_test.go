package engine

import (
	"bytes"
	"context"
	"crypto/ecdsa"
	"crypto/elliptic"
	"crypto/rand"
	"crypto/tls"
	"crypto/x509"
	"crypto/x509/pkix"
	"encoding/pem"
	"fmt"
	"math/big"
	"net"
	"net/http"
	"os"
	"path/filepath"
	"strings"
	"sync"
	"testing"
	"time"

	"github.com/quic-go/quic-go/http3"
	"github.com/zishang520/engine.io/v2/config"
	"github.com/zishang520/engine.io/v2/types"
	webtrans "github.com/zishang520/engine.io/v2/webtransport"
	wt "github.com/zishang520/webtransport-go"
)

func genCert(t *testing.T, dir string) (string, string) {
	key, _ := ecdsa.GenerateKey(elliptic.P256(), rand.Reader)
	tmpl := &x509.Certificate{
		SerialNumber: big.NewInt(1), Subject: pkix.Name{CommonName: "localhost"},
		NotBefore: time.Now().Add(-time.Hour), NotAfter: time.Now().Add(time.Hour),
		KeyUsage: x509.KeyUsageDigitalSignature, ExtKeyUsage: []x509.ExtKeyUsage{x509.ExtKeyUsageServerAuth},
		DNSNames: []string{"localhost"}, IPAddresses: []net.IP{net.ParseIP("127.0.0.1")},
	}
	der, err := x509.CreateCertificate(rand.Reader, tmpl, tmpl, &key.PublicKey, key)
	if err != nil {
		t.Fatal(err)
	}
	kb, _ := x509.MarshalECPrivateKey(key)
	cf, kf := filepath.Join(dir, "c.pem"), filepath.Join(dir, "k.pem")
	os.WriteFile(cf, pem.EncodeToMemory(&pem.Block{Type: "CERTIFICATE", Bytes: der}), 0600)
	os.WriteFile(kf, pem.EncodeToMemory(&pem.Block{Type: "EC PRIVATE KEY", Bytes: kb}), 0600)
	return cf, kf
}

func TestE2EWebTransport(t *testing.T) {
	dir := t.TempDir()
	cf, kf := genCert(t, dir)
	pc, _ := net.ListenPacket("udp", "127.0.0.1:0")
	addr := pc.LocalAddr().String()
	pc.Close()

	opts := &config.ServerOptions{}
	opts.SetTransports(types.NewSet("polling", "websocket", "webtransport"))
	httpServer := types.NewWebServer(nil)
	wts := httpServer.ListenWebTransportTLS(addr, cf, kf, nil, nil)
	es := New(opts)
	httpServer.HandleFunc("/engine.io/", func(w http.ResponseWriter, r *http.Request) {
		if webtrans.IsWebTransportUpgrade(r) {
			es.OnWebTransportSession(types.NewHttpContext(w, r), wts)
		} else {
			es.HandleRequest(types.NewHttpContext(w, r))
		}
	})
	var mu sync.Mutex
	var srvGot []string
	sockCh := make(chan Socket, 1)
	es.On("connection", func(a ...any) {
		s := a[0].(Socket)
		s.On("message", func(m ...any) {
			mu.Lock()
			defer mu.Unlock()
			switch v := m[0].(type) {
			case types.BufferInterface:
				srvGot = append(srvGot, fmt.Sprintf("%T:%d", v, v.Len()))
			default:
				srvGot = append(srvGot, fmt.Sprintf("%T", v))
			}
		})
		sockCh <- s
	})
	time.Sleep(200 * time.Millisecond)

	d := &wt.Dialer{TLSClientConfig: &tls.Config{InsecureSkipVerify: true, NextProtos: []string{http3.NextProtoH3}}}
	ctx, cancel := context.WithTimeout(context.Background(), 5*time.Second)
	defer cancel()
	_, sess, err := d.Dial(ctx, "https://"+addr+"/engine.io/?EIO=4&transport=webtransport", nil)
	if err != nil {
		t.Fatal("dial: ", err)
	}
	stream, err := sess.OpenStreamSync(ctx)
	if err != nil {
		t.Fatal(err)
	}
	cc := webtrans.NewConn(sess, stream, false, 0, 0, nil, nil, nil)
	if err := cc.WriteMessage(webtrans.TextMessage, []byte("0")); err != nil {
		t.Fatal(err)
	}
	mt, p, err := cc.ReadMessage()
	if err != nil {
		t.Fatal(err)
	}
	t.Logf("open: kind=%d %s", mt, p)
	var sock Socket
	select {
	case sock = <-sockCh:
	case <-time.After(2 * time.Second):
		t.Fatal("no connection")
	}
	// client -> server
	var want []string
	for i, n := range []int{1, 125, 126, 127, 4095, 4096, 70000, 3} {
		if i%2 == 0 {
			cc.WriteMessage(webtrans.TextMessage, []byte("4"+strings.Repeat("a", n)))
			want = append(want, fmt.Sprintf("*types.StringBuffer:%d", n))
		} else {
			// one frame regardless of size: the prepared server frame
			pm, _ := webtrans.NewPreparedMessage(webtrans.BinaryMessage, bytes.Repeat([]byte{7}, n))
			_ = pm
			w, _ := cc.NextWriter(webtrans.BinaryMessage)
			if n <= 4096 {
				w.Write(bytes.Repeat([]byte{7}, n))
				w.Close()
				want = append(want, fmt.Sprintf("*types.BytesBuffer:%d", n))
			} else {
				w.Close()
				want = append(want, fmt.Sprintf("*types.BytesBuffer:%d", 0))
			}
		}
	}
	time.Sleep(500 * time.Millisecond)
	mu.Lock()
	t.Logf("server got %v", srvGot)
	mu.Unlock()
	_ = want

	// server -> client
	sizes := []int{0, 1, 124, 125, 126, 4094, 4095}
	for i, n := range sizes {
		if i%2 == 0 {
			sock.Send(types.NewStringBufferString(strings.Repeat("s", n)), nil, nil)
		} else {
			sock.Send(types.NewBytesBuffer(bytes.Repeat([]byte{9}, n)), nil, nil)
		}
	}
	for i, n := range sizes {
		cc.SetReadDeadline(time.Now().Add(2 * time.Second))
		mt, p, err := cc.ReadMessage()
		if err != nil {
			t.Fatalf("read %d: %v", i, err)
		}
		if i%2 == 0 {
			if mt != webtrans.TextMessage || len(p) != n+1 || p[0] != '4' {
				t.Errorf("msg %d: kind %d len %d", i, mt, len(p))
			}
		} else if mt != webtrans.BinaryMessage || len(p) != n {
			t.Errorf("msg %d: kind %d len %d want %d", i, mt, len(p), n)
		}
	}
}
