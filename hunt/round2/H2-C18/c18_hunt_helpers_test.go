package engine

// Helpers shared by the c18_*_test.go demonstrations. Place in engine/.

import (
	"io"
	"net/http"
	"net/http/httptest"
	"strings"
	"sync"
	"testing"
	"time"

	ws "github.com/gorilla/websocket"
	"github.com/zishang520/engine.io/v2/config"
)

type c18srv struct {
	t    *testing.T
	eng  Server
	http *httptest.Server
}

func newC18srv(t *testing.T) *c18srv {
	opts := config.DefaultServerOptions()
	opts.SetPingInterval(60 * time.Second)
	opts.SetPingTimeout(60 * time.Second)
	opts.SetUpgradeTimeout(5 * time.Second)
	h := &c18srv{t: t}
	h.eng = NewServer(opts)
	h.http = httptest.NewServer(h.eng)
	t.Cleanup(func() {
		h.http.CloseClientConnections()
		h.http.Close()
	})
	return h
}

func (h *c18srv) url(q string) string { return h.http.URL + "/engine.io/?EIO=4&" + q }

func (h *c18srv) get(q string) (int, string) {
	resp, err := http.Get(h.url(q))
	if err != nil {
		return -1, err.Error()
	}
	defer resp.Body.Close()
	b, _ := io.ReadAll(resp.Body)
	return resp.StatusCode, string(b)
}

// polling handshake; returns the sid and the server-side session
func (h *c18srv) openPolling() (string, Socket) {
	code, body := h.get("transport=polling")
	if code != 200 {
		h.t.Fatalf("handshake: %d %s", code, body)
	}
	i := strings.Index(body, `"sid":"`)
	if i < 0 {
		h.t.Fatalf("no sid in %q", body)
	}
	rest := body[i+7:]
	sid := rest[:strings.Index(rest, `"`)]
	var s Socket
	c18wait(2*time.Second, func() bool {
		v, ok := h.eng.Clients().Load(sid)
		s = v
		return ok
	})
	if s == nil {
		h.t.Fatalf("session %s not registered", sid)
	}
	return sid, s
}

func (h *c18srv) dialWS(q string) *ws.Conn {
	c, _, err := ws.DefaultDialer.Dial("ws"+strings.TrimPrefix(h.url(q), "http"), nil)
	if err != nil {
		h.t.Fatalf("dial: %v", err)
	}
	return c
}

func c18read(c *ws.Conn, d time.Duration) (string, error) {
	c.SetReadDeadline(time.Now().Add(d))
	_, b, err := c.ReadMessage()
	return string(b), err
}

func c18wait(d time.Duration, f func() bool) bool {
	deadline := time.Now().Add(d)
	for time.Now().Before(deadline) {
		if f() {
			return true
		}
		time.Sleep(2 * time.Millisecond)
	}
	return f()
}

type c18log struct {
	mu sync.Mutex
	l  []string
}

func (e *c18log) add(s string) { e.mu.Lock(); e.l = append(e.l, s); e.mu.Unlock() }
func (e *c18log) all() []string {
	e.mu.Lock()
	defer e.mu.Unlock()
	return append([]string(nil), e.l...)
}
