package engine

// Finding 2 (no source change needed). Place in engine/ together with
// c18_hunt_helpers_test.go and run
//   go test -vet=off -count=1 -run 'TestC18FailingReader' -v ./engine/
//
// Send accepts any io.Reader. When the reader fails while the batch is encoded,
// the websocket transport reports a transport error and the session closes;
// the polling transport discards the error of EncodePayload
// (transports/polling.go:305 and :308, `data, _ :=`) and passes the nil buffer
// to DoWrite, which calls data.Len() on it: nil pointer dereference on the
// send goroutine, i.e. the whole server process dies.
//
// The crash happens in a goroutine of the library and cannot be recovered by the
// test, so the scenario runs in a child process.

import (
	"errors"
	"os"
	"os/exec"
	"strings"
	"testing"
	"time"
)

type c18errReader struct{}

func (c18errReader) Read([]byte) (int, error) { return 0, errors.New("upstream read failed") }

func TestC18FailingReaderPolling(t *testing.T) {
	if os.Getenv("C18_CHILD") == "1" {
		h := newC18srv(t)
		sid, s := h.openPolling()
		s.On("close", func(a ...any) { t.Logf("session closed: %v (%v)", a[0], a[1]) })
		s.Send(c18errReader{}, nil, nil) // buffered: no poll pending
		code, body := h.get("transport=polling&sid=" + sid)
		t.Logf("poll answered %d %q", code, body)
		time.Sleep(200 * time.Millisecond)
		t.Logf("server still alive, session state %s", s.ReadyState())
		return
	}
	cmd := exec.Command(os.Args[0], "-test.run=^TestC18FailingReaderPolling$", "-test.v", "-test.count=1")
	cmd.Env = append(os.Environ(), "C18_CHILD=1")
	out, err := cmd.CombinedOutput()
	if err != nil {
		lines := strings.Split(string(out), "\n")
		if len(lines) > 14 {
			lines = lines[:14]
		}
		t.Errorf("a failing reader passed to Send on a polling session killed the server process (%v):\n%s", err, strings.Join(lines, "\n"))
	}
}

// control: the same reader on a websocket session closes that session only
func TestC18FailingReaderWebsocketControl(t *testing.T) {
	h := newC18srv(t)
	var s Socket
	h.eng.On("connection", func(a ...any) { s = a[0].(Socket) })
	c := h.dialWS("transport=websocket")
	defer c.Close()
	if m, err := c18read(c, time.Second); err != nil || !strings.HasPrefix(m, "0{") {
		t.Fatalf("open: %q %v", m, err)
	}
	time.Sleep(50 * time.Millisecond)
	reason := make(chan string, 1)
	s.On("close", func(a ...any) { reason <- a[0].(string) })
	s.Send(c18errReader{}, nil, nil)
	select {
	case r := <-reason:
		if r != "transport error" {
			t.Fatalf("closed with %q", r)
		}
	case <-time.After(time.Second):
		t.Fatal("session not closed")
	}
}
