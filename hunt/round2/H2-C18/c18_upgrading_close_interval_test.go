package engine

// Finding 3 (no source change needed). Place in engine/ together with
// c18_hunt_helpers_test.go and run
//   go test -vet=off -count=1 -run 'TestC18CloseFromUpgradingListener' -v ./engine/
//
// MaybeUpgrade's packet listener emits "upgrading" and only THEN arms the
// 100 ms check interval (engine/socket.go:356-359). A listener of "upgrading"
// that closes the session makes cleanup() run first (through the session's
// close event); the interval armed afterwards is never cleared: it ticks every
// 100 ms for the life of the process and pins the session and both transports.

import (
	"runtime"
	"strings"
	"testing"
	"time"
)

func TestC18CloseFromUpgradingListener(t *testing.T) {
	h := newC18srv(t)
	sid, s := h.openPolling()
	s.On("upgrading", func(...any) { s.Close(false) })

	// a pending poll, as every real client has
	go h.get("transport=polling&sid=" + sid)
	time.Sleep(50 * time.Millisecond)

	c := h.dialWS("transport=websocket&sid=" + sid)
	defer c.Close()
	c.WriteMessage(1, []byte("2probe"))
	c18read(c, time.Second)

	if !c18wait(time.Second, func() bool { return s.ReadyState() == "closed" }) {
		t.Fatalf("session not closed: %s", s.ReadyState())
	}
	h.http.CloseClientConnections()
	time.Sleep(500 * time.Millisecond)

	buf := make([]byte, 1<<20)
	stacks := string(buf[:runtime.Stack(buf, true)])
	if strings.Contains(stacks, "utils.SetInterval") {
		t.Errorf("the session is closed, yet the upgrade's check interval is still running (goroutine in utils.SetInterval found 500 ms later)")
	}
}
