package engine

// Findings 4 and 5: interleavings. Both tests PASS on the unmodified tree when
// the window is not hit; apply the matching patch (it adds one time.Sleep and
// nothing else) to make the interleaving certain:
//
//   TestC18LostDrainAcrossUpgrade   needs  patch -p1 < sleep_drain.diff
//   TestC18CloseMissesDrain         needs  patch -p1 < sleep_close.diff
//
//   go test -vet=off -count=1 -run 'TestC18LostDrainAcrossUpgrade|TestC18CloseMissesDrain' -v ./engine/
//
// Place in engine/ together with c18_hunt_helpers_test.go.

import (
	"strings"
	"sync/atomic"
	"testing"
	"time"

	"github.com/zishang520/engine.io/v2/transports"
)

// Finding 4. polling.write emits the transport's drain event after the response
// has been written (the client already has it). A client that completes the
// upgrade in that window makes clearTransport remove the session's drain
// listener first: the group pushed by flush for that batch is never popped, and
// from then on every transport drain pops the group of the PREVIOUS batch: the
// callback of a packet runs only when some later packet is drained, the last
// one never.
func TestC18LostDrainAcrossUpgrade(t *testing.T) {
	h := newC18srv(t)
	sid, s := h.openPolling()
	time.Sleep(300 * time.Millisecond) // let the open packet's drain pass
	var cb1, cb2 atomic.Int32
	s.Send(strings.NewReader("m1"), nil, func(transports.Transport) { cb1.Add(1) })
	if _, body := h.get("transport=polling&sid=" + sid); body != "4m1" {
		t.Fatalf("poll: %q", body)
	}
	c := h.dialWS("transport=websocket&sid=" + sid)
	defer c.Close()
	c.WriteMessage(1, []byte("2probe"))
	if m, err := c18read(c, time.Second); m != "3probe" {
		t.Fatalf("probe: %q %v", m, err)
	}
	c.WriteMessage(1, []byte("5"))
	if !c18wait(time.Second, s.Upgraded) {
		t.Fatal("not upgraded")
	}
	time.Sleep(400 * time.Millisecond)
	s.Send(strings.NewReader("m2"), nil, func(transports.Transport) { cb2.Add(1) })
	if m, err := c18read(c, time.Second); m != "4m2" {
		t.Fatalf("m2: %q %v", m, err)
	}
	time.Sleep(300 * time.Millisecond)
	if cb2.Load() != 1 {
		t.Errorf("m2 was written to the websocket and its drain emitted, but its callback did not run (cb1=%d cb2=%d): the queue of callback groups is one batch behind", cb1.Load(), cb2.Load())
	}
}

// Finding 5. Close(false) with packets buffered tests writeBuffer.Len() and then
// registers a one-time drain listener. A flush between the two (the poll
// arriving) empties the buffer and emits the only drain there will ever be
// (a closing session accepts no more packets, not even pings): the session
// stays in "closing", the close packet is never sent, later polls hang, until
// the ping timeout finally reports "ping timeout".
func TestC18CloseMissesDrain(t *testing.T) {
	h := newC18srv(t)
	sid, s := h.openPolling()
	s.Send(strings.NewReader("hello"), nil, nil)
	go s.Close(false)
	time.Sleep(30 * time.Millisecond)
	_, body := h.get("transport=polling&sid=" + sid)
	t.Logf("first poll: %q", body)
	time.Sleep(200 * time.Millisecond)
	done := make(chan string, 1)
	go func() { _, b := h.get("transport=polling&sid=" + sid); done <- b }()
	select {
	case b := <-done:
		t.Logf("second poll: %q", b)
	case <-time.After(time.Second):
		t.Logf("second poll hangs")
	}
	if s.ReadyState() != "closed" {
		t.Errorf("Close(false) never completes: state %q after both polls", s.ReadyState())
	}
}
