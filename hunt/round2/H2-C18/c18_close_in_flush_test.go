package engine

// Finding 1 (no source change needed). Place in engine/ together with
// c18_hunt_helpers_test.go and run
//   go test -vet=off -count=1 -run 'TestC18Close' -v ./engine/
//
// Close(false) is the orderly close: packets the application has already sent
// are delivered, then the close packet. flush() empties writeBuffer BEFORE it
// emits the flush events and hands the batch to the transport, and Close only
// looks at writeBuffer.Len(): a Close(false) issued while the flush listeners
// run (from the listener itself, or from another goroutine) believes the buffer
// is empty, closes the transport right away, and the batch announced by the
// flush event goes to a closed transport.

import (
	"strings"
	"sync/atomic"
	"testing"
	"time"

	"github.com/zishang520/engine.io/v2/transports"
)

// control: the same Send + Close(false) outside any listener is orderly
func TestC18CloseAfterSendControl(t *testing.T) {
	h := newC18srv(t)
	sid, s := h.openPolling()
	s.Send(strings.NewReader("hello"), nil, nil)
	s.Close(false)
	code, body := h.get("transport=polling&sid=" + sid)
	if code != 200 || body != "4hello\x1e1" {
		t.Fatalf("control: poll answered %d %q, want message then close packet", code, body)
	}
}

// Close(false) from inside the session's flush listener
func TestC18CloseFromSessionFlushListener(t *testing.T) {
	h := newC18srv(t)
	sid, s := h.openPolling()
	log := &c18log{}
	var once atomic.Bool
	s.On("flush", func(...any) {
		if once.CompareAndSwap(false, true) {
			log.add("flush(listener calls Close(false))")
			s.Close(false)
		}
	})
	s.On("drain", func(...any) { log.add("drain") })
	s.On("close", func(a ...any) { log.add("close:" + a[0].(string)) })
	var cb atomic.Int32
	// no poll is pending: the packet is buffered
	s.Send(strings.NewReader("hello"), nil, func(transports.Transport) { cb.Add(1) })
	// the poll makes the transport writable: flush -> listener -> Close(false)
	code, body := h.get("transport=polling&sid=" + sid)
	time.Sleep(100 * time.Millisecond)
	t.Logf("poll answered %d %q; session events %v; callback ran %d time(s); state %s", code, body, log.all(), cb.Load(), s.ReadyState())
	if body != "4hello\x1e1" {
		t.Errorf("orderly close from a flush listener: poll answered %q, want %q (the batch carried by the flush event, then the close packet)", body, "4hello\x1e1")
	}
}

// the same from the server-level flush listener
func TestC18CloseFromServerFlushListener(t *testing.T) {
	h := newC18srv(t)
	sid, s := h.openPolling()
	var once atomic.Bool
	h.eng.On("flush", func(a ...any) {
		if a[0].(Socket) == s && once.CompareAndSwap(false, true) {
			s.Close(false)
		}
	})
	s.Send(strings.NewReader("hello"), nil, nil)
	_, body := h.get("transport=polling&sid=" + sid)
	if body != "4hello\x1e1" {
		t.Errorf("poll answered %q, want %q", body, "4hello\x1e1")
	}
}

// the same window hit from another goroutine: the flush listener merely takes
// some time (it does not touch the session), Close(false) comes from elsewhere
func TestC18CloseFromOtherGoroutineDuringFlushListener(t *testing.T) {
	h := newC18srv(t)
	sid, s := h.openPolling()
	inListener := make(chan struct{})
	release := make(chan struct{})
	var once atomic.Bool
	s.On("flush", func(...any) {
		if once.CompareAndSwap(false, true) {
			close(inListener)
			<-release
		}
	})
	s.Send(strings.NewReader("hello"), nil, nil)
	go func() {
		<-inListener
		s.Close(false)
		close(release)
	}()
	_, body := h.get("transport=polling&sid=" + sid)
	if body != "4hello\x1e1" {
		t.Errorf("poll answered %q, want %q", body, "4hello\x1e1")
	}
}
