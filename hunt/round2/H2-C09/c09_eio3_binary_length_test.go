package engine

// C09 (second finding) — the length prefix of a revision-3 *binary* polling
// payload is trusted: a 20-byte POST makes the handler goroutine spin for ~1e18
// iterations (for ever), a 4-byte one panics inside the handler.
// Needs AllowEIO3 (a documented option; the property quantifies over revisions).
//
// Place in engine/ and run:
//
//	export GOFLAGS=-mod=mod GOPROXY=off; unset GOWORK
//	go test -vet=off -count=1 -run 'TestC09EIO3' ./engine/

import (
	"bytes"
	"io"
	"net"
	"net/http"
	"net/http/httptest"
	"regexp"
	"runtime"
	"strings"
	"testing"
	"time"

	"github.com/zishang520/engine.io/v2/config"
)

func c09eio3Server(t *testing.T) (*httptest.Server, string) {
	opts := config.DefaultServerOptions()
	opts.SetAllowEIO3(true)
	opts.SetPingInterval(300 * time.Millisecond)
	opts.SetPingTimeout(200 * time.Millisecond)
	srv := NewServer(opts)
	ts := httptest.NewServer(http.HandlerFunc(srv.ServeHTTP))
	resp, err := http.Get(ts.URL + "/engine.io/?EIO=3&transport=polling")
	if err != nil {
		t.Fatal(err)
	}
	b, _ := io.ReadAll(resp.Body)
	resp.Body.Close()
	m := regexp.MustCompile(`"sid":"([^"]+)"`).FindSubmatch(b)
	if m == nil {
		t.Fatalf("no sid in %q", b)
	}
	return ts, string(m[1])
}

func TestC09EIO3BinaryPayloadHugeLengthSpinsForever(t *testing.T) {
	ts, sid := c09eio3Server(t)
	// <0 = string> <length digits 9 x18> <255> and no data at all
	body := append(append([]byte{0x00}, bytes.Repeat([]byte{9}, 18)...), 0xFF)

	conn, err := net.Dial("tcp", strings.TrimPrefix(ts.URL, "http://"))
	if err != nil {
		t.Fatal(err)
	}
	req := "POST /engine.io/?EIO=3&transport=polling&sid=" + sid + " HTTP/1.1\r\nHost: x\r\n" +
		"Content-Type: application/octet-stream\r\nContent-Length: 20\r\n\r\n"
	conn.Write(append([]byte(req), body...))
	conn.SetReadDeadline(time.Now().Add(2 * time.Second))
	buf := make([]byte, 64)
	n, _ := conn.Read(buf)
	answered := n > 0
	conn.Close() // the client is gone
	// the session itself dies of its ping timeout (0.5 s) meanwhile
	time.Sleep(1500 * time.Millisecond)

	stacks := make([]byte, 1<<20)
	stacks = stacks[:runtime.Stack(stacks, true)]
	spinning := bytes.Contains(stacks, []byte("decodePayloadAsBinary"))
	if !answered || spinning {
		t.Fatalf("a %d-byte POST: answered=%v; 1.5 s after the client went away (and the session timed out) a handler goroutine is still inside parserv3.decodePayloadAsBinary=%v (it burns one CPU for ~1e18 iterations)", len(body), answered, spinning)
	}
}

func TestC09EIO3BinaryPayloadNegativeLengthPanics(t *testing.T) {
	ts, sid := c09eio3Server(t)
	// <1 = binary> <0xFD -> '-'> <5> <255> : length "-5"
	body := []byte{0x01, 0xFD, 0x05, 0xFF}
	req, _ := http.NewRequest("POST", ts.URL+"/engine.io/?EIO=3&transport=polling&sid="+sid, bytes.NewReader(body))
	req.Header.Set("Content-Type", "application/octet-stream")
	resp, err := http.DefaultClient.Do(req)
	if err != nil {
		t.Fatalf("no HTTP answer at all (the handler panicked with slice bounds out of range, see the server log above): %v", err)
	}
	resp.Body.Close()
	t.Logf("answered %s", resp.Status)
}
