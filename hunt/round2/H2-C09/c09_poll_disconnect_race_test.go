package engine

// C09 — a polling client that goes away while a payload is being written to its
// pending poll crashes the whole server process.
//
// Place in engine/ and run (unmodified tree, no sleep needed):
//
//	export GOFLAGS=-mod=mod GOPROXY=off; unset GOWORK
//	go test -vet=off -count=1 -run 'TestC09' ./engine/
//
// TestC09ClientAloneKillsEchoServer starts the server in a child process (this
// test binary re-executed) so that the attacker is a pure network client and the
// death of the server is observed from outside.
// TestC09BroadcastWhileClientsDisconnect is the in-process variant: the
// application sends while clients disconnect (the test binary itself dies).

import (
	"bufio"
	"bytes"
	"fmt"
	"io"
	"math/rand"
	"net"
	"net/http"
	"os"
	"os/exec"
	"regexp"
	"strings"
	"sync"
	"sync/atomic"
	"testing"
	"time"

	"github.com/zishang520/engine.io/v2/config"
	"github.com/zishang520/engine.io/v2/types"
)

var c09Sid = regexp.MustCompile(`"sid":"([^"]+)"`)

func c09Handshake(base string) (string, error) {
	resp, err := http.Get(base + "/engine.io/?EIO=4&transport=polling")
	if err != nil {
		return "", err
	}
	defer resp.Body.Close()
	b, _ := io.ReadAll(resp.Body)
	m := c09Sid.FindSubmatch(b)
	if m == nil {
		return "", fmt.Errorf("no sid in %q", b)
	}
	return string(m[1]), nil
}

// Helper: an ordinary echo application. Runs only as the child process.
func TestC09EchoServerChild(t *testing.T) {
	if os.Getenv("C09_CHILD") != "1" {
		t.Skip("helper process for TestC09ClientAloneKillsEchoServer")
	}
	srv := NewServer(config.DefaultServerOptions())
	srv.On("connection", func(a ...any) {
		s := a[0].(Socket)
		s.On("message", func(d ...any) {
			s.Send(d[0].(io.Reader), nil, nil) // echo
		})
	})
	ln, err := net.Listen("tcp", "127.0.0.1:0")
	if err != nil {
		t.Fatal(err)
	}
	fmt.Printf("LISTEN %s\n", ln.Addr())
	http.Serve(ln, http.HandlerFunc(srv.ServeHTTP))
}

func TestC09ClientAloneKillsEchoServer(t *testing.T) {
	if os.Getenv("C09_CHILD") == "1" {
		t.Skip()
	}
	cmd := exec.Command(os.Args[0], "-test.run=^TestC09EchoServerChild$", "-test.v")
	cmd.Env = append(os.Environ(), "C09_CHILD=1")
	stdout, _ := cmd.StdoutPipe()
	var stderr bytes.Buffer
	cmd.Stderr = &stderr
	if err := cmd.Start(); err != nil {
		t.Fatal(err)
	}
	defer cmd.Process.Kill()

	addr := ""
	sc := bufio.NewScanner(stdout)
	for sc.Scan() {
		if strings.HasPrefix(sc.Text(), "LISTEN ") {
			addr = strings.TrimPrefix(sc.Text(), "LISTEN ")
			break
		}
	}
	if addr == "" {
		t.Fatalf("child did not start: %s", stderr.String())
	}
	go io.Copy(io.Discard, stdout)
	dead := make(chan error, 1)
	go func() { dead <- cmd.Wait() }()

	base := "http://" + addr
	message := "4" + strings.Repeat("x", 4000) // one Engine.IO message packet

	var stop atomic.Bool
	var attempts atomic.Int64
	var wg sync.WaitGroup
	for w := 0; w < 8; w++ {
		wg.Add(1)
		go func(w int) {
			defer wg.Done()
			rnd := rand.New(rand.NewSource(int64(w)))
			for it := 0; it < 1000 && !stop.Load(); it++ {
				sid, err := c09Handshake(base)
				if err != nil {
					return
				}
				poll, err := net.Dial("tcp", addr)
				if err != nil {
					return
				}
				post, err := net.Dial("tcp", addr)
				if err != nil {
					poll.Close()
					return
				}
				// the pending poll
				fmt.Fprintf(poll, "GET /engine.io/?EIO=4&transport=polling&sid=%s HTTP/1.1\r\nHost: x\r\n\r\n", sid)
				time.Sleep(2 * time.Millisecond)
				// a message that the application echoes into that poll ...
				fmt.Fprintf(post, "POST /engine.io/?EIO=4&transport=polling&sid=%s HTTP/1.1\r\nHost: x\r\nContent-Type: text/plain\r\nContent-Length: %d\r\n\r\n%s", sid, len(message), message)
				// ... while the poll's connection goes away
				d := time.Duration(rnd.Intn(400)) * time.Microsecond
				for s := time.Now(); time.Since(s) < d; {
				}
				poll.Close()
				attempts.Add(1)
				post.SetReadDeadline(time.Now().Add(200 * time.Millisecond))
				io.Copy(io.Discard, io.LimitReader(post, 64))
				post.Close()
			}
		}(w)
	}
	finished := make(chan struct{})
	go func() { wg.Wait(); close(finished) }()

	select {
	case err := <-dead:
		stop.Store(true)
		out := stderr.String()
		if i := strings.Index(out, "goroutine "); i > 0 {
			if j := strings.Index(out[i:], "\n\n"); j > 0 {
				out = out[:i+j]
			}
		}
		t.Fatalf("the server PROCESS died (%v) after %d client attempts; the clients only sent well-formed requests and closed connections:\n%s", err, attempts.Load(), out)
	case <-finished:
		select {
		case err := <-dead:
			t.Fatalf("the server process died (%v) after %d attempts:\n%.3000s", err, attempts.Load(), stderr.String())
		case <-time.After(300 * time.Millisecond):
		}
		t.Logf("server survived %d attempts", attempts.Load())
	}
}

// In-process variant: the application sends (a broadcast) while clients drop
// their pending polls. No client-side payload is needed at all.
func TestC09BroadcastWhileClientsDisconnect(t *testing.T) {
	if os.Getenv("C09_CHILD") == "1" {
		t.Skip()
	}
	srv := NewServer(config.DefaultServerOptions())
	var mu sync.Mutex
	socks := map[string]Socket{}
	srv.On("connection", func(a ...any) {
		s := a[0].(Socket)
		mu.Lock()
		socks[s.Id()] = s
		mu.Unlock()
	})
	ln, err := net.Listen("tcp", "127.0.0.1:0")
	if err != nil {
		t.Fatal(err)
	}
	defer ln.Close()
	go http.Serve(ln, http.HandlerFunc(srv.ServeHTTP))
	addr := ln.Addr().String()
	payload := strings.Repeat("x", 8000)

	var wg sync.WaitGroup
	for w := 0; w < 8; w++ {
		wg.Add(1)
		go func(w int) {
			defer wg.Done()
			rnd := rand.New(rand.NewSource(int64(w)))
			for it := 0; it < 400; it++ {
				sid, err := c09Handshake("http://" + addr)
				if err != nil {
					t.Error(err)
					return
				}
				mu.Lock()
				sock := socks[sid]
				delete(socks, sid)
				mu.Unlock()
				conn, err := net.Dial("tcp", addr)
				if err != nil {
					t.Error(err)
					return
				}
				fmt.Fprintf(conn, "GET /engine.io/?EIO=4&transport=polling&sid=%s HTTP/1.1\r\nHost: x\r\n\r\n", sid)
				for i := 0; !sock.Transport().Writable(); i++ {
					if i > 4000 {
						t.Error("poll never installed")
						return
					}
					time.Sleep(500 * time.Microsecond)
				}
				conn.Close() // the client goes away ...
				d := time.Duration(rnd.Intn(300)) * time.Microsecond
				for s := time.Now(); time.Since(s) < d; {
				}
				// ... and the application sends to it
				sock.Send(types.NewStringBufferString(payload), nil, nil)
			}
		}(w)
	}
	wg.Wait()
	time.Sleep(200 * time.Millisecond)
	// reached only if the process survived
	if _, err := c09Handshake("http://" + addr); err != nil {
		t.Fatalf("server no longer answers: %v", err)
	}
}

// Optional single-shot variant that shows the exact interleaving. Needs the
// timing-only patch sleep.diff (git apply sleep.diff) and C09_SLEEP=1:
//
//	C09_SLEEP=1 go test -vet=off -count=1 -run TestC09DeterministicWithSleep ./engine/
//
// Send goroutine: HttpContext.Write passed its IsDone test and wrote the header
// -> [sleep] -> client closes -> request context cancelled -> watcher goroutine
// calls Flush (no lock) -> HandleRequest returns -> net/http finishRequest
// recycles the response's bufio.Writer -> Write resumes: response.Write on the
// recycled writer -> nil dereference in a goroutine nobody recovers.
func TestC09DeterministicWithSleep(t *testing.T) {
	if os.Getenv("C09_SLEEP") != "1" {
		t.Skip("needs sleep.diff applied and C09_SLEEP=1")
	}
	srv := NewServer(config.DefaultServerOptions())
	socks := make(chan Socket, 1)
	srv.On("connection", func(a ...any) { socks <- a[0].(Socket) })
	ln, err := net.Listen("tcp", "127.0.0.1:0")
	if err != nil {
		t.Fatal(err)
	}
	defer ln.Close()
	go http.Serve(ln, http.HandlerFunc(srv.ServeHTTP))
	addr := ln.Addr().String()

	sid, err := c09Handshake("http://" + addr)
	if err != nil {
		t.Fatal(err)
	}
	sock := <-socks
	conn, err := net.Dial("tcp", addr)
	if err != nil {
		t.Fatal(err)
	}
	fmt.Fprintf(conn, "GET /engine.io/?EIO=4&transport=polling&sid=%s HTTP/1.1\r\nHost: x\r\n\r\n", sid)
	for i := 0; !sock.Transport().Writable(); i++ {
		if i > 2000 {
			t.Fatal("poll never installed")
		}
		time.Sleep(time.Millisecond)
	}
	sock.Send(types.NewStringBufferString(strings.Repeat("x", 8000)), nil, nil)
	time.Sleep(50 * time.Millisecond) // Write is inside its (widened) window
	conn.Close()
	time.Sleep(time.Second)
	if _, err := c09Handshake("http://" + addr); err != nil {
		t.Fatal(err)
	}
	t.Log("process survived")
}
