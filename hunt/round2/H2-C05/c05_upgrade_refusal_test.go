package engine

// Demonstration for property C05 (routing and admission).
// Place this file in engine/ (package engine) and run:
//
//	export GOFLAGS=-mod=mod GOPROXY=off; unset GOWORK
//	go test -vet=off -count=1 -run 'TestC05' -v ./engine/
//
// All three tests FAIL on the unmodified tree.

import (
	"bufio"
	"encoding/json"
	"io"
	"net"
	"net/http"
	"net/http/httptest"
	"strings"
	"sync/atomic"
	"testing"
	"time"

	"github.com/gorilla/websocket"
	"github.com/zishang520/engine.io/v2/config"
	"github.com/zishang520/engine.io/v2/types"
)

type c05Env struct {
	eng      Server
	ts       *httptest.Server
	connErrs atomic.Int64
	hook     atomic.Int64
}

func newC05Env(t *testing.T, transportNames ...string) *c05Env {
	e := &c05Env{}
	so := config.DefaultServerOptions()
	if len(transportNames) > 0 {
		so.SetTransports(types.NewSet(transportNames...))
	}
	so.SetAllowRequest(func(*types.HttpContext) error { e.hook.Add(1); return nil })
	hs := types.NewWebServer(http.HandlerFunc(func(w http.ResponseWriter, r *http.Request) {
		http.Error(w, "application handler", http.StatusTeapot)
	}))
	e.eng = NewServer(so)
	e.eng.Attach(hs, nil)
	e.eng.On("connection_error", func(...any) { e.connErrs.Add(1) })
	e.ts = httptest.NewServer(hs)
	t.Cleanup(e.ts.Close)
	return e
}

func (e *c05Env) addr() string { return strings.TrimPrefix(e.ts.URL, "http://") }

// sends a well-formed RFC 6455 opening handshake and returns the HTTP response
func (e *c05Env) upgradeRequest(t *testing.T, query string) (status int, contentType, body string) {
	c, err := net.Dial("tcp", e.addr())
	if err != nil {
		t.Fatal(err)
	}
	defer c.Close()
	c.SetDeadline(time.Now().Add(3 * time.Second))
	io.WriteString(c, "GET /engine.io/?"+query+" HTTP/1.1\r\nHost: x\r\n"+
		"Connection: Upgrade\r\nUpgrade: websocket\r\nSec-WebSocket-Version: 13\r\n"+
		"Sec-WebSocket-Key: dGhlIHNhbXBsZSBub25jZQ==\r\n\r\n")
	resp, err := http.ReadResponse(bufio.NewReader(c), nil)
	if err != nil {
		t.Fatalf("no HTTP response: %v", err)
	}
	if resp.StatusCode == http.StatusSwitchingProtocols {
		return resp.StatusCode, "", ""
	}
	b, _ := io.ReadAll(resp.Body)
	return resp.StatusCode, resp.Header.Get("Content-Type"), string(b)
}

// A WebSocket upgrade request on a server whose transports are {polling}: the
// transport is known but not enabled, the documented answer is
// 400 {"code":0,"message":"Transport unknown"} plus one connection_error
// (the same request WITHOUT the Upgrade header gets exactly that).
func TestC05_UpgradeRequestWhenWebsocketDisabled(t *testing.T) {
	e := newC05Env(t, "polling")

	status, ct, body := e.upgradeRequest(t, "EIO=4&transport=websocket")
	t.Logf("upgrade request, transport=websocket: %d %q %q, connection_error=%d", status, ct, body, e.connErrs.Load())

	var cm types.CodeMessage
	if status != http.StatusBadRequest || json.Unmarshal([]byte(body), &cm) != nil || cm.Code != 0 || cm.Message != "Transport unknown" {
		t.Errorf(`want 400 {"code":0,"message":"Transport unknown"}, got %d %q`, status, body)
	}
	if n := e.connErrs.Load(); n != 1 {
		t.Errorf("want exactly one connection_error, got %d", n)
	}
}

// Same server, the request names the enabled transport (polling) and merely
// carries Upgrade headers: it is neither admitted (200 + open packet) nor
// rejected the documented way.
func TestC05_UpgradeHeadersOnPollingOnlyServer(t *testing.T) {
	e := newC05Env(t, "polling")

	status, ct, body := e.upgradeRequest(t, "EIO=4&transport=polling")
	t.Logf("upgrade request, transport=polling: %d %q %q, connection_error=%d clients=%d", status, ct, body, e.connErrs.Load(), e.eng.ClientsCount())

	admitted := status == http.StatusOK && e.eng.ClientsCount() == 1 && e.connErrs.Load() == 0
	rejected := status == http.StatusBadRequest && ct == "application/json" && e.connErrs.Load() == 1 && e.eng.ClientsCount() == 0
	if !admitted && !rejected {
		t.Errorf("request was neither admitted nor rejected with a documented error: %d %q %q (connection_error=%d)", status, ct, body, e.connErrs.Load())
	}
}

// Default server (polling + websocket). A WebSocket upgrade request naming a
// transport that does not handle upgrades (transport=polling, no sid) passes
// Verify (the allow-request hook runs), the connection is upgraded (101) and
// then dropped: no close message, no HTTP error, no connection_error.
func TestC05_UpgradeRequestForPollingTransport(t *testing.T) {
	e := newC05Env(t)

	c, resp, err := websocket.DefaultDialer.Dial("ws://"+e.addr()+"/engine.io/?EIO=4&transport=polling", nil)
	if err != nil {
		// refused before the upgrade: must be a documented HTTP error
		b, _ := io.ReadAll(resp.Body)
		var cm types.CodeMessage
		if resp.StatusCode != http.StatusBadRequest || json.Unmarshal(b, &cm) != nil || cm.Code != 3 {
			t.Errorf("refused with an undocumented answer: %d %q", resp.StatusCode, b)
		}
	} else {
		defer c.Close()
		c.SetReadDeadline(time.Now().Add(3 * time.Second))
		_, msg, err := c.ReadMessage()
		t.Logf("after 101: msg=%q err=%v hook=%d connection_error=%d clients=%d", msg, err, e.hook.Load(), e.connErrs.Load(), e.eng.ClientsCount())
		if err == nil {
			return // admitted: a session was opened over this connection
		}
		ce, ok := err.(*websocket.CloseError)
		if !ok || ce.Text != BAD_REQUEST.Message {
			t.Errorf("refused after the upgrade without a close message carrying the error text: %v", err)
		}
	}
	if n := e.connErrs.Load(); n != 1 {
		t.Errorf("want exactly one connection_error for the refused request, got %d", n)
	}
}
