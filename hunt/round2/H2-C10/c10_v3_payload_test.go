package engine

// Demonstration for property C10 (maximum payload size on every inbound path).
// Place this file in engine/ and run, from the repository root:
//
//	export GOFLAGS=-mod=mod GOPROXY=off; unset GOWORK
//	go test -vet=off -count=1 -run 'TestC10' -v ./engine/
//
// Both tests FAIL on the unmodified tree.

import (
	"bytes"
	"io"
	"net"
	"net/http"
	"net/http/httptest"
	"regexp"
	"strings"
	"testing"
	"time"

	"github.com/zishang520/engine.io/v2/config"
	"github.com/zishang520/engine.io/v2/types"
)

var c10Sid = regexp.MustCompile(`sid\\?":\\?"([^"\\]+)`)

func c10Server(limit int64) (Server, chan int) {
	opts := config.DefaultServerOptions()
	opts.SetMaxHttpBufferSize(limit)
	opts.SetAllowEIO3(true) // revision-3 clients (Socket.IO v2) are a supported option
	opts.SetPingInterval(30 * time.Second)
	opts.SetPingTimeout(30 * time.Second)
	s := NewServer(opts)
	delivered := make(chan int, 16)
	s.On("connection", func(args ...any) {
		args[0].(Socket).On("message", func(a ...any) {
			delivered <- a[0].(types.BufferInterface).Len()
		})
	})
	return s, delivered
}

func c10Handshake(t *testing.T, base, query string) string {
	t.Helper()
	resp, err := http.Get(base + "/engine.io/?transport=polling&" + query)
	if err != nil {
		t.Fatal(err)
	}
	b, _ := io.ReadAll(resp.Body)
	resp.Body.Close()
	m := c10Sid.FindSubmatch(b)
	if m == nil {
		t.Fatalf("no sid in %q", b)
	}
	return string(m[1])
}

// A revision-3 text payload whose body is exactly maxHttpBufferSize bytes long
// but consists of bytes that are not valid UTF-8: the parser's rune-by-rune
// copy replaces every such byte by U+FFFD (three bytes), so the application
// receives a message almost three times the configured maximum.
func TestC10_V3TextPayloadDeliversMessageLargerThanLimit(t *testing.T) {
	const limit = 1000
	s, delivered := c10Server(limit)
	ts := httptest.NewServer(http.HandlerFunc(s.ServeHTTP))
	defer ts.Close()
	defer s.Close()

	for _, tc := range []struct{ name, query, ctype, prefix string }{
		{"polling", "EIO=3", "text/plain;charset=UTF-8", ""},
		{"jsonp", "EIO=3&j=0", "application/x-www-form-urlencoded", "d="},
	} {
		sid := c10Handshake(t, ts.URL, tc.query)
		// <length>:<packet>, the packet being '4' (message) followed by 0xFF bytes;
		// the body is padded to exactly `limit` bytes
		head := tc.prefix + "990:4"
		body := append([]byte(head), bytes.Repeat([]byte{0xff}, limit-len(head))...)
		if len(body) != limit {
			t.Fatalf("body is %d bytes", len(body))
		}
		resp, err := http.Post(ts.URL+"/engine.io/?transport=polling&"+tc.query+"&sid="+sid, tc.ctype, bytes.NewReader(body))
		if err != nil {
			t.Fatal(err)
		}
		io.Copy(io.Discard, resp.Body)
		resp.Body.Close()
		select {
		case n := <-delivered:
			if n > limit {
				t.Errorf("%s: a %d-byte body (status %d) delivered a message of %d bytes to the application; maxHttpBufferSize is %d",
					tc.name, len(body), resp.StatusCode, n, limit)
			}
		case <-time.After(time.Second):
			t.Logf("%s: status %d, nothing delivered", tc.name, resp.StatusCode)
		}
	}
}

// A revision-3 binary payload (Content-Type application/octet-stream) holding
// one string packet whose declared length is far larger than the body: the
// parser's loop `for k := 0; k < PACKETLEN;` goes on at end of input (each
// iteration decodes an empty buffer and counts it as one character), so a
// 24-byte request occupies a CPU for (practically) ever and is never answered.
// Measured here: 8 digits ~1.6 s, 9 digits ~18 s; 19 digits = centuries.
func TestC10_V3BinaryPayloadDeclaredLengthIsNotBoundedByTheBody(t *testing.T) {
	s, _ := c10Server(1000)
	// not httptest: its Close would wait for the request that never ends
	ln, err := net.Listen("tcp", "127.0.0.1:0")
	if err != nil {
		t.Fatal(err)
	}
	go http.Serve(ln, http.HandlerFunc(s.ServeHTTP))
	base := "http://" + ln.Addr().String()

	sid := c10Handshake(t, base, "EIO=3")
	body := []byte{0x00} // a string packet
	for _, d := range "9223372036854775807" {
		body = append(body, byte(d-'0')) // the length, one byte per decimal digit
	}
	body = append(body, 0xff, '4', 'h', 'i')

	client := &http.Client{Timeout: 3 * time.Second}
	start := time.Now()
	resp, err := client.Post(base+"/engine.io/?transport=polling&EIO=3&sid="+sid, "application/octet-stream", bytes.NewReader(body))
	if err != nil {
		if strings.Contains(err.Error(), "Timeout") || strings.Contains(err.Error(), "deadline") {
			t.Fatalf("a %d-byte data request (limit 1000) was still being processed after %v: %v", len(body), time.Since(start).Round(time.Millisecond), err)
		}
		t.Fatal(err)
	}
	resp.Body.Close()
	t.Logf("answered with %d after %v", resp.StatusCode, time.Since(start))
}
