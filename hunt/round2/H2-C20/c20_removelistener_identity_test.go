package types

// Place in types/ and run
//   export GOFLAGS=-mod=mod GOPROXY=off; unset GOWORK
//   go test -vet=off -count=1 -run TestC20RemoveListener ./types/
//
// All three tests FAIL on the unmodified tree.

import (
	"reflect"
	"testing"
)

// Listeners made from ONE func literal (the ordinary "one handler per room /
// per peer / per request" loop) are distinct functions, but RemoveListener
// identifies a listener by reflect.Value.Pointer(), i.e. by its CODE pointer,
// which all of them share: removing the last one removes the first one.
func TestC20RemoveListenerClosuresOfOneLiteral(t *testing.T) {
	e := NewEventEmitter()
	var log []string
	ls := map[string]Listener{}
	for _, name := range []string{"A", "B", "C"} {
		name := name
		ls[name] = func(...any) { log = append(log, name) }
		e.On("x", ls[name])
	}

	if !e.RemoveListener("x", ls["C"]) {
		t.Fatal("RemoveListener(C) = false")
	}
	e.Emit("x")
	if want := []string{"A", "B"}; !reflect.DeepEqual(log, want) {
		t.Fatalf("C was removed, yet the emit ran %v, want %v (A was unregistered instead of C)", log, want)
	}
}

type c20Handler struct {
	name string
	log  *[]string
}

func (h *c20Handler) handle(...any) { *h.log = append(*h.log, h.name) }

// The same with method values of two receivers (obj.handle is the idiomatic
// listener): all method values of one method share the code pointer of the
// compiler's -fm wrapper.
func TestC20RemoveListenerMethodValues(t *testing.T) {
	e := NewEventEmitter()
	var log []string
	a, b := &c20Handler{"a", &log}, &c20Handler{"b", &log}
	ah, bh := Listener(a.handle), Listener(b.handle)
	e.On("x", ah)
	e.On("x", bh)

	if !e.RemoveListener("x", bh) {
		t.Fatal("RemoveListener(b.handle) = false")
	}
	e.Emit("x")
	if want := []string{"a"}; !reflect.DeepEqual(log, want) {
		t.Fatalf("b.handle was removed, yet the emit ran %v, want %v", log, want)
	}
}

// A listener that was never registered "removes" somebody else's registration
// and RemoveListener reports success. (A Once registration is hit the same way:
// its entry carries the code pointer of the wrapped function.)
func TestC20RemoveListenerNeverRegistered(t *testing.T) {
	e := NewEventEmitter()
	ran := 0
	var mine, foreign Listener
	for i := 0; i < 2; i++ {
		i := i
		l := Listener(func(...any) {
			if i == 0 {
				ran++
			}
		})
		if i == 0 {
			mine = l
		} else {
			foreign = l
		}
	}
	e.Once("x", mine)

	if e.RemoveListener("x", foreign) {
		t.Errorf("RemoveListener of a function that was never registered returned true")
	}
	if n := e.ListenerCount("x"); n != 1 {
		t.Errorf("ListenerCount = %d, want 1", n)
	}
	e.Emit("x")
	if ran != 1 {
		t.Fatalf("the registered Once listener ran %d times, want 1", ran)
	}
}
