package types

// Place in types/ and run
//   export GOFLAGS=-mod=mod GOPROXY=off; unset GOWORK
//   go test -vet=off -count=1 -run TestC20MapLenKeysValues ./types/
//
// FAILS on the unmodified tree (2 goroutines; fails within milliseconds).

import (
	"sync"
	"sync/atomic"
	"testing"
)

// One writer moves a token around 8 keys: it stores the next key BEFORE it
// deletes the current one, so at every instant the map holds 1 or 2 keys.
// A linearizable Len / Keys / Values can therefore only ever answer 1 or 2.
func TestC20MapLenKeysValues(t *testing.T) {
	var m Map[int, int]
	m.Store(0, 0)

	var stop atomic.Bool
	var wg sync.WaitGroup
	wg.Add(1)
	go func() {
		defer wg.Done()
		for !stop.Load() {
			for i := 0; i < 8; i++ {
				m.Store((i+1)%8, 1)
				m.Delete(i)
			}
		}
	}()

	var badLen, badKeys, badValues = -1, -1, -1
	for i := 0; i < 3000000 && (badLen < 0 || badKeys < 0 || badValues < 0); i++ {
		if n := m.Len(); n < 1 || n > 2 {
			badLen = n
		}
		if n := len(m.Keys()); n < 1 || n > 2 {
			badKeys = n
		}
		if n := len(m.Values()); n < 1 || n > 2 {
			badValues = n
		}
	}
	stop.Store(true)
	wg.Wait()

	if badLen >= 0 {
		t.Errorf("Len() = %d although the map holds 1 or 2 keys at every instant", badLen)
	}
	if badKeys >= 0 {
		t.Errorf("len(Keys()) = %d although the map holds 1 or 2 keys at every instant", badKeys)
	}
	if badValues >= 0 {
		t.Errorf("len(Values()) = %d although the map holds 1 or 2 keys at every instant", badValues)
	}
}
