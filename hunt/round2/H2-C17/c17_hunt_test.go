package engine

import (
	"io"
	"net/http"
	"net/http/httptest"
	"regexp"
	"strings"
	"sync/atomic"
	"testing"
	"time"

	"github.com/gorilla/websocket"
	"github.com/zishang520/engine.io/v2/config"
	"github.com/zishang520/engine.io/v2/types"
	"github.com/zishang520/engine.io/v2/utils"
)

func c17Server(t *testing.T, opts *config.ServerOptions, wrap func(http.Handler) http.Handler) (Server, *httptest.Server) {
	t.Helper()
	srv := NewServer(opts)
	var h http.Handler = srv
	if wrap != nil {
		h = wrap(srv)
	}
	ts := httptest.NewServer(h)
	t.Cleanup(func() {
		srv.Close()
		ts.CloseClientConnections()
		ts.Close()
	})
	return srv, ts
}

// H1: a session that starts directly on websocket: initial_headers / headers never
// fire and the configured cookie is never sent.
func TestC17_WebsocketHandshake_InitialHeadersAndCookie(t *testing.T) {
	opts := &config.ServerOptions{}
	opts.SetCookie(&http.Cookie{Name: "io"})
	srv, ts := c17Server(t, opts, nil)

	var initial, headers, connections atomic.Int32
	srv.On("initial_headers", func(args ...any) {
		initial.Add(1)
		args[0].(*utils.ParameterBag).Set("X-Initial", "1")
	})
	srv.On("headers", func(args ...any) {
		headers.Add(1)
		args[0].(*utils.ParameterBag).Set("X-Every", "1")
	})
	sid := make(chan string, 1)
	srv.On("connection", func(args ...any) {
		connections.Add(1)
		sid <- args[0].(Socket).Id()
	})

	url := "ws" + strings.TrimPrefix(ts.URL, "http") + "/engine.io/?EIO=4&transport=websocket"
	conn, resp, err := websocket.DefaultDialer.Dial(url, nil)
	if err != nil {
		t.Fatalf("dial: %v", err)
	}
	defer conn.Close()

	var id string
	select {
	case id = <-sid:
	case <-time.After(2 * time.Second):
		t.Fatal("no connection event")
	}
	// the open packet proves the session is established on that response
	_, msg, err := conn.ReadMessage()
	if err != nil || !strings.HasPrefix(string(msg), "0{") {
		t.Fatalf("open packet: %q %v", msg, err)
	}

	t.Logf("101 response headers: %v", resp.Header)
	t.Logf("sessions=%d initial_headers=%d headers=%d", connections.Load(), initial.Load(), headers.Load())

	if got := initial.Load(); got != 1 {
		t.Errorf("initial_headers fired %d times for the websocket session %s, want 1", got, id)
	}
	if got := headers.Load(); got != 1 {
		t.Errorf("headers fired %d times for the websocket handshake response, want 1", got)
	}
	if resp.Header.Get("X-Initial") != "1" {
		t.Errorf("header added by an initial_headers listener is not on the handshake response")
	}
	if c := resp.Header.Get("Set-Cookie"); !strings.HasPrefix(c, "io="+id) {
		t.Errorf("handshake response Set-Cookie = %q, want io=%s; ...", c, id)
	}
}

// control for H1: the same on polling works
func TestC17_PollingHandshake_Control(t *testing.T) {
	opts := &config.ServerOptions{}
	opts.SetCookie(&http.Cookie{Name: "io"})
	srv, ts := c17Server(t, opts, nil)
	var initial, headers atomic.Int32
	srv.On("initial_headers", func(args ...any) { initial.Add(1) })
	srv.On("headers", func(args ...any) { headers.Add(1) })
	resp, err := http.Get(ts.URL + "/engine.io/?EIO=4&transport=polling")
	if err != nil {
		t.Fatal(err)
	}
	b, _ := io.ReadAll(resp.Body)
	resp.Body.Close()
	t.Logf("%s %v", b, resp.Header)
	if initial.Load() != 1 || headers.Load() != 1 || !strings.HasPrefix(resp.Header.Get("Set-Cookie"), "io=") {
		t.Errorf("polling control failed: initial=%d headers=%d cookie=%q", initial.Load(), headers.Load(), resp.Header.Get("Set-Cookie"))
	}
	if !strings.Contains(resp.Header.Get("Set-Cookie"), "SameSite=Lax") {
		t.Errorf("H6: cookie without SameSite configured renders %q; the constructor means to default to SameSite=Lax", resp.Header.Get("Set-Cookie"))
	}
}

// H1b: the 101 response that upgrades an existing polling session: no headers event
func TestC17_UpgradeResponse_HeadersEvent(t *testing.T) {
	opts := &config.ServerOptions{}
	srv, ts := c17Server(t, opts, nil)
	var headers atomic.Int32
	srv.On("headers", func(args ...any) {
		headers.Add(1)
		args[0].(*utils.ParameterBag).Set("X-Every", "1")
	})
	resp, err := http.Get(ts.URL + "/engine.io/?EIO=4&transport=polling")
	if err != nil {
		t.Fatal(err)
	}
	b, _ := io.ReadAll(resp.Body)
	resp.Body.Close()
	s := string(b)
	i := strings.Index(s, `"sid":"`)
	sid := s[i+7:]
	sid = sid[:strings.Index(sid, `"`)]
	before := headers.Load()
	url := "ws" + strings.TrimPrefix(ts.URL, "http") + "/engine.io/?EIO=4&transport=websocket&sid=" + sid
	conn, wresp, err := websocket.DefaultDialer.Dial(url, nil)
	if err != nil {
		t.Fatalf("dial: %v", err)
	}
	defer conn.Close()
	time.Sleep(100 * time.Millisecond)
	if headers.Load() != before+1 || wresp.Header.Get("X-Every") != "1" {
		t.Errorf("headers event fired %d times for the upgrade response (X-Every=%q), want 1", headers.Load()-before, wresp.Header.Get("X-Every"))
	}
}

// H2: origin not allowed by a list / regexp / bool policy
func TestC17_Cors_DisallowedOrigin(t *testing.T) {
	for name, origin := range map[string]any{
		"list":   []any{"http://good.example"},
		"regexp": regexp.MustCompile(`^http://good\.example$`),
		"false":  false,
	} {
		t.Run(name, func(t *testing.T) {
			opts := &config.ServerOptions{}
			opts.SetCors(&types.Cors{Origin: origin, Credentials: true})
			_, ts := c17Server(t, opts, nil)
			req, _ := http.NewRequest("GET", ts.URL+"/engine.io/?EIO=4&transport=polling", nil)
			req.Header.Set("Origin", "http://evil.example")
			resp, err := http.DefaultClient.Do(req)
			if err != nil {
				t.Fatal(err)
			}
			io.Copy(io.Discard, resp.Body)
			resp.Body.Close()
			t.Logf("headers: %v", resp.Header)
			if v, ok := resp.Header["Access-Control-Allow-Origin"]; ok {
				t.Errorf("disallowed origin: Access-Control-Allow-Origin present with value %q, want the header absent", v)
			}
		})
	}
}

// H3: Vary set by an outer handler as several field lines
func TestC17_Cors_VaryMerge_MultiLine(t *testing.T) {
	opts := &config.ServerOptions{}
	opts.SetCors(&types.Cors{Origin: true})
	_, ts := c17Server(t, opts, func(next http.Handler) http.Handler {
		return http.HandlerFunc(func(w http.ResponseWriter, r *http.Request) {
			w.Header().Add("Vary", "Accept-Encoding")
			w.Header().Add("Vary", "Cookie")
			next.ServeHTTP(w, r)
		})
	})
	req, _ := http.NewRequest("GET", ts.URL+"/engine.io/?EIO=4&transport=polling", nil)
	req.Header.Set("Origin", "http://a.example")
	resp, err := http.DefaultClient.Do(req)
	if err != nil {
		t.Fatal(err)
	}
	io.Copy(io.Discard, resp.Body)
	resp.Body.Close()
	vary := strings.Join(resp.Header.Values("Vary"), ", ")
	t.Logf("Vary: %q", resp.Header.Values("Vary"))
	for _, want := range []string{"Accept-Encoding", "Cookie", "Origin"} {
		if !strings.Contains(vary, want) {
			t.Errorf("Vary %q lost %q", vary, want)
		}
	}
}

// H3b: without CORS at all: multi-line header of the outer handler
func TestC17_NoCors_MultiValueHeaderPreserved(t *testing.T) {
	opts := &config.ServerOptions{}
	_, ts := c17Server(t, opts, func(next http.Handler) http.Handler {
		return http.HandlerFunc(func(w http.ResponseWriter, r *http.Request) {
			w.Header().Add("Vary", "Accept-Encoding")
			w.Header().Add("Vary", "Cookie")
			http.SetCookie(w, &http.Cookie{Name: "a", Value: "1"})
			http.SetCookie(w, &http.Cookie{Name: "b", Value: "2"})
			next.ServeHTTP(w, r)
		})
	})
	resp, err := http.Get(ts.URL + "/engine.io/?EIO=4&transport=polling")
	if err != nil {
		t.Fatal(err)
	}
	io.Copy(io.Discard, resp.Body)
	resp.Body.Close()
	t.Logf("Vary: %q Set-Cookie: %q", resp.Header.Values("Vary"), resp.Header.Values("Set-Cookie"))
	if len(resp.Header.Values("Vary")) != 2 || len(resp.Header.Values("Set-Cookie")) != 2 {
		t.Errorf("multi-valued headers truncated: Vary=%q Set-Cookie=%q", resp.Header.Values("Vary"), resp.Header.Values("Set-Cookie"))
	}
}

// H4: an initial_headers listener adds a second cookie next to the session cookie
func TestC17_InitialHeaders_AddSecondCookie(t *testing.T) {
	opts := &config.ServerOptions{}
	opts.SetCookie(&http.Cookie{Name: "io"})
	srv, ts := c17Server(t, opts, nil)
	srv.On("initial_headers", func(args ...any) {
		args[0].(*utils.ParameterBag).Add("Set-Cookie", "uid=1234; SameSite=Strict")
	})
	resp, err := http.Get(ts.URL + "/engine.io/?EIO=4&transport=polling")
	if err != nil {
		t.Fatal(err)
	}
	io.Copy(io.Discard, resp.Body)
	resp.Body.Close()
	t.Logf("Set-Cookie: %q", resp.Header.Values("Set-Cookie"))
	if len(resp.Header.Values("Set-Cookie")) != 2 {
		t.Errorf("Set-Cookie = %q, want the session cookie and uid", resp.Header.Values("Set-Cookie"))
	}
}

// H7: preflight
func TestC17_Preflight(t *testing.T) {
	opts := &config.ServerOptions{}
	opts.SetCors(&types.Cors{Origin: []any{"http://good.example"}, Credentials: true, OptionsSuccessStatus: 200, Methods: []string{"GET", "POST"}})
	srv, ts := c17Server(t, opts, nil)
	req, _ := http.NewRequest("OPTIONS", ts.URL+"/engine.io/?EIO=4&transport=polling", nil)
	req.Header.Set("Origin", "http://good.example")
	req.Header.Set("Access-Control-Request-Method", "POST")
	req.Header.Set("Access-Control-Request-Headers", "x-foo, content-type")
	resp, err := http.DefaultClient.Do(req)
	if err != nil {
		t.Fatal(err)
	}
	io.Copy(io.Discard, resp.Body)
	resp.Body.Close()
	t.Logf("%d %v", resp.StatusCode, resp.Header)
	if resp.StatusCode != 200 || srv.ClientsCount() != 0 {
		t.Errorf("status %d clients %d", resp.StatusCode, srv.ClientsCount())
	}
	if resp.Header.Get("Access-Control-Allow-Headers") != "x-foo, content-type" {
		t.Errorf("ACAH %q", resp.Header.Get("Access-Control-Allow-Headers"))
	}
	vary := strings.Join(resp.Header.Values("Vary"), ", ")
	if !strings.Contains(vary, "Origin") || !strings.Contains(vary, "Access-Control-Request-Headers") {
		t.Errorf("Vary %q", vary)
	}
}

// H10: error responses of a session (413 here) carry no headers event
func TestC17_ErrorResponse_HeadersEvent(t *testing.T) {
	opts := &config.ServerOptions{}
	opts.SetMaxHttpBufferSize(10)
	srv, ts := c17Server(t, opts, nil)
	var headers atomic.Int32
	srv.On("headers", func(args ...any) { headers.Add(1) })
	resp, err := http.Get(ts.URL + "/engine.io/?EIO=4&transport=polling")
	if err != nil {
		t.Fatal(err)
	}
	b, _ := io.ReadAll(resp.Body)
	resp.Body.Close()
	s := string(b)
	i := strings.Index(s, `"sid":"`)
	sid := s[i+7:]
	sid = sid[:strings.Index(sid, `"`)]
	before := headers.Load()
	resp, err = http.Post(ts.URL+"/engine.io/?EIO=4&transport=polling&sid="+sid, "text/plain", strings.NewReader("4aaaaaaaaaaaaaaaaaaaaaaaaaaaaaaaaaaaaa"))
	if err != nil {
		t.Fatal(err)
	}
	resp.Body.Close()
	t.Logf("status %d headers events %d", resp.StatusCode, headers.Load()-before)
	if headers.Load() != before+1 {
		t.Errorf("headers event fired %d times for the %d response", headers.Load()-before, resp.StatusCode)
	}
}
