package engine

import (
	"io"
	"net/http"
	"testing"

	"github.com/zishang520/engine.io/v2/config"
)

// NOTE: on the unmodified tree this test does not merely fail: the panic happens in
// the library's own send goroutine (go p.send), so it kills the whole test process.
// Run it on its own:  go test -vet=off -count=1 -run TestC17_NilHeaderValue ./engine/
// (needs c17_hunt_test.go next to it for the c17Server helper)

// H5: a nil header value on the ResponseWriter (documented way to suppress Date)
func TestC17_NilHeaderValue(t *testing.T) {
	opts := &config.ServerOptions{}
	_, ts := c17Server(t, opts, func(next http.Handler) http.Handler {
		return http.HandlerFunc(func(w http.ResponseWriter, r *http.Request) {
			w.Header()["Date"] = nil
			next.ServeHTTP(w, r)
		})
	})
	resp, err := http.Get(ts.URL + "/engine.io/?EIO=4&transport=polling")
	if err != nil {
		t.Fatalf("request failed: %v", err)
	}
	io.Copy(io.Discard, resp.Body)
	resp.Body.Close()
	if resp.StatusCode != 200 {
		t.Errorf("status %d", resp.StatusCode)
	}
}

