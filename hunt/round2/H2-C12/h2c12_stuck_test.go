package engine

import (
	"strings"
	"testing"
	"time"

	"github.com/zishang520/engine.io/v2/config"
)

// Needs sleep.diff (one time.Sleep in socket.Close between the Len() test and
// s.Once("drain", ...)): the other half of the same unserialised
// Close-versus-flush window. Without the sleep the window is a few
// instructions wide.
//
// Close(false) sees the buffered packet and decides to wait for "drain"; the
// client's poll flushes the buffer and emits "drain" before the listener is
// registered. Nothing emits "drain" again: the session stays "closing", the
// transport is never closed, later polls hang, and the session ends with
// "ping timeout" (pingInterval+pingTimeout later; 45 s with the defaults)
// instead of "forced close".
func TestH2C12_CloseMissesDrain_StuckUntilPingTimeout(t *testing.T) {
	e := h2c12NewEnv(t)
	// short heartbeat so that the test ends quickly
	e.srv.Opts().(*config.ServerOptions).SetPingInterval(1500 * time.Millisecond)
	e.srv.Opts().(*config.ServerOptions).SetPingTimeout(1000 * time.Millisecond)

	sid, sock := e.open(t)
	reason := make(chan string, 1)
	start := time.Now()
	sock.On("close", func(a ...any) { reason <- a[0].(string) })

	sock.Send(strings.NewReader("hello"), nil, nil) // buffered, no poll pending
	closeReturned := make(chan struct{})
	go func() { sock.Close(false); close(closeReturned) }()
	time.Sleep(50 * time.Millisecond) // Close is now between Len() and Once()

	_, body := e.get(t, "&sid="+sid)
	t.Logf("poll 1: %q", body)
	<-closeReturned

	got := make(chan string, 1)
	go func() { _, b := e.get(t, "&sid="+sid); got <- b }()
	select {
	case b := <-got:
		t.Logf("poll 2: %q", b)
	case <-time.After(700 * time.Millisecond):
		t.Logf("poll 2 still pending after 700ms; session %s, transport %s", sock.ReadyState(), sock.Transport().ReadyState())
	}
	select {
	case r := <-reason:
		t.Logf("closed with %q after %v", r, time.Since(start).Round(10*time.Millisecond))
		if r != "forced close" {
			t.Fatalf("graceful close ended with %q, want \"forced close\"", r)
		}
	case <-time.After(6 * time.Second):
		t.Fatalf("session never closed (state %s)", sock.ReadyState())
	}
}
