package engine

import (
	"math/rand"
	"runtime"
	"strings"
	"testing"
	"time"
)

// Unmodified library, no listener, no sleep anywhere: the client's poll and
// the application's Close(false) arrive together on a session that holds one
// buffered packet. Every iteration must end with the client having received
// "4hello" and then the close packet, and with reason "forced close".
//
// Outcomes counted:
//
//	lost  - the poll was answered with the close packet alone, "4hello" was dropped
//	stuck - "4hello" was delivered, but the session stays "closing": the drain
//	        listener of Close was registered after flush had emitted "drain";
//	        the transport is never closed, the next poll hangs (until the
//	        heartbeat gives up, 45 s with the default options)
func TestH2C12_Stress_CloseVsPoll(t *testing.T) {
	e := h2c12NewEnv(t)
	lost, stuck, ok := 0, 0, 0
	const N = 1000
	for i := 0; i < N; i++ {
		sid, sock := e.open(t)
		reason := make(chan string, 1)
		sock.On("close", func(a ...any) { reason <- a[0].(string) })
		sock.Send(strings.NewReader("hello"), nil, nil) // buffered: no poll pending

		poll := make(chan string, 1)
		go func() {
			_, b := e.get(t, "&sid="+sid)
			poll <- b
		}()
		// wait (spinning) until the poll has reached the transport
		tr := sock.Transport()
		wb := sock.(*socket).writeBuffer
		for dl := time.Now().Add(time.Second); !tr.Writable() && wb.Len() > 0 && time.Now().Before(dl); {
		}
		for k := rand.Intn(40); k > 0; k-- {
			runtime.Gosched()
		}
		sock.Close(false)

		var got []string
		select {
		case b := <-poll:
			got = append(got, b)
		case <-time.After(1 * time.Second):
			got = append(got, "<poll hangs>")
		}
		all := strings.Join(got, "|")
		if !strings.Contains(all, "1") && !strings.Contains(all, "hangs") {
			// the close packet did not travel with the data: it is due on the next poll
			p2 := make(chan string, 1)
			go func() { _, b := e.get(t, "&sid="+sid); p2 <- b }()
			select {
			case b := <-p2:
				got = append(got, b)
			case <-time.After(time.Second):
				if stuck < 3 {
					t.Logf("iteration %d: second poll hangs: session %s, transport %s writable=%v, drain listeners on socket: %d, buffer %d",
						i, sock.ReadyState(), sock.Transport().ReadyState(), sock.Transport().Writable(), sock.ListenerCount("drain"), wb.Len())
				}
				got = append(got, "<second poll hangs>")
			}
			all = strings.Join(got, "|")
		}
		select {
		case rs := <-reason:
			if strings.Contains(all, "4hello") && rs == "forced close" {
				ok++
			} else {
				lost++
				if lost <= 3 {
					t.Logf("iteration %d: LOST: reason %q, client saw %q", i, rs, got)
				}
			}
		case <-time.After(500 * time.Millisecond):
			stuck++
			if stuck <= 3 {
				t.Logf("iteration %d: STUCK in %q, client saw %q", i, sock.ReadyState(), got)
			}
			sock.Close(true)
		}
	}
	t.Logf("N=%d ok=%d lost=%d stuck=%d", N, ok, lost, stuck)
	if lost+stuck > 0 {
		t.Fail()
	}
}
