package engine

import (
	"testing"
	"time"
)

// Server.Close() after a graceful Close(false) whose close packet is still
// waiting for the client's next poll (polling transport in state "closing").
//
// Expected (C12): Server.Close closes every session (one close event each) and
// leaves the client table empty.
// Observed: Close(true) is a no-op for that session (transport.Close returns at
// once because the transport is already "closing"); the session stays in
// state "closing", registered, with no close event, until the 30 s close
// timeout of the polling transport fires.
func TestH2C12_ServerClose_SkipsSessionWithPendingOrderlyClose(t *testing.T) {
	e := h2c12NewEnv(t)
	_, a := e.open(t) // will be closed gracefully first
	_, b := e.open(t) // control: plain open session

	closes := make(chan string, 4)
	a.On("close", func(r ...any) { closes <- "a:" + r[0].(string) })
	b.On("close", func(r ...any) { closes <- "b:" + r[0].(string) })

	// graceful close, buffer empty, no poll pending: the close packet is kept
	// for the next poll (polling.DoClose, third branch)
	a.Close(false)
	if a.ReadyState() != "closing" || a.Transport().ReadyState() != "closing" {
		t.Fatalf("precondition: session %s / transport %s", a.ReadyState(), a.Transport().ReadyState())
	}

	e.srv.Close()

	deadline := time.After(3 * time.Second)
	seen := map[string]bool{}
loop:
	for len(seen) < 2 {
		select {
		case c := <-closes:
			seen[c] = true
		case <-deadline:
			break loop
		}
	}
	t.Logf("close events within 3s of Server.Close: %v", seen)
	t.Logf("after Server.Close: clients=%d clientsCount=%d, a=%s (transport %s, discarded %v), b=%s",
		e.srv.Clients().Len(), e.srv.ClientsCount(), a.ReadyState(), a.Transport().ReadyState(), a.Transport().Discarded(), b.ReadyState())
	if e.srv.Clients().Len() != 0 || a.ReadyState() != "closed" {
		t.Fatalf("Server.Close left a session behind: table holds %d, session a is %q", e.srv.Clients().Len(), a.ReadyState())
	}
}
