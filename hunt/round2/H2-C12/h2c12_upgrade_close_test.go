package engine

import (
	"strings"
	"testing"
	"time"

	ws "github.com/gorilla/websocket"
)

// Both tests need a temporary sleep in engine/socket.go (MaybeUpgrade, branch
// "got upgrade packet"); each names its patch. On the unmodified tree they
// pass because the window is microseconds wide - the stress test
// TestH2C12_Stress_CloseRacingUpgradePacket hits both outcomes without any
// patch.

func h2c12Upgrade(t *testing.T, e *h2c12Env, sid string, sock Socket) *ws.Conn {
	t.Helper()
	u := "ws" + strings.TrimPrefix(e.ts.URL, "http") + "/engine.io/?EIO=4&transport=websocket&sid=" + sid
	c, _, err := ws.DefaultDialer.Dial(u, nil)
	if err != nil {
		t.Fatal(err)
	}
	time.Sleep(100 * time.Millisecond) // (keeps clear of the known C08 probe loss)
	c.WriteMessage(ws.TextMessage, []byte("2probe"))
	c.SetReadDeadline(time.Now().Add(3 * time.Second))
	if _, m, err := c.ReadMessage(); err != nil || string(m) != "3probe" {
		t.Fatalf("probe answer %q %v", m, err)
	}
	return c
}

// patch: sleep-upgrade-survive.diff (sleep between clearTransport and
// setTransport).
//
// Server.Close() while the upgrade packet is being processed: Close(true)
// addresses the old polling transport, which the upgrade has already closed
// (without the socket's listeners); transport.Close(fn) returns at once, fn is
// never called. The session stays "open" on the new transport, registered,
// after Server.Close has returned.
func TestH2C12_ServerCloseRacingUpgradePacket_SessionSurvives(t *testing.T) {
	e := h2c12NewEnv(t)
	sid, sock := e.open(t)
	reason := make(chan string, 1)
	sock.On("close", func(a ...any) { reason <- a[0].(string) })
	c := h2c12Upgrade(t, e, sid, sock)
	defer c.Close()

	c.WriteMessage(ws.TextMessage, []byte("5"))
	time.Sleep(100 * time.Millisecond) // the upgrade is inside its branch
	e.srv.Close()
	t.Logf("Server.Close returned; session %s", sock.ReadyState())

	select {
	case r := <-reason:
		t.Logf("session closed: %s", r)
	case <-time.After(3 * time.Second):
		// prove that the session is fully alive: it still delivers messages
		sock.Send(strings.NewReader("still here"), nil, nil)
		c.SetReadDeadline(time.Now().Add(2 * time.Second))
		_, m, err := c.ReadMessage()
		t.Fatalf("3s after Server.Close the session is %q on %s, table holds %d; it still serves the client: %q %v",
			sock.ReadyState(), sock.Transport().Name(), e.srv.Clients().Len(), m, err)
	}
}

// patch: sleep-upgrade-leak.diff (sleep after cleanup()).
//
// The close runs completely while the upgrade branch is between its
// ReadyState test and the transport switch; cleanup() has already removed the
// candidate's "socket closed" listener, so nothing closes the candidate: the
// session is closed and unregistered, its new WebSocket connection stays open
// (no heartbeat, no close) until the client gives up.
func TestH2C12_ServerCloseRacingUpgradePacket_ConnectionLeft(t *testing.T) {
	e := h2c12NewEnv(t)
	sid, sock := e.open(t)
	reason := make(chan string, 1)
	sock.On("close", func(a ...any) { reason <- a[0].(string) })
	c := h2c12Upgrade(t, e, sid, sock)
	defer c.Close()

	c.WriteMessage(ws.TextMessage, []byte("5"))
	time.Sleep(100 * time.Millisecond) // the upgrade is inside its branch
	e.srv.Close()
	select {
	case r := <-reason:
		t.Logf("session closed: %s; table holds %d", r, e.srv.Clients().Len())
	case <-time.After(2 * time.Second):
		t.Skip("session not closed: this is the other outcome (SessionSurvives)")
	}
	c.SetReadDeadline(time.Now().Add(4 * time.Second))
	for {
		_, m, err := c.ReadMessage()
		if err != nil {
			t.Logf("client ws read: %v", err)
			if strings.Contains(err.Error(), "timeout") {
				t.Fatalf("the connection of a closed session is still open 4s after Server.Close (transport %s / %s)", sock.Transport().Name(), sock.Transport().ReadyState())
			}
			return
		}
		t.Logf("client ws got %q", m)
	}
}
