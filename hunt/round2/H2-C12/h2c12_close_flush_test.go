package engine

// Demonstration for property C12 (orderly close: buffered data first).
//
// Place this file in engine/ and run
//
//	export GOFLAGS=-mod=mod GOPROXY=off; unset GOWORK
//	go test -vet=off -count=1 -run 'TestH2C12' -v ./engine/
//
// No library source is modified. The only "delay" is inside an application
// listener of the public "flush" event (any listener that logs, counts or
// copies the batch takes time there).

import (
	"io"
	"net/http"
	"net/http/httptest"
	"regexp"
	"strings"
	"sync"
	"testing"
	"time"

	ws "github.com/gorilla/websocket"
	"github.com/zishang520/engine.io/v2/config"
	"github.com/zishang520/engine.io/v2/types"
)

var h2c12SidRe = regexp.MustCompile(`"sid":"([^"]+)"`)

type h2c12Env struct {
	srv  Server
	ts   *httptest.Server
	conn chan Socket
}

func h2c12NewEnv(t *testing.T) *h2c12Env {
	t.Helper()
	opts := config.DefaultServerOptions()
	opts.SetPingInterval(25 * time.Second)
	opts.SetPingTimeout(20 * time.Second)
	e := &h2c12Env{srv: NewServer(opts), conn: make(chan Socket, 16)}
	e.srv.On("connection", func(args ...any) { e.conn <- args[0].(Socket) })
	e.ts = httptest.NewServer(http.HandlerFunc(e.srv.ServeHTTP))
	t.Cleanup(func() {
		e.srv.Close()
		e.ts.CloseClientConnections()
		e.ts.Close()
	})
	return e
}

func (e *h2c12Env) get(t *testing.T, query string) (int, string) {
	t.Helper()
	c := &http.Client{Timeout: 8 * time.Second}
	resp, err := c.Get(e.ts.URL + "/engine.io/?EIO=4&transport=polling" + query)
	if err != nil {
		return -1, err.Error()
	}
	defer resp.Body.Close()
	b, _ := io.ReadAll(resp.Body)
	return resp.StatusCode, string(b)
}

// handshake over polling; returns the sid and the server side socket
func (e *h2c12Env) open(t *testing.T) (string, Socket) {
	t.Helper()
	code, body := e.get(t, "")
	if code != 200 {
		t.Fatalf("handshake: %d %q", code, body)
	}
	m := h2c12SidRe.FindStringSubmatch(body)
	if m == nil {
		t.Fatalf("no sid in %q", body)
	}
	select {
	case s := <-e.conn:
		return m[1], s
	case <-time.After(2 * time.Second):
		t.Fatal("no connection event")
	}
	return "", nil
}

// Polling. A packet is buffered (no poll pending). The client's next poll
// starts the flush; while the flush is between "took the buffer" and
// "handed it to the transport" (that is where the flush events are emitted),
// the application calls Close(false).
//
// Expected: the poll (or the polls that follow) carry "4hello" and then the
// close packet "1"; close reason "forced close".
// Observed: the poll is answered with the close packet alone, "4hello" is
// never delivered (its send finds no request: "polling write error").
func TestH2C12_CloseDuringFlush_Polling_LosesBufferedPacket(t *testing.T) {
	e := h2c12NewEnv(t)
	sid, sock := e.open(t)

	reason := make(chan string, 1)
	sock.On("close", func(a ...any) { reason <- a[0].(string) })

	inFlush := make(chan struct{})
	var once sync.Once
	sock.On("flush", func(...any) {
		// an application listener that takes a little time
		once.Do(func() { close(inFlush) })
		time.Sleep(300 * time.Millisecond)
	})

	// buffered: there is no poll pending
	sock.Send(strings.NewReader("hello"), nil, nil)
	if n := sock.(*socket).writeBuffer.Len(); n != 1 {
		t.Fatalf("precondition: want 1 buffered packet, have %d", n)
	}

	type res struct {
		code int
		body string
	}
	poll := make(chan res, 1)
	go func() {
		c, b := e.get(t, "&sid="+sid)
		poll <- res{c, b}
	}()

	select {
	case <-inFlush:
	case <-time.After(3 * time.Second):
		t.Fatal("flush did not start")
	}
	// graceful close while the flush of the buffered packet is under way
	sock.Close(false)

	var got []string
	r := <-poll
	got = append(got, r.body)
	// give the client two more polls to collect whatever is still to come
	for i := 0; i < 2 && !strings.Contains(strings.Join(got, "\x1e"), "1"); i++ {
		c, b := e.get(t, "&sid="+sid)
		if c != 200 {
			break
		}
		got = append(got, b)
	}
	all := strings.Join(got, "\x1e")
	t.Logf("client received over its polls: %q", got)

	select {
	case rs := <-reason:
		t.Logf("close reason: %q", rs)
	case <-time.After(2 * time.Second):
		t.Logf("session not closed after 2s (state %s)", sock.ReadyState())
	}

	if !strings.Contains(all, "4hello") {
		t.Fatalf("the packet buffered before Close(false) was never delivered; client saw %q", got)
	}
	if strings.Index(all, "4hello") > strings.LastIndex(all, "1") {
		t.Fatalf("close packet before the buffered data: %q", got)
	}
}

// The same on a WebSocket session, with strictly sequential application calls
// Send(A); Send(B); Close(false). B is buffered because A is still being
// written; when A is done the transport's "ready" starts the flush of B on the
// send goroutine; Close(false) arrives while that flush is between "took the
// buffer" and "handed it to the transport", sees an empty buffer and tears the
// connection down. B is never written.
func TestH2C12_CloseDuringFlush_WebSocket_LosesBufferedPacket(t *testing.T) {
	e := h2c12NewEnv(t)

	u := "ws" + strings.TrimPrefix(e.ts.URL, "http") + "/engine.io/?EIO=4&transport=websocket"
	c, _, err := ws.DefaultDialer.Dial(u, nil)
	if err != nil {
		t.Fatal(err)
	}
	defer c.Close()
	var sock Socket
	select {
	case sock = <-e.conn:
	case <-time.After(2 * time.Second):
		t.Fatal("no connection")
	}
	c.SetReadDeadline(time.Now().Add(10 * time.Second))
	if _, m, err := c.ReadMessage(); err != nil || !strings.HasPrefix(string(m), "0") {
		t.Fatalf("open: %q %v", m, err)
	}

	reason := make(chan string, 1)
	sock.On("close", func(a ...any) { reason <- a[0].(string) })

	inSecondFlush := make(chan struct{})
	var mu sync.Mutex
	flushes := 0
	sock.On("flush", func(a ...any) {
		mu.Lock()
		flushes++
		n := flushes
		mu.Unlock()
		if n == 2 {
			close(inSecondFlush)
			time.Sleep(300 * time.Millisecond)
		}
	})

	// A is large and the client is not reading yet: its write blocks, the
	// transport stays non-writable, B is buffered
	big := strings.Repeat("a", 8<<20)
	sock.Send(types.NewStringBufferString(big), nil, nil)
	sock.Send(types.NewStringBufferString("B-last-words"), nil, nil)
	if n := sock.(*socket).writeBuffer.Len(); n != 1 {
		t.Fatalf("precondition: want B buffered, buffer holds %d", n)
	}

	var got []string
	done := make(chan struct{})
	go func() {
		defer close(done)
		for {
			_, m, err := c.ReadMessage()
			if err != nil {
				t.Logf("client read ends with: %v", err)
				return
			}
			if len(m) > 40 {
				m = append(m[:20:20], []byte("...("+strings.Repeat("", 0)+"large)")...)
			}
			got = append(got, string(m))
		}
	}()

	select {
	case <-inSecondFlush:
	case <-time.After(8 * time.Second):
		t.Fatal("second flush did not start")
	}
	sock.Close(false)
	<-done

	t.Logf("client received: %q", got)
	select {
	case rs := <-reason:
		t.Logf("close reason: %q", rs)
	case <-time.After(2 * time.Second):
	}
	if len(got) < 2 || got[1] != "4B-last-words" {
		t.Fatalf("B, buffered before Close(false), was never delivered; client saw %q", got)
	}
}
