package engine

import (
	"strings"
	"testing"
	"time"

	ws "github.com/gorilla/websocket"
)

// Unmodified library, no sleep: Close(true) (what Server.Close does for every
// session) issued at the moment the upgrade packet is being processed.
func TestH2C12_Stress_CloseRacingUpgradePacket(t *testing.T) {
	e := h2c12NewEnv(t)
	leaked, survived, skipped := 0, 0, 0
	const N = 400
	for i := 0; i < N; i++ {
		sid, sock := e.open(t)
		reason := make(chan string, 1)
		sock.On("close", func(a ...any) { reason <- a[0].(string) })

		u := "ws" + strings.TrimPrefix(e.ts.URL, "http") + "/engine.io/?EIO=4&transport=websocket&sid=" + sid
		c, _, err := ws.DefaultDialer.Dial(u, nil)
		if err != nil {
			t.Fatal(err)
		}
		for dl := time.Now().Add(time.Second); !sock.Upgrading() && time.Now().Before(dl); {
			time.Sleep(time.Millisecond)
		}
		time.Sleep(5 * time.Millisecond) // keeps clear of the known C08 probe loss
		c.WriteMessage(ws.TextMessage, []byte("2probe"))
		c.SetReadDeadline(time.Now().Add(1 * time.Second))
		if _, m, err := c.ReadMessage(); err != nil || string(m) != "3probe" {
			// the known C08 defect (probe emitted before the listener is attached): not counted
			skipped++
			sock.Close(true)
			c.Close()
			continue
		}
		closed := make(chan struct{})
		go func() {
			for dl := time.Now().Add(time.Second); !sock.Upgraded() && time.Now().Before(dl); {
			}
			sock.Close(true)
			close(closed)
		}()
		c.WriteMessage(ws.TextMessage, []byte("5"))
		<-closed
		select {
		case <-reason:
		case <-time.After(1 * time.Second):
			survived++
			if survived <= 3 {
				t.Logf("iteration %d: Close(true) returned %v ago, session is %q on transport %s/%s, registered: %v", i, time.Second, sock.ReadyState(), sock.Transport().Name(), sock.Transport().ReadyState(), func() bool { _, ok := e.srv.Clients().Load(sid); return ok }())
			}
			sock.Close(true)
			c.Close()
			continue
		}
		c.SetReadDeadline(time.Now().Add(1 * time.Second))
		for {
			_, _, err := c.ReadMessage()
			if err != nil {
				if strings.Contains(err.Error(), "timeout") {
					leaked++
					if leaked <= 3 {
						t.Logf("iteration %d: session %s, but its websocket connection is still open 1s later (transport %s/%s)", i, sock.ReadyState(), sock.Transport().Name(), sock.Transport().ReadyState())
					}
				}
				break
			}
		}
		c.Close()
	}
	t.Logf("N=%d: sessions that survived Close(true)=%d, connections left open on a closed session=%d (iterations skipped: %d)", N, survived, leaked, skipped)
	if leaked+survived > 0 {
		t.Fail()
	}
}
