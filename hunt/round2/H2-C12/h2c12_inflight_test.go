package engine

import (
	"errors"
	"fmt"
	"io"
	"net"
	"net/http"
	"testing"
	"time"

	"github.com/zishang520/engine.io/v2/config"
	"github.com/zishang520/engine.io/v2/types"
)

// A handshake that is still being verified (AllowRequest consulting a slow
// back end) when the HTTP server is closed.
//
// Expected (C12): closing the HTTP server closes every session and leaves the
// client table empty; HttpServer.Close returns.
// Observed: the engine's Close ranges over the table once; the handshake
// completes afterwards, its session is registered and opened on the closed
// server, nothing ever closes it, and (with the client polling on its
// keep-alive connection) http.Server.Shutdown - HttpServer.Close - does not
// return.
func TestH2C12_HttpServerClose_HandshakeInFlightSurvives(t *testing.T) {
	l, err := net.Listen("tcp", "127.0.0.1:0")
	if err != nil {
		t.Fatal(err)
	}
	addr := l.Addr().String()
	l.Close()

	inAllow := make(chan struct{})
	release := make(chan struct{})
	first := true

	opts := config.DefaultServerOptions()
	opts.SetAllowRequest(func(*types.HttpContext) error {
		if first { // only the test goroutine's first handshake passes here first
			first = false
			return nil
		}
		close(inAllow)
		<-release
		return nil
	})
	srv := NewServer(opts)
	conn := make(chan Socket, 4)
	srv.On("connection", func(a ...any) { conn <- a[0].(Socket) })

	hs := types.NewWebServer(http.NotFoundHandler())
	srv.Attach(hs, nil)
	hs.Listen(addr, nil)
	time.Sleep(200 * time.Millisecond)

	base := "http://" + addr + "/engine.io/?EIO=4&transport=polling"
	client := &http.Client{Timeout: 60 * time.Second}
	get := func(u string) (int, string, error) {
		resp, err := client.Get(u)
		if err != nil {
			return 0, "", err
		}
		defer resp.Body.Close()
		b, _ := io.ReadAll(resp.Body)
		return resp.StatusCode, string(b), nil
	}

	// session X: established before the close
	if c, b, err := get(base); err != nil || c != 200 {
		t.Fatalf("handshake X: %d %q %v", c, b, err)
	}
	x := <-conn
	xClosed := make(chan struct{})
	x.On("close", func(...any) { close(xClosed) })

	// session Y: its handshake is inside AllowRequest when the server closes
	type hsr struct {
		code int
		body string
		err  error
	}
	yDone := make(chan hsr, 1)
	go func() {
		c, b, err := get(base)
		yDone <- hsr{c, b, err}
	}()
	<-inAllow

	closeDone := make(chan error, 1)
	go func() { closeDone <- hs.Close(nil) }()

	<-xClosed // the engine has closed the sessions it knew
	time.Sleep(50 * time.Millisecond)
	close(release) // the back end answers: the handshake goes on

	r := <-yDone
	t.Logf("handshake Y answered: %d %q %v", r.code, r.body, r.err)
	var y Socket
	select {
	case y = <-conn:
	case <-time.After(time.Second):
	}
	if y == nil {
		t.Log("no session Y was created")
		return
	}
	yClosed := make(chan string, 1)
	y.On("close", func(a ...any) { yClosed <- fmt.Sprint(a[0]) })

	// the client of Y goes on polling
	m := h2c12SidRe.FindStringSubmatch(r.body)
	pollDone := make(chan hsr, 1)
	if m != nil {
		go func() {
			c, b, err := get(base + "&sid=" + m[1])
			pollDone <- hsr{c, b, err}
		}()
	}

	var closeErr error = errors.New("HttpServer.Close still blocked")
	select {
	case closeErr = <-closeDone:
	case <-time.After(4 * time.Second):
	}
	t.Logf("4s after HttpServer.Close was called: Close returned: %v; clients=%d; Y=%s", closeErr, srv.Clients().Len(), y.ReadyState())
	select {
	case p := <-pollDone:
		t.Logf("Y's poll: %d %q %v", p.code, p.body, p.err)
	default:
		t.Log("Y's poll is still pending")
	}
	failed := false
	select {
	case rs := <-yClosed:
		t.Logf("Y closed: %s", rs)
	default:
		failed = true
	}
	if failed || srv.Clients().Len() != 0 {
		t.Errorf("session Y survived the close of its server: state %q, table holds %d", y.ReadyState(), srv.Clients().Len())
	}
	y.Close(true)
}
