// SECONDARY observations (minor; see finding.md, section "Also observed").
// Place in  webtransport/secondary_observations_test.go  and run
//
//	export GOFLAGS=-mod=mod GOPROXY=off; unset GOWORK
//	go test -vet=off -count=1 -run 'TestSecondary' -v ./webtransport/
//
// Both tests FAIL on the unmodified tree.
package webtransport

import (
	"context"
	"crypto/ecdsa"
	"crypto/elliptic"
	"crypto/rand"
	"crypto/tls"
	"crypto/x509"
	"crypto/x509/pkix"
	"fmt"
	"io"
	"math/big"
	"net"
	"net/http"
	"testing"
	"time"

	"github.com/quic-go/quic-go"
	"github.com/quic-go/quic-go/http3"
	wt "github.com/zishang520/webtransport-go"
)

type secStream struct{ data []byte }

func (s *secStream) Read(p []byte) (int, error) {
	if len(s.data) == 0 {
		return 0, io.EOF
	}
	n := copy(p, s.data)
	s.data = s.data[n:]
	return n, nil
}
func (s *secStream) Write(p []byte) (int, error)      { return len(p), nil }
func (s *secStream) Close() error                     { return nil }
func (s *secStream) StreamID() quic.StreamID          { return 0 }
func (s *secStream) CancelWrite(wt.StreamErrorCode)   {}
func (s *secStream) CancelRead(wt.StreamErrorCode)    {}
func (s *secStream) SetReadDeadline(time.Time) error  { return nil }
func (s *secStream) SetWriteDeadline(time.Time) error { return nil }
func (s *secStream) SetDeadline(time.Time) error      { return nil }

// A Conn built without a session (NewConn accepts nil, prepared.go builds such
// Conns itself) panics in the reader when a frame exceeds the read limit.
func TestSecondaryNilSessionOverLimitPanics(t *testing.T) {
	defer func() {
		if x := recover(); x != nil {
			t.Errorf("NextReader panicked on an over-limit frame: %v", x)
		}
	}()
	c := NewConn(nil, &secStream{data: []byte{126, 4, 0, 'x'}}, true, 0, 0, nil, nil, nil)
	c.SetReadLimit(1000)
	if _, _, err := c.NextReader(); err != ErrReadLimit {
		t.Errorf("err = %v", err)
	}
}

// A declared length >= 2^63 is answered with ErrReadLimit but, unlike every
// other over-limit length (2^63-1 included), the session is NOT closed by the
// reader (setReadRemaining returns before advanceFrame's CloseWithError).
func TestSecondaryLength2p63SessionLeftOpen(t *testing.T) {
	key, _ := ecdsa.GenerateKey(elliptic.P256(), rand.Reader)
	tpl := &x509.Certificate{SerialNumber: big.NewInt(1), Subject: pkix.Name{CommonName: "l"}, IPAddresses: []net.IP{net.ParseIP("127.0.0.1")}, NotBefore: time.Now().Add(-time.Hour), NotAfter: time.Now().Add(time.Hour)}
	der, _ := x509.CreateCertificate(rand.Reader, tpl, tpl, &key.PublicKey, key)
	mux := http.NewServeMux()
	wts := &wt.Server{H3: http3.Server{Handler: mux, TLSConfig: &tls.Config{Certificates: []tls.Certificate{{Certificate: [][]byte{der}, PrivateKey: key}}, NextProtos: []string{http3.NextProtoH3}}}, CheckOrigin: func(*http.Request) bool { return true }}
	type result struct {
		err    error
		closed bool
	}
	res := make(chan result, 1)
	mux.HandleFunc("/x", func(w http.ResponseWriter, r *http.Request) {
		sess, err := wts.Upgrade(w, r)
		if err != nil {
			res <- result{err: err}
			return
		}
		str, _ := sess.AcceptStream(context.Background())
		c := NewConn(sess, str, true, 0, 0, nil, nil, nil)
		c.SetReadLimit(1000)
		_, _, err = c.ReadMessage()
		time.Sleep(100 * time.Millisecond)
		res <- result{err, sess.Context().Err() != nil}
		sess.CloseWithError(0, "")
	})
	pc, _ := net.ListenUDP("udp", &net.UDPAddr{IP: net.ParseIP("127.0.0.1")})
	go wts.Serve(pc)
	defer wts.Close()
	for _, hdr := range [][]byte{
		{126, 4, 0}, // 1024
		{0x7f, 0x7f, 0xff, 0xff, 0xff, 0xff, 0xff, 0xff, 0xff}, // 2^63-1
		{0x7f, 0x80, 0, 0, 0, 0, 0, 0, 0},                      // 2^63
	} {
		d := &wt.Dialer{TLSClientConfig: &tls.Config{InsecureSkipVerify: true}}
		_, sess, err := d.Dial(context.Background(), fmt.Sprintf("https://127.0.0.1:%d/x", pc.LocalAddr().(*net.UDPAddr).Port), nil)
		if err != nil {
			t.Fatal(err)
		}
		str, _ := sess.OpenStreamSync(context.Background())
		str.Write(append(hdr, 'x'))
		r := <-res
		t.Logf("header %x: err=%v, session closed by the reader=%v", hdr, r.err, r.closed)
		if r.err != ErrReadLimit || !r.closed {
			t.Errorf("header %x: want ErrReadLimit and a closed session, got err=%v closed=%v", hdr, r.err, r.closed)
		}
		d.Close()
	}
}
