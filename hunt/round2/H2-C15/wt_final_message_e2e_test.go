// Place this file in  engine/wt_final_message_e2e_test.go  and run
//
//	export GOFLAGS=-mod=mod GOPROXY=off; unset GOWORK
//	go test -vet=off -count=1 -run 'TestWebTransportFinalMessageCloseReason' -v ./engine/
//
// FAILS on the unmodified tree (timing dependent through the real QUIC stack,
// therefore ten rounds per size; on the audit machine 5..10 of 10 rounds of the
// large sizes fail, the small size never does).
//
// A real WebTransport client (webtransport-go Dialer over a loopback QUIC
// connection) opens a session, sends ONE final Engine.IO message in one frame
// and then finishes its stream (FIN). The session must end the same way no
// matter how long that last message was. It does not: a short last message ends
// the session with reason "transport close", a long one (>= the 4096 byte read
// buffer, here 100 000 and 300 000 bytes, well below maxHttpBufferSize 1e6)
// ends it with "transport error" / "webtransport error", because
// webtransport.(*messageReader).Read records the io.EOF that quic-go returns
// together with the last payload bytes as the connection's sticky read error.
package engine

import (
	"context"
	"crypto/ecdsa"
	"crypto/elliptic"
	"crypto/rand"
	"crypto/tls"
	"crypto/x509"
	"crypto/x509/pkix"
	"fmt"
	"math/big"
	"net"
	"net/http"
	"strings"
	"testing"
	"time"

	"github.com/quic-go/quic-go/http3"
	"github.com/zishang520/engine.io/v2/config"
	"github.com/zishang520/engine.io/v2/types"
	webtrans "github.com/zishang520/engine.io/v2/webtransport"
	wt "github.com/zishang520/webtransport-go"
)

func wtE2ETLS(t *testing.T) *tls.Config {
	key, err := ecdsa.GenerateKey(elliptic.P256(), rand.Reader)
	if err != nil {
		t.Fatal(err)
	}
	tpl := &x509.Certificate{
		SerialNumber: big.NewInt(1),
		Subject:      pkix.Name{CommonName: "localhost"},
		IPAddresses:  []net.IP{net.ParseIP("127.0.0.1")},
		NotBefore:    time.Now().Add(-time.Hour),
		NotAfter:     time.Now().Add(time.Hour),
		KeyUsage:     x509.KeyUsageDigitalSignature,
		ExtKeyUsage:  []x509.ExtKeyUsage{x509.ExtKeyUsageServerAuth},
	}
	der, err := x509.CreateCertificate(rand.Reader, tpl, tpl, &key.PublicKey, key)
	if err != nil {
		t.Fatal(err)
	}
	return &tls.Config{
		Certificates: []tls.Certificate{{Certificate: [][]byte{der}, PrivateKey: key}},
		NextProtos:   []string{http3.NextProtoH3},
	}
}

// one frame of the Engine.IO WebTransport framing (text type)
func wtE2EFrame(payload []byte) []byte {
	l := len(payload)
	var b []byte
	switch {
	case l >= 65536:
		b = append(b, 127, 0, 0, 0, 0, byte(l>>24), byte(l>>16), byte(l>>8), byte(l))
	case l > 125:
		b = append(b, 126, byte(l>>8), byte(l))
	default:
		b = append(b, byte(l))
	}
	return append(b, payload...)
}

// runs one session; returns the close reason, the close description and the
// lengths of the messages the application received
func wtE2EFinalMessage(t *testing.T, size int) (reason string, desc any, msgs []int) {
	opts := config.DefaultServerOptions()
	opts.SetTransports(types.NewSet("polling", "websocket", "webtransport"))
	eng := NewServer(opts)

	mux := http.NewServeMux()
	wts := &wt.Server{
		H3:          http3.Server{Handler: mux, TLSConfig: wtE2ETLS(t)},
		CheckOrigin: func(*http.Request) bool { return true },
	}
	mux.HandleFunc("/engine.io/", func(w http.ResponseWriter, r *http.Request) {
		eng.OnWebTransportSession(types.NewHttpContext(w, r), wts)
	})
	pc, err := net.ListenUDP("udp", &net.UDPAddr{IP: net.ParseIP("127.0.0.1")})
	if err != nil {
		t.Fatal(err)
	}
	go wts.Serve(pc)
	defer func() { wts.Close(); pc.Close() }()

	type closeInfo struct {
		reason string
		desc   any
	}
	closed := make(chan closeInfo, 1)
	got := make(chan int, 16)
	eng.On("connection", func(a ...any) {
		s := a[0].(Socket)
		s.On("message", func(m ...any) { got <- len(fmt.Sprint(m[0])) })
		s.On("close", func(a ...any) {
			ci := closeInfo{reason: fmt.Sprint(a[0])}
			if len(a) > 1 {
				ci.desc = a[1]
			}
			closed <- ci
		})
	})

	// client
	d := &wt.Dialer{TLSClientConfig: &tls.Config{InsecureSkipVerify: true}}
	defer d.Close()
	ctx, cancel := context.WithTimeout(context.Background(), 5*time.Second)
	defer cancel()
	url := fmt.Sprintf("https://127.0.0.1:%d/engine.io/", pc.LocalAddr().(*net.UDPAddr).Port)
	rsp, sess, err := d.Dial(ctx, url, nil)
	if err != nil || rsp.StatusCode != 200 {
		t.Fatalf("dial: %v", err)
	}
	str, err := sess.OpenStreamSync(ctx)
	if err != nil {
		t.Fatal(err)
	}
	conn := webtrans.NewConn(sess, str, false, 0, 0, nil, nil, nil)
	if err := conn.WriteMessage(webtrans.TextMessage, []byte("0")); err != nil { // open packet
		t.Fatal(err)
	}
	if _, p, err := conn.ReadMessage(); err != nil || !strings.Contains(string(p), `"sid"`) {
		t.Fatalf("handshake: %q %v", p, err)
	}
	time.Sleep(50 * time.Millisecond)

	// the final message ("4" + size-1 bytes) in one frame, then FIN
	if _, err := str.Write(wtE2EFrame([]byte("4" + strings.Repeat("x", size-1)))); err != nil {
		t.Fatal(err)
	}
	str.Close()

	select {
	case ci := <-closed:
		reason, desc = ci.reason, ci.desc
	case <-time.After(5 * time.Second):
		t.Fatal("session did not close")
	}
	for {
		select {
		case n := <-got:
			msgs = append(msgs, n)
			continue
		default:
		}
		break
	}
	return
}

func TestWebTransportFinalMessageCloseReason(t *testing.T) {
	for _, size := range []int{100, 100000, 300000} {
		counts := map[string]int{}
		for round := 0; round < 10; round++ {
			reason, desc, msgs := wtE2EFinalMessage(t, size)
			if len(msgs) != 1 || msgs[0] != size-1 {
				t.Fatalf("size %d: application received %v", size, msgs)
			}
			if desc != nil {
				reason += " (" + fmt.Sprint(desc) + ")"
			}
			counts[reason]++
		}
		t.Logf("final message of %6d bytes, then FIN: close reasons over 10 sessions: %v", size, counts)
		if counts["transport close"] != 10 {
			t.Errorf("final message of %d bytes: the peer ended its stream after a complete, delivered message, yet %d of 10 sessions ended with something other than \"transport close\": %v",
				size, 10-counts["transport close"], counts)
		}
	}
}
