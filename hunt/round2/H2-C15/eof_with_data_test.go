// Place this file in  webtransport/eof_with_data_test.go  and run
//
//	export GOFLAGS=-mod=mod GOPROXY=off; unset GOWORK
//	go test -vet=off -count=1 -run 'TestEOFWithData' -v ./webtransport/
//
// All three tests FAIL on the unmodified tree.
//
// An io.Reader may return the last bytes of a stream together with io.EOF
// ("n > 0, err == io.EOF"); quic-go's receive stream -- the stream type the
// WebTransport session hands to webtransport.NewConn -- does exactly that when
// the STREAM frame carrying the FIN is consumed by the Read call
// (quic-go receive_stream.go readImpl: `return ..., bytesRead, io.EOF`).
// bufio.Reader passes such a result straight through when it is asked for at
// least a buffer-full while its buffer is empty (the "large read" path), i.e.
// for every message whose remaining payload is >= the 4096 byte read buffer.
package webtransport

import (
	"io"
	"testing"
	"time"

	"github.com/quic-go/quic-go"
	wt "github.com/zishang520/webtransport-go"
)

// chunkStream hands out the given chunks, one per Read call. When eofWithLast is
// set the last chunk is returned together with io.EOF (as quic-go does when the
// final STREAM frame is consumed), otherwise io.EOF comes with the next call
// (as a TCP connection would do). Every later Read returns 0, io.EOF.
type chunkStream struct {
	chunks      [][]byte
	eofWithLast bool
}

func (s *chunkStream) Read(p []byte) (int, error) {
	if len(s.chunks) == 0 {
		return 0, io.EOF
	}
	n := copy(p, s.chunks[0])
	if n < len(s.chunks[0]) {
		s.chunks[0] = s.chunks[0][n:]
		return n, nil
	}
	s.chunks = s.chunks[1:]
	if len(s.chunks) == 0 && s.eofWithLast {
		return n, io.EOF
	}
	return n, nil
}
func (s *chunkStream) Write(p []byte) (int, error)      { return len(p), nil }
func (s *chunkStream) Close() error                     { return nil }
func (s *chunkStream) StreamID() quic.StreamID          { return 0 }
func (s *chunkStream) CancelWrite(wt.StreamErrorCode)   {}
func (s *chunkStream) CancelRead(wt.StreamErrorCode)    {}
func (s *chunkStream) SetReadDeadline(time.Time) error  { return nil }
func (s *chunkStream) SetWriteDeadline(time.Time) error { return nil }
func (s *chunkStream) SetDeadline(time.Time) error      { return nil }

const eofPayloadLen = 5000 // > default read buffer (4096)

// one complete text frame of 5000 bytes: header (126, 16-bit length) + payload
func eofTestStream(eofWithLast bool) *chunkStream {
	payload := make([]byte, eofPayloadLen)
	for i := range payload {
		payload[i] = 'x'
	}
	return &chunkStream{
		chunks:      [][]byte{{126, byte(eofPayloadLen >> 8), byte(eofPayloadLen & 0xff)}, payload},
		eofWithLast: eofWithLast,
	}
}

// readWhole reads the (single) message of the stream with an 8 KiB buffer until
// the reader reports an error, and returns the reader, the bytes and the error.
func readWhole(t *testing.T, c *Conn) (io.Reader, int, error) {
	t.Helper()
	mt, r, err := c.NextReader()
	if err != nil || mt != TextMessage {
		t.Fatalf("NextReader: type %d, err %v", mt, err)
	}
	total := 0
	buf := make([]byte, 8192)
	for {
		n, err := r.Read(buf)
		total += n
		if err != nil {
			return r, total, err
		}
	}
}

// 1. A message that was delivered completely (all declared bytes, io.EOF) is
// afterwards reported as cut off by the very same reader.
func TestEOFWithData_CompleteMessageThenUnexpectedEOF(t *testing.T) {
	c := NewConn(nil, eofTestStream(true), true, 0, 0, nil, nil, nil)
	r, n, err := readWhole(t, c)
	if n != eofPayloadLen || err != io.EOF {
		t.Fatalf("message: %d bytes, err %v; want %d bytes and io.EOF", n, err, eofPayloadLen)
	}
	// io.Reader: "the next Read should return 0, EOF"
	n2, err2 := r.Read(make([]byte, 16))
	if n2 != 0 || err2 != io.EOF {
		t.Fatalf("the message was complete (%d of %d bytes, io.EOF), but the next Read of the same reader returned (%d, %v); want (0, io.EOF)",
			n, eofPayloadLen, n2, err2)
	}
}

// 2. The failure reported once the stream has ended is not one failure: the
// message reader says "close 1006 unexpected EOF", NextReader says "EOF".
func TestEOFWithData_LaterReadsReportDifferentFailures(t *testing.T) {
	c := NewConn(nil, eofTestStream(true), true, 0, 0, nil, nil, nil)
	r, n, err := readWhole(t, c)
	if n != eofPayloadLen || err != io.EOF {
		t.Fatalf("message: %d bytes, err %v", n, err)
	}
	_, errReader := r.Read(make([]byte, 16))
	_, _, errNext := c.NextReader()
	_, _, errNext2 := c.NextReader()
	if errNext != errNext2 {
		t.Fatalf("NextReader is not sticky: %v then %v", errNext, errNext2)
	}
	if errReader != io.EOF && errReader != errNext {
		t.Fatalf("after the end of the stream the message reader failed with %q but NextReader failed with %q; want the same failure from every later read",
			errReader, errNext)
	}
}

// 3. The error NextReader reports for "the peer ended the stream after a
// complete message" depends on how the stream happened to hand out its EOF:
// CloseError 1006 (which transports/webtransport.go turns into the "close"
// event, close reason "transport close") when EOF comes with its own Read call,
// bare io.EOF (turned into the "error" event, "transport error") when it comes
// with the last bytes.
func TestEOFWithData_EndOfStreamErrorDependsOnChunking(t *testing.T) {
	var got [2]error
	for i, eofWithLast := range []bool{false, true} {
		c := NewConn(nil, eofTestStream(eofWithLast), true, 0, 0, nil, nil, nil)
		_, n, err := readWhole(t, c)
		if n != eofPayloadLen || err != io.EOF {
			t.Fatalf("eofWithLast=%v: message: %d bytes, err %v", eofWithLast, n, err)
		}
		_, _, got[i] = c.NextReader()
	}
	if got[0] != got[1] {
		t.Fatalf("same byte stream, same consumer: NextReader after the last message returned %q when EOF came alone, but %q when EOF came with the last bytes (IsUnexpectedCloseError: %v vs %v)",
			got[0], got[1], IsUnexpectedCloseError(got[0]), IsUnexpectedCloseError(got[1]))
	}
}
