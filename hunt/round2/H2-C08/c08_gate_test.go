package engine

// Place in engine/ together with c08_helper_test.go. Library unmodified:
//   export GOFLAGS=-mod=mod GOPROXY=off; unset GOWORK
//   go test -vet=off -count=1 -v -run 'TestHuntGate' ./engine/

import (
	"testing"
	"time"

	"github.com/zishang520/engine.io/v2/config"
)

// allowUpgrades=false: the open packet advertises no upgrade, yet a websocket
// candidate for the polling session is entertained and the session switches
func TestHuntGateAllowUpgradesFalse(t *testing.T) {
	o := config.DefaultServerOptions()
	o.SetAllowUpgrades(false)
	e := newHuntEnv(t, o)
	sid, s := e.handshake()
	if n := e.srv.Upgrades("polling").Len(); n != 0 {
		t.Fatalf("Upgrades(polling) = %d entries", n)
	}
	c, _, err := e.dialWS("EIO=4&transport=websocket&sid=" + sid)
	if err != nil {
		return // refused: fine
	}
	defer c.Close()
	time.Sleep(50 * time.Millisecond)
	c.WriteMessage(1, []byte("2probe"))
	if m, err := wsRead(c, time.Second); err == nil {
		t.Errorf("allowUpgrades=false but the candidate's probe was answered with %q", m)
	}
	c.WriteMessage(1, []byte("5"))
	time.Sleep(100 * time.Millisecond)
	if s.Transport().Name() != "polling" || s.Upgraded() {
		t.Errorf("allowUpgrades=false but the session switched to %s (upgraded=%v)", s.Transport().Name(), s.Upgraded())
	}
}

// a session that was opened on websocket (upgrades: [] in its open packet,
// Upgrades("websocket") is empty) accepts a second websocket connection as an
// upgrade candidate and replaces its transport with it
func TestHuntGateWebsocketToWebsocket(t *testing.T) {
	e := newHuntEnv(t, nil)
	c0, _, err := e.dialWS("EIO=4&transport=websocket")
	if err != nil {
		t.Fatal(err)
	}
	defer c0.Close()
	wsRead(c0, time.Second) // open packet
	s := <-e.connCh
	first := s.Transport()
	c, _, err := e.dialWS("EIO=4&transport=websocket&sid=" + s.Id())
	if err != nil {
		return // refused: fine
	}
	defer c.Close()
	time.Sleep(50 * time.Millisecond)
	c.WriteMessage(1, []byte("2probe"))
	if m, err := wsRead(c, time.Second); err == nil {
		t.Errorf("a candidate for a websocket session got its probe answered with %q", m)
	}
	c.WriteMessage(1, []byte("5"))
	time.Sleep(100 * time.Millisecond)
	if s.Transport() != first {
		_, err := wsRead(c0, 200*time.Millisecond)
		t.Errorf("the websocket session replaced its transport with the second connection (upgraded=%v); the original connection: %v", s.Upgraded(), err)
	}
}

// an upgrade packet without any probe: the session switches although no probe
// pong was sent and the pending poll was not released with a noop; the pending
// poll is answered with a CLOSE packet ("1"), which tells the client that the
// server closed the session, while the server keeps it open on the candidate
func TestHuntGateUpgradeWithoutProbe(t *testing.T) {
	e := newHuntEnv(t, nil)
	sid, s := e.handshake()
	pollRes := make(chan string, 1)
	go func() {
		_, b := e.get("EIO=4&transport=polling&sid=" + sid)
		pollRes <- b
	}()
	time.Sleep(50 * time.Millisecond)
	c, _, err := e.dialWS("EIO=4&transport=websocket&sid=" + sid)
	if err != nil {
		t.Fatal(err)
	}
	defer c.Close()
	time.Sleep(50 * time.Millisecond)
	c.WriteMessage(1, []byte("5"))
	select {
	case b := <-pollRes:
		if b == "1" {
			t.Errorf("pending poll answered with a close packet %q while the session stays %s on %s", b, s.ReadyState(), s.Transport().Name())
		}
	case <-time.After(time.Second):
	}
	time.Sleep(50 * time.Millisecond)
	if s.Upgraded() || s.Transport().Name() != "polling" {
		t.Errorf("session switched to %s on an upgrade packet that no probe preceded (upgraded=%v, state=%s)", s.Transport().Name(), s.Upgraded(), s.ReadyState())
	}
}
