package engine

import (
	"os"
	"strings"
	"testing"
	"time"

	"github.com/zishang520/engine.io/v2/config"
)

// Deterministic versions of the races; they need a timing-only sleep in the
// library (sleep.diff or sleep2.diff) and are skipped otherwise:
//   HUNT_SLEEP=1  with sleep.diff   (sleep at the top of the UPGRADE branch)
//   HUNT_SLEEP=2  with sleep2.diff  (sleep between clearTransport and setTransport)

func probeDone(t *testing.T, e *huntEnv, sid string) (c interface {
	WriteMessage(int, []byte) error
	Close() error
}, read func(time.Duration) (string, error)) {
	conn, _, err := e.dialWS("EIO=4&transport=websocket&sid=" + sid)
	if err != nil {
		t.Fatal(err)
	}
	time.Sleep(30 * time.Millisecond)
	conn.WriteMessage(1, []byte("2probe"))
	if m, err := wsRead(conn, time.Second); m != "3probe" {
		t.Fatalf("probe answer %q %v", m, err)
	}
	return conn, func(d time.Duration) (string, error) { return wsRead(conn, d) }
}

// R1: the upgrade timeout elapses while the upgrade packet is being handled
func TestHuntSleepTimeoutDuringUpgrade(t *testing.T) {
	if os.Getenv("HUNT_SLEEP") != "1" {
		t.Skip("needs sleep.diff and HUNT_SLEEP=1")
	}
	o := config.DefaultServerOptions()
	o.SetUpgradeTimeout(300 * time.Millisecond)
	e := newHuntEnv(t, o)
	sid, s := e.handshake()
	reason := make(chan []any, 1)
	s.On("close", func(a ...any) { reason <- a })
	c, _ := probeDone(t, e, sid)
	defer c.Close()
	time.Sleep(150 * time.Millisecond) // ~180ms after the timer was armed
	c.WriteMessage(1, []byte("5"))      // handled from ~180ms to ~380ms; the timer fires at 300ms
	time.Sleep(500 * time.Millisecond)
	tr := s.Transport()
	select {
	case r := <-reason:
		t.Errorf("the upgrade timeout cost the session: closed with %v (transport %s/%s, upgraded=%v)", r, tr.Name(), tr.ReadyState(), s.Upgraded())
	default:
		if tr.ReadyState() != "open" {
			t.Errorf("session %s is left on a dead transport %s/%s (upgraded=%v): neither upgraded nor usable on polling", s.ReadyState(), tr.Name(), tr.ReadyState(), s.Upgraded())
		}
	}
}

// R2a: the session closes (here: what the ping timeout timer does) while the
// switch is in progress
func TestHuntSleepCloseDuringUpgrade(t *testing.T) {
	if os.Getenv("HUNT_SLEEP") != "2" {
		t.Skip("needs sleep2.diff and HUNT_SLEEP=2")
	}
	e := newHuntEnv(t, nil)
	sid, s := e.handshake()
	c, read := probeDone(t, e, sid)
	defer c.Close()
	c.WriteMessage(1, []byte("5"))
	time.Sleep(100 * time.Millisecond)
	s.(*socket).OnClose("ping timeout") // exactly the call made by the ping timeout timer
	if s.ReadyState() != "closed" {
		t.Fatalf("state %s", s.ReadyState())
	}
	for {
		if _, err := read(1500 * time.Millisecond); err != nil {
			if strings.Contains(err.Error(), "timeout") {
				t.Errorf("the session is closed (clients=%d) but its candidate connection is left open and attached: transport %s/%s", e.srv.ClientsCount(), s.Transport().Name(), s.Transport().ReadyState())
			}
			break
		}
	}
}

// R2b: Close(true) by the application while the switch is in progress is lost
func TestHuntSleepCloseLost(t *testing.T) {
	if os.Getenv("HUNT_SLEEP") != "2" {
		t.Skip("needs sleep2.diff and HUNT_SLEEP=2")
	}
	e := newHuntEnv(t, nil)
	sid, s := e.handshake()
	c, read := probeDone(t, e, sid)
	defer c.Close()
	c.WriteMessage(1, []byte("5"))
	time.Sleep(100 * time.Millisecond)
	s.Close(true) // e.g. server.Close() on shutdown, or the application kicking the client
	time.Sleep(400 * time.Millisecond)
	if s.ReadyState() != "closed" {
		t.Errorf("Close(true) was lost: session is %s on %s/%s, clients=%d", s.ReadyState(), s.Transport().Name(), s.Transport().ReadyState(), e.srv.ClientsCount())
	}
	s.Send(strings.NewReader("still here"), nil, nil)
	if m, err := read(500 * time.Millisecond); err == nil {
		t.Errorf("the closed session still delivers: %q", m)
	}
}
