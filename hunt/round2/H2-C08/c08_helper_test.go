package engine

import (
	"encoding/json"
	"fmt"
	"io"
	"net/http"
	"net/http/httptest"
	"strings"
	"sync"
	"testing"
	"time"

	"github.com/gorilla/websocket"
	"github.com/zishang520/engine.io/v2/config"
)

type huntEnv struct {
	t      *testing.T
	srv    Server
	ts     *httptest.Server
	mu     sync.Mutex
	socks  map[string]Socket
	connCh chan Socket
}

func newHuntEnv(t *testing.T, opts *config.ServerOptions) *huntEnv {
	if opts == nil {
		opts = config.DefaultServerOptions()
	}
	e := &huntEnv{t: t, socks: map[string]Socket{}, connCh: make(chan Socket, 16)}
	e.srv = NewServer(opts)
	e.srv.On("connection", func(a ...any) {
		s := a[0].(Socket)
		e.mu.Lock()
		e.socks[s.Id()] = s
		e.mu.Unlock()
		e.connCh <- s
	})
	e.ts = httptest.NewServer(e.srv)
	t.Cleanup(func() {
		e.ts.CloseClientConnections()
		e.ts.Close()
	})
	return e
}

func (e *huntEnv) url(q string) string {
	return e.ts.URL + "/engine.io/?" + q
}

func (e *huntEnv) get(q string) (int, string) {
	resp, err := http.Get(e.url(q))
	if err != nil {
		return -1, err.Error()
	}
	defer resp.Body.Close()
	b, _ := io.ReadAll(resp.Body)
	return resp.StatusCode, string(b)
}

func (e *huntEnv) post(q, body string) (int, string) {
	resp, err := http.Post(e.url(q), "text/plain;charset=UTF-8", strings.NewReader(body))
	if err != nil {
		return -1, err.Error()
	}
	defer resp.Body.Close()
	b, _ := io.ReadAll(resp.Body)
	return resp.StatusCode, string(b)
}

// polling handshake (EIO=4), returns sid and the server-side socket
func (e *huntEnv) handshake() (string, Socket) {
	code, body := e.get("EIO=4&transport=polling")
	if code != 200 || !strings.HasPrefix(body, "0") {
		e.t.Fatalf("handshake: %d %q", code, body)
	}
	first := strings.Split(body, "\x1e")[0]
	var h struct {
		Sid      string   `json:"sid"`
		Upgrades []string `json:"upgrades"`
	}
	if err := json.Unmarshal([]byte(first[1:]), &h); err != nil {
		e.t.Fatalf("handshake json: %v %q", err, body)
	}
	select {
	case s := <-e.connCh:
		return h.Sid, s
	case <-time.After(2 * time.Second):
		e.t.Fatalf("no connection event")
	}
	return "", nil
}

func (e *huntEnv) dialWS(q string) (*websocket.Conn, *http.Response, error) {
	u := "ws" + strings.TrimPrefix(e.url(q), "http")
	return websocket.DefaultDialer.Dial(u, nil)
}

func wsRead(c *websocket.Conn, d time.Duration) (string, error) {
	c.SetReadDeadline(time.Now().Add(d))
	_, b, err := c.ReadMessage()
	return string(b), err
}

func waitFor(d time.Duration, f func() bool) bool {
	deadline := time.Now().Add(d)
	for time.Now().Before(deadline) {
		if f() {
			return true
		}
		time.Sleep(2 * time.Millisecond)
	}
	return f()
}

var _ = fmt.Sprintf
