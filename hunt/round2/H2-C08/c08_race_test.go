package engine

// Place in engine/ together with c08_helper_test.go. Library unmodified, no sleep:
//   export GOFLAGS=-mod=mod GOPROXY=off; unset GOWORK
//   go test -vet=off -count=1 -v -run 'TestHunt(IntervalArmedAfterCleanup|Stress)' ./engine/

import (
	"runtime"
	"strings"
	"sync"
	"sync/atomic"
	"testing"
	"time"

	"github.com/zishang520/engine.io/v2/config"
)

// R3 deterministic, library unmodified: the upgrade timeout elapses while the
// probe ping is being handled (an application listener of the public
// "upgrading" event takes its time); the noop interval is armed after cleanup
// and nothing ever stops it
func TestHuntIntervalArmedAfterCleanup(t *testing.T) {
	o := config.DefaultServerOptions()
	o.SetUpgradeTimeout(100 * time.Millisecond)
	e := newHuntEnv(t, o)
	sid, s := e.handshake()
	s.On("upgrading", func(...any) { time.Sleep(300 * time.Millisecond) })

	c, _, err := e.dialWS("EIO=4&transport=websocket&sid=" + sid)
	if err != nil {
		t.Fatal(err)
	}
	defer c.Close()
	c.WriteMessage(1, []byte("2probe"))
	for {
		if _, err := wsRead(c, 2*time.Second); err != nil {
			if strings.Contains(err.Error(), "timeout") {
				t.Fatalf("candidate not closed by the upgrade timeout")
			}
			break
		}
	}
	time.Sleep(400 * time.Millisecond)
	if s.ReadyState() != "open" || s.Upgrading() || s.Upgraded() || s.Transport().Name() != "polling" {
		t.Fatalf("unexpected state %s %v %v %s", s.ReadyState(), s.Upgrading(), s.Upgraded(), s.Transport().Name())
	}
	// the failed candidate is gone; the session is on polling again: a poll
	// must now wait for data (ping interval is 25s), not be answered at once
	for i := 0; i < 5; i++ {
		t0 := time.Now()
		res := make(chan string, 1)
		go func() { _, b := e.get("EIO=4&transport=polling&sid=" + sid); res <- b }()
		select {
		case b := <-res:
			t.Errorf("poll %d answered after %v with %q although the application sent nothing", i, time.Since(t0).Round(time.Millisecond), b)
		case <-time.After(500 * time.Millisecond):
			t.Logf("poll %d stays pending (good)", i)
			s.Send(strings.NewReader("x"), nil, nil)
			<-res
		}
	}
	s.Close(true)
	time.Sleep(500 * time.Millisecond)
	if n := countStacks("utils.SetInterval"); n > 0 {
		t.Errorf("%d interval goroutine(s) still ticking after the session is closed", n)
	}
}

func countStacks(sub string) int {
	buf := make([]byte, 16<<20)
	n := runtime.Stack(buf, true)
	c := 0
	for _, g := range strings.Split(string(buf[:n]), "\n\n") {
		if strings.Contains(g, sub) {
			c++
		}
	}
	return c
}

// R3 without any sleep: session close racing the probe ping
func TestHuntStressProbeVsClose(t *testing.T) {
	o := config.DefaultServerOptions()
	e := newHuntEnv(t, o)
	var wg sync.WaitGroup
	const workers = 8
	const iters = 150
	var mu sync.Mutex
	for w := 0; w < workers; w++ {
		wg.Add(1)
		go func(w int) {
			defer wg.Done()
			for i := 0; i < iters; i++ {
				mu.Lock()
				sid, s := e.handshake()
				mu.Unlock()
				c, _, err := e.dialWS("EIO=4&transport=websocket&sid=" + sid)
				if err != nil {
					t.Errorf("dial: %v", err)
					return
				}
				time.Sleep(2 * time.Millisecond)
				done := make(chan struct{})
				go func() {
					defer close(done)
					time.Sleep(time.Duration((i*7+w*13)%200) * time.Microsecond)
					s.Close(true)
				}()
				c.WriteMessage(1, []byte("2probe"))
				<-done
				c.Close()
			}
		}(w)
	}
	wg.Wait()
	time.Sleep(time.Second)
	t.Logf("after 1s: %d", countStacks("utils.SetInterval"))
	if n := countStacks("utils.SetInterval"); n > 0 {
		t.Errorf("%d interval goroutines left behind although every session is closed (clients=%d)", n, e.srv.ClientsCount())
	}
}

// R1 without sleep: upgrade packet racing the upgrade timeout
func TestHuntStressUpgradeVsTimeout(t *testing.T) {
	o := config.DefaultServerOptions()
	const timeout = 20 * time.Millisecond
	o.SetUpgradeTimeout(timeout)
	e := newHuntEnv(t, o)
	var wg sync.WaitGroup
	const workers = 8
	const iters = 300
	var mu sync.Mutex
	var okUp, okTimeout, bad atomic.Int64
	for w := 0; w < workers; w++ {
		wg.Add(1)
		go func(w int) {
			defer wg.Done()
			for i := 0; i < iters; i++ {
				mu.Lock()
				sid, s := e.handshake()
				mu.Unlock()
				reason := make(chan []any, 1)
				s.On("close", func(a ...any) {
					select {
					case reason <- a:
					default:
					}
				})
				t0 := time.Now()
				c, _, err := e.dialWS("EIO=4&transport=websocket&sid=" + sid)
				if err != nil {
					t.Errorf("dial: %v", err)
					return
				}
				// the server armed the timer about now; a conforming candidate: probe first
				c.WriteMessage(1, []byte("2probe"))
				if m, _ := wsRead(c, time.Second); m != "3probe" {
					// the probe was lost (known defect: reader started before the listener)
					c.Close()
					s.Close(true)
					continue
				}
				jitter := time.Duration((i*37+w*101)%2000-1000) * time.Microsecond / 2
				time.Sleep(time.Until(t0.Add(timeout + jitter - 300*time.Microsecond)))
				c.WriteMessage(1, []byte("5"))
				time.Sleep(60 * time.Millisecond)
				st := s.ReadyState()
				tr := s.Transport()
				switch {
				case st == "open" && tr.Name() == "polling" && !s.Upgrading():
					okTimeout.Add(1)
				case st == "open" && tr.Name() == "websocket" && tr.ReadyState() == "open":
					okUp.Add(1)
				default:
					bad.Add(1)
					var r []any
					select {
					case r = <-reason:
					default:
					}
					t.Logf("BAD: session=%s transport=%s/%s upgraded=%v upgrading=%v reason=%v", st, tr.Name(), tr.ReadyState(), s.Upgraded(), s.Upgrading(), r)
				}
				c.Close()
				s.Close(true)
			}
		}(w)
	}
	wg.Wait()
	t.Logf("upgraded=%d timed-out=%d bad=%d", okUp.Load(), okTimeout.Load(), bad.Load())
	if bad.Load() > 0 {
		t.Errorf("%d sessions lost to an upgrade packet racing the upgrade timeout", bad.Load())
	}
}

// R2 without sleep: session close racing the upgrade packet
func TestHuntStressUpgradeVsSessionClose(t *testing.T) {
	o := config.DefaultServerOptions()
	e := newHuntEnv(t, o)
	var wg sync.WaitGroup
	const workers = 8
	const iters = 200
	var mu sync.Mutex
	var orphan, fine atomic.Int64
	for w := 0; w < workers; w++ {
		wg.Add(1)
		go func(w int) {
			defer wg.Done()
			for i := 0; i < iters; i++ {
				mu.Lock()
				sid, s := e.handshake()
				mu.Unlock()
				c, _, err := e.dialWS("EIO=4&transport=websocket&sid=" + sid)
				if err != nil {
					t.Errorf("dial: %v", err)
					return
				}
				time.Sleep(2 * time.Millisecond)
				c.WriteMessage(1, []byte("2probe"))
				if m, _ := wsRead(c, time.Second); m != "3probe" {
					c.Close()
					s.Close(true)
					continue
				}
				done := make(chan struct{})
				go func() {
					defer close(done)
					time.Sleep(time.Duration((i*7+w*13)%150) * time.Microsecond)
					s.Close(true)
				}()
				c.WriteMessage(1, []byte("5"))
				<-done
				// the session is closed now: the candidate must be closed too
				closedByServer := false
				for {
					_, err := wsRead(c, 700*time.Millisecond)
					if err != nil {
						closedByServer = !strings.Contains(err.Error(), "timeout")
						break
					}
				}
				if s.ReadyState() != "closed" {
					t.Errorf("session not closed: %s", s.ReadyState())
				}
				if closedByServer {
					fine.Add(1)
				} else {
					orphan.Add(1)
					t.Logf("ORPHAN: session=%s transport=%s/%s upgraded=%v clients=%d", s.ReadyState(), s.Transport().Name(), s.Transport().ReadyState(), s.Upgraded(), e.srv.ClientsCount())
				}
				c.Close()
			}
		}(w)
	}
	wg.Wait()
	t.Logf("fine=%d orphan=%d", fine.Load(), orphan.Load())
	if orphan.Load() > 0 {
		t.Errorf("%d candidate connections left open on a closed session", orphan.Load())
	}
}
