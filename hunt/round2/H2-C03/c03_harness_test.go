package engine

import (
	"fmt"
	"io"
	"net/http"
	"net/http/httptest"
	"strings"
	"sync"
	"testing"
	"time"

	ws "github.com/gorilla/websocket"
	"github.com/zishang520/engine.io-go-parser/packet"
	"github.com/zishang520/engine.io/v2/config"
	"github.com/zishang520/engine.io/v2/types"
)

type recorder struct {
	mu     sync.Mutex
	events []string
}

func (r *recorder) add(format string, a ...any) {
	r.mu.Lock()
	defer r.mu.Unlock()
	r.events = append(r.events, fmt.Sprintf(format, a...))
}

func (r *recorder) snapshot() []string {
	r.mu.Lock()
	defer r.mu.Unlock()
	return append([]string(nil), r.events...)
}

func (r *recorder) afterClose() []string {
	ev := r.snapshot()
	for i, e := range ev {
		if strings.HasPrefix(e, "close") {
			return ev[i+1:]
		}
	}
	return nil
}

func (r *recorder) count(prefix string) int {
	n := 0
	for _, e := range r.snapshot() {
		if strings.HasPrefix(e, prefix) {
			n++
		}
	}
	return n
}

func readAll(r io.Reader) string {
	if r == nil {
		return ""
	}
	b, _ := io.ReadAll(r)
	return string(b)
}

// watch records every session-level event of a socket.
func watch(s Socket, r *recorder) {
	s.On("close", func(a ...any) { r.add("close %v", a[0]) })
	s.On("message", func(a ...any) { r.add("message %s", readAll(a[0].(io.Reader))) })
	s.On("packet", func(a ...any) { r.add("packet %s", a[0].(*packet.Packet).Type) })
	s.On("heartbeat", func(a ...any) { r.add("heartbeat") })
	s.On("upgrading", func(a ...any) { r.add("upgrading") })
	s.On("upgrade", func(a ...any) { r.add("upgrade") })
	s.On("flush", func(a ...any) { r.add("flush") })
	s.On("drain", func(a ...any) { r.add("drain") })
}

type testServer struct {
	eng  Server
	http *httptest.Server
	conn chan Socket
}

func newTestServer(t *testing.T, mod func(*config.ServerOptions)) *testServer {
	opts := config.DefaultServerOptions()
	opts.SetPingInterval(300 * time.Millisecond)
	opts.SetPingTimeout(200 * time.Millisecond)
	opts.SetAllowEIO3(true)
	if mod != nil {
		mod(opts)
	}
	ts := &testServer{eng: NewServer(opts), conn: make(chan Socket, 16)}
	ts.http = httptest.NewServer(http.HandlerFunc(ts.eng.ServeHTTP))
	t.Cleanup(func() { ts.http.CloseClientConnections(); ts.http.Close() })
	return ts
}

func (ts *testServer) url(q string) string {
	return ts.http.URL + "/engine.io/?" + q
}

func (ts *testServer) wsurl(q string) string {
	return "ws" + strings.TrimPrefix(ts.http.URL, "http") + "/engine.io/?" + q
}

func httpGet(t *testing.T, url string) (int, string) {
	resp, err := http.Get(url)
	if err != nil {
		t.Fatalf("GET %s: %v", url, err)
	}
	defer resp.Body.Close()
	b, _ := io.ReadAll(resp.Body)
	return resp.StatusCode, string(b)
}

func httpPost(t *testing.T, url, body string) (int, string) {
	resp, err := http.Post(url, "text/plain;charset=UTF-8", strings.NewReader(body))
	if err != nil {
		t.Fatalf("POST %s: %v", url, err)
	}
	defer resp.Body.Close()
	b, _ := io.ReadAll(resp.Body)
	return resp.StatusCode, string(b)
}

// pollingHandshake opens a revision-4 polling session and returns its sid.
func pollingHandshake(t *testing.T, ts *testServer) string {
	code, body := httpGet(t, ts.url("EIO=4&transport=polling"))
	if code != 200 || !strings.HasPrefix(body, "0{") {
		t.Fatalf("handshake: %d %q", code, body)
	}
	i := strings.Index(body, `"sid":"`)
	rest := body[i+7:]
	return rest[:strings.Index(rest, `"`)]
}

func waitFor(t *testing.T, what string, d time.Duration, cond func() bool) bool {
	deadline := time.Now().Add(d)
	for time.Now().Before(deadline) {
		if cond() {
			return true
		}
		time.Sleep(2 * time.Millisecond)
	}
	return cond()
}

var _ = types.NewStringBufferString
var _ = ws.TextMessage

// httpGetQuiet is for background polls whose outcome does not matter.
func httpGetQuiet(url string) {
	if resp, err := http.Get(url); err == nil {
		io.Copy(io.Discard, resp.Body)
		resp.Body.Close()
	}
}
