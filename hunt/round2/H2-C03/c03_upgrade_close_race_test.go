package engine

import (
	"runtime"
	"testing"
	"time"

	ws "github.com/gorilla/websocket"
)

type c03sess struct {
	s   Socket
	rec *recorder
}

func c03server(t *testing.T) (*testServer, chan c03sess) {
	ts := newTestServer(t, nil)
	conns := make(chan c03sess, 4)
	ts.eng.On("connection", func(a ...any) {
		s := a[0].(Socket)
		rec := &recorder{}
		watch(s, rec)
		conns <- c03sess{s, rec}
	})
	return ts, conns
}

// probe opens the candidate websocket of a polling session and completes the
// probe exchange. ok=false: the probe was read before MaybeUpgrade attached its
// listener (known defect C08) - the round is skipped.
func c03probe(t *testing.T, ts *testServer, sid string) (*ws.Conn, bool) {
	c, _, err := ws.DefaultDialer.Dial(ts.wsurl("EIO=4&transport=websocket&sid="+sid), nil)
	if err != nil {
		t.Fatal(err)
	}
	c.WriteMessage(ws.TextMessage, []byte("2probe"))
	c.SetReadDeadline(time.Now().Add(300 * time.Millisecond))
	if _, m, err := c.ReadMessage(); err != nil || string(m) != "3probe" {
		c.Close()
		return nil, false
	}
	c.SetReadDeadline(time.Time{})
	return c, true
}

// checkZombie: the websocket of a closed session must be closed by the server.
// Returns true when it is still open after more than pingInterval+pingTimeout,
// got no ping, and a message sent on it reached nobody.
func c03zombie(t *testing.T, c *ws.Conn, x c03sess) bool {
	c.WriteMessage(ws.TextMessage, []byte("4are-you-there"))
	c.SetReadDeadline(time.Now().Add(800 * time.Millisecond))
	_, m, err := c.ReadMessage()
	ne, isTimeout := err.(interface{ Timeout() bool })
	if isTimeout && ne.Timeout() {
		t.Logf("  websocket still open 800ms after the close event (no ping, no close frame, no EOF); session=%s transport=%s/%s; events=%v",
			x.s.ReadyState(), x.s.Transport().Name(), x.s.Transport().ReadyState(), x.rec.snapshot())
		return true
	}
	t.Logf("  websocket ended: %q %v", m, err)
	return false
}

// 1. Purely client-driven: the client sends the upgrade packet ("5") on the
// websocket and a close packet ("1") on the polling transport at the same time.
// No source change. Fails on the unmodified tree (a few percent of the rounds).
func TestC03_UpgradePacketRacingClientClose(t *testing.T) {
	ts, conns := c03server(t)
	hits, zombies, played := 0, 0, 0
	for i := 0; i < 400; i++ {
		sid := pollingHandshake(t, ts)
		x := <-conns
		c, ok := c03probe(t, ts, sid)
		if !ok {
			x.s.Close(true)
			continue
		}
		played++
		done := make(chan struct{})
		go func() {
			defer close(done)
			httpPost(t, ts.url("EIO=4&transport=polling&sid="+sid), "1")
		}()
		time.Sleep(time.Duration(i%200) * time.Microsecond)
		c.WriteMessage(ws.TextMessage, []byte("5"))
		<-done
		// (when the upgrade wins, the POST is refused and the session stays open)
		waitFor(t, "close", 100*time.Millisecond, func() bool { return x.rec.count("close") > 0 })
		time.Sleep(5 * time.Millisecond)
		if after := x.rec.afterClose(); len(after) > 0 {
			hits++
			if hits <= 3 {
				t.Logf("round %d: events %v", i, x.rec.snapshot())
			}
			if x.s.Transport().Name() == "websocket" && x.s.Transport().ReadyState() == "open" {
				zombies++
				if zombies == 1 {
					c03zombie(t, c, x)
				}
			}
		}
		c.Close()
		x.s.Close(true)
	}
	t.Logf("%d/%d rounds: 'upgrade' emitted after 'close'; %d of them left the websocket open on the closed session", hits, played, zombies)
	if hits > 0 {
		t.Errorf("events after the close event in %d of %d rounds (%d zombie websockets)", hits, played, zombies)
	}
}

// 2. Application / server close (Close(true), what Server.Close does for every
// client) issued the moment the upgrade packet has passed its state check
// (Upgraded() turns true right behind the check). No source change.
func TestC03_UpgradePacketRacingServerClose(t *testing.T) {
	ts, conns := c03server(t)
	hits, zombies, played := 0, 0, 0
	for i := 0; i < 200; i++ {
		sid := pollingHandshake(t, ts)
		x := <-conns
		c, ok := c03probe(t, ts, sid)
		if !ok {
			x.s.Close(true)
			continue
		}
		played++
		done := make(chan struct{})
		go func() {
			defer close(done)
			deadline := time.Now().Add(time.Second)
			for !x.s.Upgraded() && time.Now().Before(deadline) {
				runtime.Gosched()
			}
			x.s.Close(true)
		}()
		c.WriteMessage(ws.TextMessage, []byte("5"))
		<-done
		waitFor(t, "close", time.Second, func() bool { return x.rec.count("close") > 0 })
		time.Sleep(5 * time.Millisecond)
		if after := x.rec.afterClose(); len(after) > 0 {
			hits++
			if hits <= 3 {
				t.Logf("round %d: events %v", i, x.rec.snapshot())
			}
			if x.s.Transport().Name() == "websocket" && x.s.Transport().ReadyState() == "open" {
				zombies++
				if zombies == 1 {
					c03zombie(t, c, x)
				}
			}
		}
		c.Close()
	}
	t.Logf("%d/%d rounds: 'upgrade' emitted after 'close'; %d of them left the websocket open on the closed session", hits, played, zombies)
	if hits > 0 {
		t.Errorf("events after the close event in %d of %d rounds (%d zombie websockets)", hits, played, zombies)
	}
}

// 3. Deterministic with sleep.diff applied (one time.Sleep behind cleanup() in
// MaybeUpgrade's packet listener). Without the patch this test passes.
func TestC03_UpgradePacketRacingClose_WithSleep(t *testing.T) {
	ts, conns := c03server(t)
	sid := pollingHandshake(t, ts)
	x := <-conns
	c, ok := c03probe(t, ts, sid)
	if !ok {
		t.Skip("probe lost (C08)")
	}
	defer c.Close()
	c.WriteMessage(ws.TextMessage, []byte("5"))
	time.Sleep(50 * time.Millisecond) // the upgrade packet is held by the sleep (200ms)
	x.s.Close(true)
	time.Sleep(300 * time.Millisecond)
	t.Logf("events %v", x.rec.snapshot())
	if after := x.rec.afterClose(); len(after) > 0 {
		t.Errorf("events after close: %v", after)
	}
	if c03zombie(t, c, x) {
		t.Errorf("session %s, but its websocket transport is %q and the connection was left open", x.s.ReadyState(), x.s.Transport().ReadyState())
	}
}
