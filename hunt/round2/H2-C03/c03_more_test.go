package engine

import (
	"bufio"
	"math/rand"
	"net"
	"strings"
	"sync/atomic"
	"testing"
	"time"

	ws "github.com/gorilla/websocket"
	"github.com/zishang520/engine.io-go-parser/packet"
)

// Finding 2. The peer closes right behind its websocket handshake: the session
// is handed to the "connection" listener after its close event was emitted.
// Client-driven, no source change (a few per thousand rounds).
func TestC03_ConnectionHandedClosedSession(t *testing.T) {
	ts := newTestServer(t, nil)
	var notOpen, total, closeSeen atomic.Int32
	ts.eng.On("connection", func(a ...any) {
		s := a[0].(Socket)
		total.Add(1)
		st := s.ReadyState()
		s.On("close", func(...any) { closeSeen.Add(1) })
		if st != "open" {
			notOpen.Add(1)
		}
	})
	addr := strings.TrimPrefix(ts.http.URL, "http://")
	const rounds = 2000
	for i := 0; i < rounds; i++ {
		c, err := net.Dial("tcp", addr)
		if err != nil {
			t.Fatal(err)
		}
		c.Write([]byte("GET /engine.io/?EIO=4&transport=websocket HTTP/1.1\r\nHost: x\r\nUpgrade: websocket\r\nConnection: Upgrade\r\nSec-WebSocket-Key: dGhlIHNhbXBsZSBub25jZQ==\r\nSec-WebSocket-Version: 13\r\n\r\n"))
		c.SetReadDeadline(time.Now().Add(time.Second))
		br := bufio.NewReader(c)
		for {
			l, err := br.ReadString('\n')
			if err != nil || l == "\r\n" {
				break
			}
		}
		c.Write([]byte{0x88, 0x82, 0, 0, 0, 0, 0x03, 0xe8}) // masked close frame, code 1000
		time.Sleep(2 * time.Millisecond)
		c.Close()
	}
	time.Sleep(1200 * time.Millisecond) // longer than pingInterval+pingTimeout: every session is closed by now
	t.Logf("connection events: %d; handed over in a state other than open: %d; close events the application could observe: %d; sessions still registered: %d",
		total.Load(), notOpen.Load(), closeSeen.Load(), ts.eng.ClientsCount())
	if notOpen.Load() > 0 {
		t.Errorf("%d sessions were handed to the application when they were no longer open", notOpen.Load())
	}
	if total.Load() != closeSeen.Load() {
		t.Errorf("%d sessions handed over, but only %d close events: the others were emitted before the hand-over", total.Load(), closeSeen.Load())
	}
}

// Finding 3a. Close(false) on a polling session racing the client's next poll:
// polling.DoClose tests Writable() and only then stores shouldClose; a poll that
// installs itself in between is never answered, the session hangs in "closing"
// and is finally closed by the heartbeat with reason "ping timeout" (or, with
// the default timing, by closeTimeout after 30s). No source change.
func TestC03_PollingCloseRacingNextPoll(t *testing.T) {
	ts, conns := c03server(t)
	bad := 0
	for i := 0; i < 3000 && bad < 2; i++ {
		sid := pollingHandshake(t, ts)
		x := <-conns
		x.s.Send(strings.NewReader("bye"), nil, nil)
		d := time.Duration(rand.Intn(300)) * time.Microsecond
		go func() {
			time.Sleep(d)
			x.s.Close(false)
		}()
		httpGet(t, ts.url("EIO=4&transport=polling&sid="+sid))
		go httpGetQuiet(ts.url("EIO=4&transport=polling&sid=" + sid)) // the client polls again at once
		if !waitFor(t, "close", 100*time.Millisecond, func() bool { return x.rec.count("close") > 0 }) {
			t.Logf("round %d: 100ms after Close(false): session %s, transport %s, writable (a poll is waiting) = %v, events %v",
				i, x.s.ReadyState(), x.s.Transport().ReadyState(), x.s.Transport().Writable(), x.rec.snapshot())
		}
		waitFor(t, "close", 2*time.Second, func() bool { return x.rec.count("close") > 0 })
		if x.rec.count("close forced close") != 1 {
			bad++
			t.Logf("round %d: events %v", i, x.rec.snapshot())
		}
	}
	if bad > 0 {
		t.Errorf("%d sessions closed with Close(false) did not end in 'forced close'", bad)
	}
}

// Finding 3b. Needs sleep-F.diff (one time.Sleep in socket.Close between the
// buffer test and the registration of the drain listener); passes without it.
func TestC03_CloseMissesDrain_WithSleep(t *testing.T) {
	ts, conns := c03server(t)
	sid := pollingHandshake(t, ts)
	x := <-conns
	x.s.Send(strings.NewReader("bye"), nil, nil) // no poll pending: buffered
	go x.s.Close(false)                          // "send the last message, then close"
	time.Sleep(50 * time.Millisecond)
	_, body := httpGet(t, ts.url("EIO=4&transport=polling&sid="+sid))
	t.Logf("poll 1: %q", body)
	start := time.Now()
	code, body := httpGet(t, ts.url("EIO=4&transport=polling&sid="+sid))
	t.Logf("poll 2 (answered after %v): %d %q", time.Since(start), code, body)
	waitFor(t, "close", 2*time.Second, func() bool { return x.rec.count("close") > 0 })
	t.Logf("events: %v", x.rec.snapshot())
	if x.rec.count("close forced close") != 1 {
		t.Errorf("Close(false) must end in one 'forced close'; events: %v", x.rec.snapshot())
	}
}

// Finding 4. Deterministic: the application closes the session from its
// "packet" listener; the packet's data/message (or heartbeat) event is still
// emitted, after the close event.
func TestC03_CloseInPacketListener(t *testing.T) {
	for _, discard := range []bool{true, false} {
		ts := newTestServer(t, nil)
		rec := &recorder{}
		ts.eng.On("connection", func(a ...any) {
			s := a[0].(Socket)
			watch(s, rec)
			s.On("packet", func(a ...any) {
				if a[0].(*packet.Packet).Type == packet.MESSAGE {
					s.Close(discard)
				}
			})
		})
		c, _, err := ws.DefaultDialer.Dial(ts.wsurl("EIO=4&transport=websocket"), nil)
		if err != nil {
			t.Fatal(err)
		}
		defer c.Close()
		c.ReadMessage() // open packet
		c.WriteMessage(ws.TextMessage, []byte("4hello"))
		waitFor(t, "close", time.Second, func() bool { return rec.count("close") > 0 })
		time.Sleep(50 * time.Millisecond)
		t.Logf("Close(%v): events %v", discard, rec.snapshot())
		if after := rec.afterClose(); len(after) > 0 {
			t.Errorf("Close(%v): events after close: %v", discard, after)
		}
	}
}

// Finding 5. onPacket and flush test the state and then emit, OnClose is not
// ordered with them: a client message racing Close(true) is delivered after
// the close event, an application Send racing a peer close produces flush and
// drain events after the close event. No source change (a few per thousand).
func TestC03_MessageAndFlushRacingClose(t *testing.T) {
	ts, conns := c03server(t)
	hits := 0
	const rounds = 4000
	for i := 0; i < rounds; i++ {
		c, _, err := ws.DefaultDialer.Dial(ts.wsurl("EIO=4&transport=websocket"), nil)
		if err != nil {
			t.Fatal(err)
		}
		x := <-conns
		c.ReadMessage()
		done := make(chan struct{})
		go func() {
			defer close(done)
			time.Sleep(time.Duration(i%150) * time.Microsecond)
			if i%2 == 0 {
				x.s.Close(true)
			} else {
				x.s.Send(strings.NewReader("x"), nil, nil)
			}
		}()
		if i%2 == 0 {
			c.WriteMessage(ws.TextMessage, []byte("4hello"))
		} else {
			c.Close()
		}
		<-done
		waitFor(t, "close", time.Second, func() bool { return x.rec.count("close") > 0 })
		time.Sleep(time.Millisecond)
		if after := x.rec.afterClose(); len(after) > 0 {
			hits++
			if hits <= 6 {
				t.Logf("round %d: events %v", i, x.rec.snapshot())
			}
		}
		c.Close()
	}
	if hits > 0 {
		t.Errorf("events after the close event in %d of %d rounds", hits, rounds)
	}
}

// Side observation. After the peer's close frame the server never closes the
// TCP connection: transport.OnClose sets "closed" first, so the Close() that
// clearTransport issues returns early and DoClose (conn.Close) never runs.
func TestC03_PeerCloseLeavesTCPOpen(t *testing.T) {
	ts, conns := c03server(t)
	c, _, err := ws.DefaultDialer.Dial(ts.wsurl("EIO=4&transport=websocket"), nil)
	if err != nil {
		t.Fatal(err)
	}
	defer c.Close()
	x := <-conns
	c.ReadMessage()
	c.WriteControl(ws.CloseMessage, ws.FormatCloseMessage(1000, ""), time.Now().Add(time.Second))
	_, _, err = c.ReadMessage()
	t.Logf("client read: %v", err)
	waitFor(t, "close", time.Second, func() bool { return x.rec.count("close") > 0 })
	t.Logf("events %v", x.rec.snapshot())
	u := c.UnderlyingConn()
	u.SetReadDeadline(time.Now().Add(time.Second))
	n, err := u.Read(make([]byte, 10))
	t.Logf("raw read after the close handshake: n=%d err=%v", n, err)
	if ne, ok := err.(interface{ Timeout() bool }); ok && ne.Timeout() {
		t.Errorf("the server did not close the TCP connection of a session it reports closed (%s)", x.s.ReadyState())
	}
}
