package engine

// Demonstration for property C07 (heartbeat), revision 3:
// a client ping that travels in a *binary* polling payload (XHR2 client, no
// b64) right after a text packet is neither answered with a pong nor does it
// refresh the ping deadline; the POST is nevertheless acknowledged with "ok".
// A client that pings every 80 ms (interval 100 ms, timeout 150 ms) is closed
// with reason "ping timeout" 250 ms after the session opened.
//
// Place in:  engine/hb_v3_binary_payload_ping_test.go
// Run:       export GOFLAGS=-mod=mod GOPROXY=off; unset GOWORK
//            go test -vet=off -count=1 -run 'TestV3BinaryPayloadPing' -v ./engine/

import (
	"bytes"
	"fmt"
	"io"
	"net/http"
	"net/http/httptest"
	"strings"
	"sync/atomic"
	"testing"
	"time"

	"github.com/zishang520/engine.io-go-parser/packet"
	"github.com/zishang520/engine.io-go-parser/parser"
	ptypes "github.com/zishang520/engine.io-go-parser/types"
	"github.com/zishang520/engine.io/v2/config"
	"github.com/zishang520/engine.io/v2/types"
)

// the exact bytes engine.io-client 3.x (engine.io-parser 2.x,
// encodePayloadAsArrayBuffer) puts on the wire:
//
//	<0 string | 1 binary> <decimal length, one byte per digit> 0xFF <data>
var (
	v3Text  = []byte{0, 6, 0xff, '4', 'h', 'e', 'l', 'l', 'o'}    // message "hello"
	v3Ping  = []byte{0, 1, 0xff, '2'}                             // ping
	v3Bin   = []byte{1, 4, 0xff, 4, 1, 2, 3}                      // binary message 01 02 03
	v3Bin10 = []byte{1, 1, 0, 0xff, 4, 1, 2, 3, 4, 5, 6, 7, 8, 9} // binary message of 9 bytes (length 10: two digits)
	v3Plain = []byte("1:2")                                       // text payload, one ping
)

func cat(parts ...[]byte) []byte { return bytes.Join(parts, nil) }

func runV3Pinger(t *testing.T, contentType string, body []byte, wantMsgs int32) {
	const interval, timeout = 100 * time.Millisecond, 150 * time.Millisecond

	opts := config.DefaultServerOptions()
	opts.SetPingInterval(interval)
	opts.SetPingTimeout(timeout)
	opts.SetAllowEIO3(true)
	opts.SetTransports(types.NewSet("polling"))
	srv := NewServer(opts)

	var start time.Time
	var heartbeats, messages atomic.Int32
	closed := make(chan string, 1)
	srv.On("connection", func(a ...any) {
		s := a[0].(Socket)
		start = time.Now()
		s.On("heartbeat", func(...any) { heartbeats.Add(1) })
		s.On("message", func(...any) { messages.Add(1) })
		s.On("close", func(a ...any) {
			closed <- fmt.Sprintf("%v after %v", a[0], time.Since(start).Round(time.Millisecond))
		})
	})
	ts := httptest.NewServer(srv)
	defer ts.Close()

	do := func(method, q, ct string, body []byte) string {
		req, _ := http.NewRequest(method, ts.URL+"/engine.io/?"+q, bytes.NewReader(body))
		if ct != "" {
			req.Header.Set("Content-Type", ct)
		}
		resp, err := http.DefaultClient.Do(req)
		if err != nil {
			return "ERR " + err.Error()
		}
		defer resp.Body.Close()
		b, _ := io.ReadAll(resp.Body)
		return fmt.Sprintf("%d %s", resp.StatusCode, b)
	}

	open := do("GET", "EIO=3&transport=polling", "", nil)
	i := strings.Index(open, `"sid":"`)
	if i < 0 {
		t.Fatalf("handshake: %s", open)
	}
	sid := open[i+7:]
	sid = sid[:strings.Index(sid, `"`)]
	q := "EIO=3&transport=polling&sid=" + sid

	// the poll loop: counts the pongs the server sends
	var pongs atomic.Int32
	go func() {
		for {
			r := do("GET", q, "", nil)
			if !strings.HasPrefix(r, "200") {
				return
			}
			pongs.Add(int32(strings.Count(r, "1:3")))
			if strings.Contains(r, "1:1") { // close packet
				return
			}
		}
	}()

	// the client pings every 80 ms: always well inside interval+timeout
	const pings = 5
	stop, stopped := make(chan struct{}), make(chan struct{})
	defer func() { close(stop); <-stopped }()
	go func() {
		defer close(stopped)
		for n := 0; n < pings; n++ {
			select {
			case <-stop:
				return
			case <-time.After(80 * time.Millisecond):
			}
			if r := do("POST", q, contentType, body); r != "200 ok" {
				t.Logf("POST %d -> %s", n, r)
			}
		}
	}()

	select {
	case r := <-closed:
		t.Errorf("responsive revision-3 client was closed: %s (server saw %d heartbeats, %d messages; client got %d pongs)",
			r, heartbeats.Load(), messages.Load(), pongs.Load())
		return
	case <-time.After(80*pings*time.Millisecond + 60*time.Millisecond):
	}
	if h, p := heartbeats.Load(), pongs.Load(); h != pings || p != pings {
		t.Errorf("sent %d pings (all acknowledged with 200 ok): server accepted %d, answered %d pongs", pings, h, p)
	}
	if m := messages.Load(); m != wantMsgs*pings {
		t.Errorf("server delivered %d messages, want %d", m, wantMsgs*pings)
	}
}

func TestV3BinaryPayloadPing(t *testing.T) {
	const bin = "application/octet-stream"
	// controls: these pass
	t.Run("control/text-payload[ping]", func(t *testing.T) { runV3Pinger(t, "text/plain;charset=UTF-8", v3Plain, 0) })
	t.Run("control/binary-payload[text,bin10,ping]", func(t *testing.T) { runV3Pinger(t, bin, cat(v3Text, v3Bin10, v3Ping), 2) })
	// these fail on the unmodified tree
	t.Run("binary-payload[text,ping,bin]", func(t *testing.T) { runV3Pinger(t, bin, cat(v3Text, v3Ping, v3Bin), 2) })
	t.Run("binary-payload[bin,text,ping]", func(t *testing.T) { runV3Pinger(t, bin, cat(v3Bin, v3Text, v3Ping), 2) })
	t.Run("binary-payload[ping,text,bin]", func(t *testing.T) { runV3Pinger(t, bin, cat(v3Ping, v3Text, v3Bin), 2) })
}

// The same at the level of the decoder the polling transport calls
// (transports/polling.go decodePayload -> parser.Parserv3().DecodePayload):
// the payload is what the parser's own encoder produces.
func TestV3BinaryPayloadDecode(t *testing.T) {
	p := parser.Parserv3()
	in := []*packet.Packet{
		{Type: packet.MESSAGE, Data: strings.NewReader("hello")},
		{Type: packet.PING},
		{Type: packet.MESSAGE, Data: ptypes.NewBytesBuffer([]byte{1, 2, 3})},
	}
	enc, err := p.EncodePayload(in, true)
	if err != nil {
		t.Fatal(err)
	}
	if want := cat(v3Text, v3Ping, v3Bin); !bytes.Equal(enc.Bytes(), want) {
		t.Fatalf("encoder: % x, want % x", enc.Bytes(), want)
	}
	out, err := p.DecodePayload(ptypes.NewBytesBuffer(enc.Bytes()))
	var got []string
	for _, d := range out {
		got = append(got, string(d.Type))
	}
	if len(out) != 3 || err != nil {
		t.Errorf("decoded %v (err: %v), want [message ping message]", got, err)
	}
}
