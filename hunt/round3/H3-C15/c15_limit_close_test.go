package webtransport

// Demonstration for property C15 (place in webtransport/, run with
//   export GOFLAGS=-mod=mod GOPROXY=off; unset GOWORK
//   go test -vet=off -count=1 -run 'TestC15' -v ./webtransport/ )
//
// The Session of zishang520/webtransport-go is a concrete struct; the test
// gives a zero Session a recording request stream and a finished context
// through reflect/unsafe so that Session.CloseWithError can run without QUIC.
// Nothing of the library under test is modified.

import (
	"bytes"
	"context"
	"encoding/binary"
	"errors"
	"io"
	"reflect"
	"sync"
	"testing"
	"time"
	"unsafe"

	"github.com/quic-go/quic-go"
	"github.com/quic-go/quic-go/http3"
	wt "github.com/zishang520/webtransport-go"
)

type c15ReqStr struct {
	http3.Stream // nil: only the three methods CloseWithError uses exist
	mu           sync.Mutex
	capsules     int
	closed       int
	writeErr     error
}

func (f *c15ReqStr) Write(p []byte) (int, error) {
	f.mu.Lock()
	defer f.mu.Unlock()
	if f.writeErr != nil {
		return 0, f.writeErr
	}
	f.capsules++
	return len(p), nil
}
func (f *c15ReqStr) CancelRead(quic.StreamErrorCode) {}
func (f *c15ReqStr) Close() error                   { f.mu.Lock(); f.closed++; f.mu.Unlock(); return nil }

func c15Session() (*wt.Session, *c15ReqStr) {
	s := &wt.Session{}
	f := &c15ReqStr{}
	v := reflect.ValueOf(s).Elem()
	var hs http3.Stream = f
	fl := v.FieldByName("requestStr")
	reflect.NewAt(fl.Type(), unsafe.Pointer(fl.UnsafeAddr())).Elem().Set(reflect.ValueOf(&hs).Elem())
	ctx, cancel := context.WithCancel(context.Background())
	cancel() // CloseWithError waits for the session's context
	fl = v.FieldByName("ctx")
	reflect.NewAt(fl.Type(), unsafe.Pointer(fl.UnsafeAddr())).Elem().Set(reflect.ValueOf(&ctx).Elem())
	return s, f
}

type c15Stream struct{ r io.Reader }

func (s *c15Stream) Read(p []byte) (int, error)       { return s.r.Read(p) }
func (s *c15Stream) Write(p []byte) (int, error)      { return len(p), nil }
func (s *c15Stream) Close() error                     { return nil }
func (s *c15Stream) StreamID() quic.StreamID          { return 0 }
func (s *c15Stream) CancelWrite(wt.StreamErrorCode)   {}
func (s *c15Stream) CancelRead(wt.StreamErrorCode)    {}
func (s *c15Stream) SetDeadline(time.Time) error      { return nil }
func (s *c15Stream) SetReadDeadline(time.Time) error  { return nil }
func (s *c15Stream) SetWriteDeadline(time.Time) error { return nil }

func c15Header64(n uint64) []byte {
	return binary.BigEndian.AppendUint64([]byte{0x80 | 127}, n)
}

// Finding 1: a frame whose 64-bit length has the top bit set is answered with
// ErrReadLimit, but the session is NOT closed; the neighbouring length
// 2^63-1 (and every other length above the limit) closes it.
func TestC15TopBitLengthDoesNotCloseSession(t *testing.T) {
	for _, tc := range []struct {
		name   string
		length uint64
	}{
		{"2^63-1 (control: handled by the limit check)", 1<<63 - 1},
		{"2^63", 1 << 63},
		{"2^64-1", 1<<64 - 1},
	} {
		t.Run(tc.name, func(t *testing.T) {
			sess, req := c15Session()
			stream := append(c15Header64(tc.length), bytes.Repeat([]byte{'x'}, 64)...)
			c := NewConn(sess, &c15Stream{bytes.NewReader(stream)}, true, 0, 0, nil, nil, nil)
			c.SetReadLimit(1000000) // the engine's default maxHttpBufferSize

			_, _, err := c.NextReader()
			if !errors.Is(err, ErrReadLimit) {
				t.Fatalf("NextReader = %v, want ErrReadLimit", err)
			}
			if req.capsules == 0 {
				t.Errorf("length %d: ErrReadLimit reported, but Session.CloseWithError was never called (no CLOSE_WEBTRANSPORT_SESSION capsule written, request stream closed %d times): the session is left open", tc.length, req.closed)
			}
		})
	}
}

// Finding 2: when closing the session fails, the limit error is replaced by
// the error of the close, for this call and (sticky) for every later call.
func TestC15CloseFailureHidesReadLimit(t *testing.T) {
	sess, req := c15Session()
	req.writeErr = errors.New("request stream: write on closed stream")
	stream := append([]byte{0x80 | 126, 0x01, 0x00}, bytes.Repeat([]byte{'x'}, 256)...) // 256 bytes, limit 100
	c := NewConn(sess, &c15Stream{bytes.NewReader(stream)}, true, 0, 0, nil, nil, nil)
	c.SetReadLimit(100)
	for i := 0; i < 2; i++ {
		_, _, err := c.NextReader()
		if !errors.Is(err, ErrReadLimit) {
			t.Errorf("call %d: NextReader = %v, want ErrReadLimit", i, err)
		}
	}
}

// Finding 3: a message reader that has reported a failure reports a clean
// io.EOF once NextReader has been called again (which itself still reports the
// failure): io.ReadAll on it then returns the truncated message without error.
func TestC15ReaderForgetsFailureAfterNextReader(t *testing.T) {
	sess, _ := c15Session()
	stream := append([]byte{0x00 | 100}, bytes.Repeat([]byte{'x'}, 10)...) // 100 declared, 10 supplied
	c := NewConn(sess, &c15Stream{bytes.NewReader(stream)}, true, 0, 0, nil, nil, nil)
	_, r, err := c.NextReader()
	if err != nil {
		t.Fatal(err)
	}
	got, err := io.ReadAll(r)
	if len(got) != 10 || err != error(errUnexpectedEOF) {
		t.Fatalf("ReadAll = %d bytes, %v; want 10 bytes and unexpected EOF", len(got), err)
	}
	if _, _, err2 := c.NextReader(); err2 != err {
		t.Fatalf("NextReader = %v, want the same failure %v", err2, err)
	}
	if n, err3 := r.Read(make([]byte, 8)); err3 != err {
		t.Errorf("Read after the failure = %d, %v; want the same failure %v", n, err3, err)
	}
}
