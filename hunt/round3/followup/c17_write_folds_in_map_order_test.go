package engine

// HttpContext.Write folded the scheduled response headers to their canonical
// names in map order: two spellings of one field ("set-cookie" scheduled by a
// middleware, "Set-Cookie" of the session cookie) overwrote each other at
// random. Every handshake response must carry the session cookie (C17), and the
// middleware's cookie with it.

import (
	"net/http"
	"net/http/httptest"
	"strings"
	"testing"

	"github.com/zishang520/engine.io/v2/config"
	"github.com/zishang520/engine.io/v2/types"
)

func TestC17WriteJoinsSpellingsOfOneField(t *testing.T) {
	o := config.DefaultServerOptions()
	o.SetCookie(&http.Cookie{Name: "io", Path: "/"})
	eng := NewServer(o)
	eng.Use(func(ctx *types.HttpContext, next func(error)) {
		ctx.ResponseHeaders.Add("set-cookie", "lb=node-7; Path=/")
		next(nil)
	})
	ts := httptest.NewServer(eng)
	defer ts.Close()
	defer eng.Close()

	noSession, noLB := 0, 0
	const rounds = 60
	for i := 0; i < rounds; i++ {
		resp, err := http.Get(ts.URL + "/engine.io/?EIO=4&transport=polling")
		if err != nil {
			t.Fatal(err)
		}
		resp.Body.Close()
		session, lb := false, false
		for _, c := range resp.Header.Values("Set-Cookie") {
			if strings.HasPrefix(c, "io=") {
				session = true
			}
			if strings.HasPrefix(c, "lb=") {
				lb = true
			}
		}
		if !session {
			noSession++
		}
		if !lb {
			noLB++
		}
	}
	if noSession > 0 || noLB > 0 {
		t.Fatalf("of %d handshake responses %d carried no session cookie and %d not the middleware's cookie", rounds, noSession, noLB)
	}
}
