package engine

import (
	"bytes"
	"compress/gzip"
	"compress/zlib"
	"encoding/base64"
	"encoding/json"
	"fmt"
	"io"
	"math/rand"
	"net/http"
	"net/http/httptest"
	"net/url"
	"os"
	"regexp"
	"strconv"
	"strings"
	"testing"
	"time"
	"unicode/utf16"
	"unicode/utf8"

	"github.com/andybalholm/brotli"
	"github.com/klauspost/compress/zstd"
	"github.com/zishang520/engine.io-go-parser/packet"
	"github.com/zishang520/engine.io/v2/config"
	"github.com/zishang520/engine.io/v2/types"
)

type hPacket struct {
	typ    byte // '0'..'6'
	binary bool
	data   []byte
}

func (p hPacket) String() string {
	return fmt.Sprintf("{%c bin=%v %q}", p.typ, p.binary, p.data)
}

// independent decoders --------------------------------------------------

func decodeV4(body []byte) ([]hPacket, error) {
	var out []hPacket
	if len(body) == 0 {
		return nil, fmt.Errorf("empty payload")
	}
	for _, chunk := range bytes.Split(body, []byte{0x1e}) {
		if len(chunk) == 0 {
			return nil, fmt.Errorf("empty packet")
		}
		if chunk[0] == 'b' {
			d, err := base64.StdEncoding.DecodeString(string(chunk[1:]))
			if err != nil {
				return nil, err
			}
			out = append(out, hPacket{'4', true, d})
			continue
		}
		out = append(out, hPacket{chunk[0], false, chunk[1:]})
	}
	return out, nil
}

func decodeV3String(body []byte) ([]hPacket, error) {
	if !utf8.Valid(body) {
		return nil, fmt.Errorf("not utf8")
	}
	u := utf16.Encode([]rune(string(body)))
	var out []hPacket
	for len(u) > 0 {
		i := 0
		for i < len(u) && u[i] != ':' {
			i++
		}
		if i == len(u) {
			return nil, fmt.Errorf("no colon")
		}
		n, err := strconv.Atoi(string(utf16.Decode(u[:i])))
		if err != nil {
			return nil, err
		}
		u = u[i+1:]
		if n > len(u) || n < 1 {
			return nil, fmt.Errorf("bad length %d (have %d)", n, len(u))
		}
		msg := string(utf16.Decode(u[:n]))
		u = u[n:]
		if msg[0] == 'b' {
			d, err := base64.StdEncoding.DecodeString(msg[2:])
			if err != nil {
				return nil, err
			}
			out = append(out, hPacket{msg[1], true, d})
			continue
		}
		out = append(out, hPacket{msg[0], false, []byte(msg[1:])})
	}
	return out, nil
}

func decodeV3Binary(body []byte) ([]hPacket, error) {
	var out []hPacket
	for len(body) > 0 {
		isString := body[0] == 0
		if body[0] > 1 {
			return nil, fmt.Errorf("bad marker %d", body[0])
		}
		i := 1
		l := ""
		for ; i < len(body) && body[i] != 0xff; i++ {
			if body[i] > 9 {
				return nil, fmt.Errorf("bad digit")
			}
			l += string(rune('0' + body[i]))
		}
		if i == len(body) {
			return nil, fmt.Errorf("no 255")
		}
		n, err := strconv.Atoi(l)
		if err != nil {
			return nil, err
		}
		body = body[i+1:]
		if n > len(body) || n < 1 {
			return nil, fmt.Errorf("bad len")
		}
		msg := body[:n]
		body = body[n:]
		if isString {
			out = append(out, hPacket{msg[0], false, msg[1:]})
		} else {
			out = append(out, hPacket{msg[0] + '0', true, msg[1:]})
		}
	}
	return out, nil
}

var jsonpRe = regexp.MustCompile(`(?s)^___eio\[([0-9]*)\]\((.*)\);$`)

type hSession struct {
	t      *testing.T
	base   string
	sid    string
	eio    int
	b64    bool
	jsonp  bool
	j      string
	sock   Socket
	client *http.Client
}

func (s *hSession) url(extra string) string {
	u := s.base + "/engine.io/?transport=polling&EIO=" + strconv.Itoa(s.eio)
	if s.b64 {
		u += "&b64=1"
	}
	if s.jsonp {
		u += "&j=" + url.QueryEscape(s.j)
	}
	if s.sid != "" {
		u += "&sid=" + s.sid
	}
	return u + extra
}

type hResp struct {
	status int
	header http.Header
	body   []byte
	rawLen int
}

func (s *hSession) get(ae string, ua string) (*hResp, error) {
	req, _ := http.NewRequest("GET", s.url(""), nil)
	if ae != "-" {
		req.Header.Set("Accept-Encoding", ae)
	} else {
		req.Header.Set("Accept-Encoding", "identity")
	}
	if ua != "" {
		req.Header.Set("User-Agent", ua)
	}
	res, err := s.client.Do(req)
	if err != nil {
		return nil, err
	}
	defer res.Body.Close()
	raw, err := io.ReadAll(res.Body)
	if err != nil {
		return nil, err
	}
	r := &hResp{status: res.StatusCode, header: res.Header, rawLen: len(raw)}
	var rd io.Reader
	switch ce := res.Header.Get("Content-Encoding"); ce {
	case "":
		r.body = raw
		return r, nil
	case "gzip":
		rd, err = gzip.NewReader(bytes.NewReader(raw))
		if err != nil {
			return nil, err
		}
	case "deflate":
		rd, err = zlib.NewReader(bytes.NewReader(raw))
		if err != nil {
			return nil, err
		}
	case "br":
		rd = brotli.NewReader(bytes.NewReader(raw))
	case "zstd":
		d, e := zstd.NewReader(bytes.NewReader(raw))
		if e != nil {
			return nil, e
		}
		defer d.Close()
		rd = d
	default:
		return nil, fmt.Errorf("unknown coding %q", ce)
	}
	r.body, err = io.ReadAll(rd)
	if err != nil {
		return nil, fmt.Errorf("decompress %s: %v", res.Header.Get("Content-Encoding"), err)
	}
	return r, nil
}

// decode according to session
func (s *hSession) decode(r *hResp) ([]hPacket, error) {
	body := r.body
	ct := r.header.Get("Content-Type")
	if cl := r.header.Get("Content-Length"); cl != strconv.Itoa(r.rawLen) {
		return nil, fmt.Errorf("content-length %q, got %d bytes", cl, r.rawLen)
	}
	if s.jsonp {
		m := jsonpRe.FindSubmatch(body)
		if m == nil {
			return nil, fmt.Errorf("jsonp shape: %q", body)
		}
		if string(m[1]) != regexp.MustCompile(`[^0-9]`).ReplaceAllString(s.j, "") {
			return nil, fmt.Errorf("jsonp index %q for j=%q", m[1], s.j)
		}
		for _, bad := range []string{"</", "<!--", "\u2028", "\u2029", "\n", "\r"} {
			if bytes.Contains(m[2], []byte(bad)) {
				return nil, fmt.Errorf("jsonp literal contains %q", bad)
			}
		}
		var str string
		if err := json.Unmarshal(m[2], &str); err != nil {
			return nil, fmt.Errorf("jsonp literal: %v", err)
		}
		body = []byte(str)
		if !strings.HasPrefix(ct, "text/") {
			return nil, fmt.Errorf("jsonp content type %q", ct)
		}
		if s.eio == 4 {
			return decodeV4(body)
		}
		return decodeV3String(body)
	}
	if s.eio == 4 {
		if ct != "text/plain; charset=UTF-8" {
			return nil, fmt.Errorf("content type %q", ct)
		}
		return decodeV4(body)
	}
	if ct == "application/octet-stream" {
		return decodeV3Binary(body)
	}
	if ct != "text/plain; charset=UTF-8" {
		return nil, fmt.Errorf("content type %q", ct)
	}
	return decodeV3String(body)
}

func hNewServer(t *testing.T, threshold int) (Server, *httptest.Server, chan Socket) {
	opts := config.DefaultServerOptions()
	opts.SetAllowEIO3(true)
	opts.SetPingInterval(10 * time.Minute)
	opts.SetPingTimeout(10 * time.Minute)
	opts.SetHttpCompression(&types.HttpCompression{Threshold: threshold})
	srv := NewServer(opts)
	conns := make(chan Socket, 16)
	srv.On("connection", func(a ...any) { conns <- a[0].(Socket) })
	ts := httptest.NewServer(http.HandlerFunc(srv.ServeHTTP))
	t.Cleanup(func() { srv.Close(); ts.Close() })
	return srv, ts, conns
}

func hOpen(t *testing.T, ts *httptest.Server, conns chan Socket, eio int, b64, jsonp bool, j string) *hSession {
	s := &hSession{t: t, base: ts.URL, eio: eio, b64: b64, jsonp: jsonp, j: j, client: &http.Client{Transport: &http.Transport{DisableCompression: true}}}
	r, err := s.get("-", "")
	if err != nil {
		t.Fatal(err)
	}
	pk, err := s.decode(r)
	if err != nil || len(pk) < 1 || pk[0].typ != '0' {
		t.Fatalf("handshake: %v %v body=%q", err, pk, r.body)
	}
	var o struct{ Sid string }
	json.Unmarshal(pk[0].data, &o)
	s.sid = o.Sid
	s.sock = <-conns
	return s
}

var hAlphabet = []string{"a", "b", ":", "1", "4", "\"", "\\", "\n", "\r", "\u2028", "\u2029", "</script>", "<!--", "\u00e9", "\u20ac", "\U0001F600", "\x1f", "\x00", " ", "'", "&", "\u00ff", "\ufeff", "\ufffd", "\x7f", "-->", "]]>", "0", "b4"}

func hRandText(r *rand.Rand, n int) string {
	var sb strings.Builder
	for i := 0; i < n; i++ {
		sb.WriteString(hAlphabet[r.Intn(len(hAlphabet))])
	}
	return sb.String()
}

var hStats = map[string]int{}

func TestC16Fuzz(t *testing.T) {
	defer func() { t.Logf("%v", hStats) }()
	seed := time.Now().UnixNano()
	t.Logf("seed %d", seed)
	r := rand.New(rand.NewSource(seed))
	aes := []string{"-", "gzip", "deflate", "br", "zstd", "gzip, deflate, br", "GZIP", "gzip;q=0, deflate", "identity", "*", "gzip;q=0", "br;q=0.5, zstd;q=1.0", " gzip ,", "pack200-gzip", "deflate;Q=0, br"}
	uas := []string{"", "Mozilla/4.0 (compatible;MSIE 8.0; Trident/4.0)", "curl"}
	for _, threshold := range []int{0, 64, 1024} {
		_, ts, conns := hNewServer(t, threshold)
		for iter := 0; iter < 150; iter++ {
			eio := 3 + r.Intn(2)
			b64 := r.Intn(2) == 0
			jsonp := r.Intn(3) == 0
			j := []string{"0", "12", "", "1a2", "-3", "٣4", "99999999999999999999999", "1);alert(1", "%00"}[r.Intn(9)]
			s := hOpen(t, ts, conns, eio, b64, jsonp, j)
			// s.j is used raw in url; escape
			for cyc := 0; cyc < 4; cyc++ {
				n := 1 + r.Intn(4)
				var want []hPacket
				anyBin := false
				known := false
				for k := 0; k < n; k++ {
					var opt *packet.Options
					switch r.Intn(3) {
					case 0:
						opt = &packet.Options{Compress: true}
					case 1:
						opt = &packet.Options{Compress: false}
					}
					size := []int{0, 1, 3, 20, 70, 400, 2000}[r.Intn(7)]
					if r.Intn(3) == 0 {
						d := make([]byte, size)
						r.Read(d)
						want = append(want, hPacket{'4', true, d})
						anyBin = true
						if r.Intn(2) == 0 {
							s.sock.Send(bytes.NewReader(d), opt, nil)
						} else {
							s.sock.Send(types.NewBytesBuffer(append([]byte(nil), d...)), opt, nil)
						}
					} else {
						txt := hRandText(r, size)
						want = append(want, hPacket{'4', false, []byte(txt)})
						if r.Intn(2) == 0 {
							s.sock.Send(strings.NewReader(txt), opt, nil)
						} else {
							s.sock.Send(types.NewStringBufferString(txt), opt, nil)
						}
					}
				}
				if eio == 3 && !b64 && !jsonp && anyBin {
					// known defect: non-ASCII strings in a binary payload
					for _, w := range want {
						if !w.binary {
							for _, c := range w.data {
								if c >= 0x80 {
									known = true
								}
							}
						}
					}
				}
				ae := aes[r.Intn(len(aes))]
				ua := uas[r.Intn(len(uas))]
				resp, err := s.get(ae, ua)
				if err != nil {
					t.Errorf("eio=%d b64=%v jsonp=%v j=%q ae=%q: %v", eio, b64, jsonp, j, ae, err)
					break
				}
				got, err := s.decode(resp)
				desc := fmt.Sprintf("thr=%d eio=%d b64=%v jsonp=%v j=%q ae=%q ce=%q ct=%q", threshold, eio, b64, jsonp, j, ae, resp.header.Get("Content-Encoding"), resp.header.Get("Content-Type"))
				hStats[resp.header.Get("Content-Encoding")+"|"+resp.header.Get("Content-Type")+fmt.Sprintf("|jsonp=%v", jsonp)]++
				if known && os.Getenv("C16_KNOWN") == "" {
					continue
				}
				if err != nil {
					t.Errorf("%s: decode: %v\nwant %v\nbody %q", desc, err, want, resp.body)
					continue
				}
				if len(got) != len(want) {
					t.Errorf("%s: got %d packets want %d\n got %v\nwant %v\nbody %q", desc, len(got), len(want), got, want, resp.body)
					continue
				}
				for i := range got {
					if got[i].typ != want[i].typ || got[i].binary != want[i].binary || !bytes.Equal(got[i].data, want[i].data) {
						t.Errorf("%s: packet %d\n got %v\nwant %v", desc, i, got[i], want[i])
					}
				}
				// coding must be acceptable
				if ce := resp.header.Get("Content-Encoding"); ce != "" {
					ok := false
					for _, item := range strings.Split(strings.ToLower(ae), ",") {
						name, q, _ := strings.Cut(item, ";")
						if strings.TrimSpace(name) == ce && !strings.Contains(q, "q=0,") && strings.TrimSpace(q) != "q=0" {
							ok = true
						}
					}
					if !ok {
						t.Errorf("%s: coding not accepted", desc)
					}
				}
				if (ua == uas[1]) != (resp.header.Get("X-Xss-Protection") == "0") {
					t.Errorf("%s: xss header %q for ua %q", desc, resp.header.Get("X-Xss-Protection"), ua)
				}
			}
			s.sock.Close(true)
		}
	}
}
