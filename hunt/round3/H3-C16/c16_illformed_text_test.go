package engine

// Demonstration for property C16 (polling responses are well-formed payloads).
//
// Place this file in engine/ and run
//
//	export GOFLAGS=-mod=mod GOPROXY=off; unset GOWORK
//	go test -vet=off -count=1 -run TestC16IllFormedTextMisframesRevision3Payload ./engine/
//
// A text message that ends inside a multi-byte UTF-8 sequence (what a byte
// slice of CJK text or of an emoji leaves behind: s[:n]) is put on the wire
// as it is, and the revision-3 length prefix counts each stray byte as one
// character. A client decodes the text/plain; charset=UTF-8 body as the
// Encoding Standard prescribes (XMLHttpRequest.responseText, TextDecoder,
// Node's Buffer.toString): the truncated sequence E5 A5 becomes ONE U+FFFD.
// The prefix is then one too large, the packet swallows the first character
// of the next length prefix, and every following packet of the batch is lost.

import (
	"fmt"
	"io"
	"net/http"
	"net/http/httptest"
	"strconv"
	"strings"
	"testing"
	"time"
	"unicode/utf16"
	"unicode/utf8"

	"github.com/zishang520/engine.io/v2/config"
)

// whatwgUTF8Decode is the "UTF-8 decoder" of https://encoding.spec.whatwg.org/#utf-8-decoder
// (one U+FFFD per maximal ill-formed subpart; the offending byte is reprocessed).
func whatwgUTF8Decode(in []byte) []rune {
	var out []rune
	var cp rune
	needed, seen := 0, 0
	lower, upper := byte(0x80), byte(0xBF)
	for i := 0; i < len(in); i++ {
		b := in[i]
		if needed == 0 {
			switch {
			case b <= 0x7F:
				out = append(out, rune(b))
			case b >= 0xC2 && b <= 0xDF:
				needed, cp = 1, rune(b&0x1F)
			case b >= 0xE0 && b <= 0xEF:
				if b == 0xE0 {
					lower = 0xA0
				}
				if b == 0xED {
					upper = 0x9F
				}
				needed, cp = 2, rune(b&0xF)
			case b >= 0xF0 && b <= 0xF4:
				if b == 0xF0 {
					lower = 0x90
				}
				if b == 0xF4 {
					upper = 0x8F
				}
				needed, cp = 3, rune(b&0x7)
			default:
				out = append(out, 0xFFFD)
			}
			continue
		}
		if b < lower || b > upper {
			cp, needed, seen = 0, 0, 0
			lower, upper = 0x80, 0xBF
			i-- // reprocess this byte
			out = append(out, 0xFFFD)
			continue
		}
		lower, upper = 0x80, 0xBF
		cp = cp<<6 | rune(b&0x3F)
		seen++
		if seen == needed {
			out = append(out, cp)
			cp, needed, seen = 0, 0, 0
		}
	}
	if needed != 0 {
		out = append(out, 0xFFFD)
	}
	return out
}

// decodeRevision3StringPayload: <length in UTF-16 code units>:<packet> ... as
// engine.io-parser 2.x (revision 3) decodes a string payload.
func decodeRevision3StringPayload(text []rune) ([]string, error) {
	u := utf16.Encode(text)
	var packets []string
	for len(u) > 0 {
		i := 0
		for i < len(u) && u[i] != ':' {
			i++
		}
		if i == len(u) {
			return packets, fmt.Errorf("no length separator in %q", string(utf16.Decode(u)))
		}
		n, err := strconv.Atoi(string(utf16.Decode(u[:i])))
		if err != nil {
			return packets, fmt.Errorf("length %q: %v", string(utf16.Decode(u[:i])), err)
		}
		u = u[i+1:]
		if n > len(u) {
			return packets, fmt.Errorf("length %d exceeds the %d code units left", n, len(u))
		}
		packets = append(packets, string(utf16.Decode(u[:n])))
		u = u[n:]
	}
	return packets, nil
}

func TestC16IllFormedTextMisframesRevision3Payload(t *testing.T) {
	opts := config.DefaultServerOptions()
	opts.SetAllowEIO3(true)
	opts.SetPingInterval(10 * time.Minute)
	opts.SetPingTimeout(10 * time.Minute)
	srv := NewServer(opts)
	conns := make(chan Socket, 1)
	srv.On("connection", func(a ...any) { conns <- a[0].(Socket) })
	ts := httptest.NewServer(http.HandlerFunc(srv.ServeHTTP))
	defer ts.Close()
	defer srv.Close()

	get := func(url string) (http.Header, []byte) {
		res, err := http.Get(url)
		if err != nil {
			t.Fatal(err)
		}
		defer res.Body.Close()
		body, err := io.ReadAll(res.Body)
		if err != nil {
			t.Fatal(err)
		}
		return res.Header, body
	}

	base := ts.URL + "/engine.io/?EIO=3&transport=polling"
	_, open := get(base)
	i, j := strings.Index(string(open), `"sid":"`), 0
	if i < 0 {
		t.Fatalf("handshake: %q", open)
	}
	sid := string(open)[i+7:]
	j = strings.IndexByte(sid, '"')
	sid = sid[:j]
	sock := <-conns

	// no poll is pending: the two messages are buffered and leave as one batch
	full := "你好"           // E4 BD A0 E5 A5 BD
	first := full[:len(full)-1] // a byte-wise truncation: E4 BD A0 E5 A5
	second := "second"
	sock.Send(strings.NewReader(first), nil, nil)
	sock.Send(strings.NewReader(second), nil, nil)

	hdr, body := get(base + "&sid=" + sid)
	t.Logf("Content-Type %q, body %q", hdr.Get("Content-Type"), body)

	if ct := hdr.Get("Content-Type"); strings.Contains(ct, "charset=UTF-8") && !utf8.Valid(body) {
		t.Errorf("the body is labelled %q but is not well-formed UTF-8: % x", ct, body)
	}

	packets, err := decodeRevision3StringPayload(whatwgUTF8Decode(body))
	if err != nil {
		t.Errorf("payload does not decode: %v (packets so far: %q)", err, packets)
	}
	if len(packets) != 2 {
		t.Fatalf("want 2 packets (two messages were sent), got %d: %q", len(packets), packets)
	}
	if !strings.HasPrefix(packets[0], "4你") || strings.ContainsAny(packets[0][1:], "0123456789:") {
		t.Errorf("first packet %q: want the message packet of %q (ill-formed tail replaced)", packets[0], first)
	}
	if packets[1] != "4"+second {
		t.Errorf("second packet %q, want %q", packets[1], "4"+second)
	}
}
