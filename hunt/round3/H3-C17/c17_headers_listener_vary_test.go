package engine

// Demonstration for property C17 (CORS: "adds Vary: Origin whenever the value
// depends on the request").
//
// Place this file in engine/ and run, from the module root:
//
//	export GOFLAGS=-mod=mod GOPROXY=off; unset GOWORK
//	go test -vet=off -count=1 -run 'TestC17_' -v ./engine/
//
// All three tests FAIL on the unmodified tree.

import (
	"io"
	"net/http"
	"net/http/httptest"
	"regexp"
	"strings"
	"testing"
	"time"

	"github.com/zishang520/engine.io/v2/config"
	"github.com/zishang520/engine.io/v2/types"
	"github.com/zishang520/engine.io/v2/utils"
)

func c17Request(t *testing.T, method, url, origin, body string) (*http.Response, string) {
	t.Helper()
	req, err := http.NewRequest(method, url, strings.NewReader(body))
	if err != nil {
		t.Fatal(err)
	}
	if origin != "" {
		req.Header.Set("Origin", origin)
	}
	res, err := (&http.Client{Timeout: 5 * time.Second}).Do(req)
	if err != nil {
		t.Fatal(err)
	}
	b, _ := io.ReadAll(res.Body)
	res.Body.Close()
	return res, string(b)
}

func c17Sid(t *testing.T, body string) string {
	t.Helper()
	m := regexp.MustCompile(`"sid":"([^"]+)"`).FindStringSubmatch(body)
	if m == nil {
		t.Fatalf("no sid in handshake body %q", body)
	}
	return m[1]
}

func c17VaryHas(h http.Header, field string) bool {
	for _, line := range h.Values("Vary") {
		for _, tok := range strings.Split(line, ",") {
			if strings.EqualFold(strings.TrimSpace(tok), field) {
				return true
			}
		}
	}
	return false
}

// A reflecting CORS policy and a documented `headers` listener that ADDS (not
// sets) a Vary value of its own, as http.Header.Add would: the response names
// the request's Origin in Access-Control-Allow-Origin, but "Vary: Origin" that
// the CORS middleware had scheduled is gone - on the handshake response, on the
// answer to a POST, on every response that goes through polling.headers.
func TestC17_HeadersListenerAddingVaryDropsVaryOrigin(t *testing.T) {
	opts := &config.ServerOptions{}
	opts.SetCors(&types.Cors{
		Origin:      []any{"https://a.example", regexp.MustCompile(`^https://[a-z]+\.b\.example$`)},
		Credentials: true,
	})
	s := NewServer(opts)
	s.On("headers", func(args ...any) {
		// the response body format depends on the user agent in this application
		args[0].(*utils.ParameterBag).Add("Vary", "User-Agent")
	})
	ts := httptest.NewServer(http.HandlerFunc(s.ServeHTTP))
	defer ts.Close()
	defer s.Close()

	base := ts.URL + "/engine.io/?EIO=4&transport=polling"

	// control: a response that does not pass through polling.headers keeps it
	ctl, _ := c17Request(t, "GET", base+"&sid=nosuchsession", "https://a.example", "")
	if !c17VaryHas(ctl.Header, "Origin") {
		t.Fatalf("control (error response): Vary=%q lacks Origin", ctl.Header.Values("Vary"))
	}

	res, body := c17Request(t, "GET", base, "https://a.example", "")
	t.Logf("handshake: ACAO=%q Vary=%q", res.Header.Get("Access-Control-Allow-Origin"), res.Header.Values("Vary"))
	if res.Header.Get("Access-Control-Allow-Origin") != "https://a.example" {
		t.Fatalf("handshake: unexpected ACAO %q", res.Header.Get("Access-Control-Allow-Origin"))
	}
	if !c17VaryHas(res.Header, "User-Agent") {
		t.Errorf("handshake: the listener's Vary value is missing: %q", res.Header.Values("Vary"))
	}
	if !c17VaryHas(res.Header, "Origin") {
		t.Errorf("handshake: Access-Control-Allow-Origin reflects the request's Origin but Vary=%q does not name Origin", res.Header.Values("Vary"))
	}

	sid := c17Sid(t, body)
	res, _ = c17Request(t, "POST", base+"&sid="+sid, "https://x.b.example", "4hello")
	t.Logf("post: ACAO=%q Vary=%q", res.Header.Get("Access-Control-Allow-Origin"), res.Header.Values("Vary"))
	if res.Header.Get("Access-Control-Allow-Origin") != "https://x.b.example" {
		t.Fatalf("post: unexpected ACAO %q", res.Header.Get("Access-Control-Allow-Origin"))
	}
	if !c17VaryHas(res.Header, "Origin") {
		t.Errorf("post: Access-Control-Allow-Origin reflects the request's Origin but Vary=%q does not name Origin", res.Header.Values("Vary"))
	}
}

// The same replacement seen from the cookie side: a middleware registered with
// Use (after the CORS middleware) appends the application's own cookie to
// every response. Every response of the session carries it - except the
// handshake response, where the engine's Set-Cookie replaces the field instead
// of joining it.
func TestC17_SessionCookieReplacesMiddlewareCookie(t *testing.T) {
	opts := &config.ServerOptions{}
	opts.SetCookie(&http.Cookie{Name: "io"})
	s := NewServer(opts)
	s.Use(func(ctx *types.HttpContext, next func(error)) {
		ctx.ResponseHeaders.Add("Set-Cookie", "lb=node-7; Path=/")
		next(nil)
	})
	ts := httptest.NewServer(http.HandlerFunc(s.ServeHTTP))
	defer ts.Close()
	defer s.Close()

	base := ts.URL + "/engine.io/?EIO=4&transport=polling"
	res, body := c17Request(t, "GET", base, "", "")
	sid := c17Sid(t, body)
	hs := res.Header.Values("Set-Cookie")
	t.Logf("handshake Set-Cookie: %q", hs)

	res, _ = c17Request(t, "POST", base+"&sid="+sid, "", "4hello")
	later := res.Header.Values("Set-Cookie")
	t.Logf("post Set-Cookie: %q", later)
	if len(later) != 1 || !strings.HasPrefix(later[0], "lb=node-7") {
		t.Fatalf("post: expected only the middleware's cookie, got %q", later)
	}

	var session, app bool
	for _, c := range hs {
		session = session || strings.HasPrefix(c, "io="+sid+";")
		app = app || strings.HasPrefix(c, "lb=node-7")
	}
	if !session {
		t.Errorf("handshake: session cookie missing: %q", hs)
	}
	if !app {
		t.Errorf("handshake: the middleware's cookie, present on every other response, was replaced by the session cookie: %q", hs)
	}
}

// Field names of the headers bag are compared byte by byte, while HttpContext.Write
// folds them to the canonical form in map iteration order: a listener that
// appends a cookie under the spelling "set-cookie" (legal: field names are case
// insensitive) makes the handshake response carry EITHER the session cookie OR
// the listener's, at random.
func TestC17_LowerCaseFieldNameRandomlyDropsSessionCookie(t *testing.T) {
	opts := &config.ServerOptions{}
	opts.SetCookie(&http.Cookie{Name: "io"})
	s := NewServer(opts)
	s.On("initial_headers", func(args ...any) {
		args[0].(*utils.ParameterBag).Add("set-cookie", "lb=node-7; Path=/")
	})
	ts := httptest.NewServer(http.HandlerFunc(s.ServeHTTP))
	defer ts.Close()
	defer s.Close()

	base := ts.URL + "/engine.io/?EIO=4&transport=polling"
	withSession, without := 0, 0
	for i := 0; i < 40; i++ {
		res, body := c17Request(t, "GET", base, "", "")
		sid := c17Sid(t, body)
		found := false
		for _, c := range res.Header.Values("Set-Cookie") {
			found = found || strings.HasPrefix(c, "io="+sid+";")
		}
		if found {
			withSession++
		} else {
			without++
		}
	}
	t.Logf("handshakes with the session cookie: %d, without: %d", withSession, without)
	if without > 0 {
		t.Errorf("%d of 40 handshake responses carry no Set-Cookie for their session", without)
	}
}
