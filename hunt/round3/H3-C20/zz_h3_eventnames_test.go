package types

// Place in types/ (package-internal) and run:
//   export GOFLAGS=-mod=mod GOPROXY=off; unset GOWORK
//   go test -vet=off -count=1 -run 'TestH3' -v ./types/

import (
	"fmt"
	"testing"
)

// An event whose last listener was removed with RemoveListener is still an
// "event with registered listeners" for EventNames, Len and RemoveAllListeners.
func TestH3EventNamesAfterLastListenerRemoved(t *testing.T) {
	e := NewEventEmitter()
	f := func(...any) {}

	e.On("a", f)
	if !e.RemoveListener("a", f) {
		t.Fatal("RemoveListener did not find f")
	}
	if n := e.ListenerCount("a"); n != 0 {
		t.Fatalf("ListenerCount = %d, want 0", n)
	}
	if names := e.EventNames(); len(names) != 0 {
		t.Errorf("EventNames() = %v although no event has a listener (documented: "+
			"'the events for which the emitter has registered listeners')", names)
	}
	if n := e.Len(); n != 0 {
		t.Errorf("Len() = %d although nothing is registered", n)
	}
	// "Returns an indicator if event and listeners were found before the remove."
	if e.RemoveAllListeners("a") {
		t.Errorf("RemoveAllListeners reports that it found listeners for an event without listeners")
	}

	// the same abstract state reached through RemoveAllListeners is reported differently
	e2 := NewEventEmitter()
	e2.On("a", f)
	e2.RemoveAllListeners("a")
	if len(e2.EventNames()) != 0 || e2.Len() != 0 {
		t.Fatalf("control: RemoveAllListeners left the event behind")
	}
}

// A fired Once listener removes its registration but not the event: an emitter
// used with per-request event names (the ack / reply idiom) grows without bound.
func TestH3FiredOnceLeavesItsEventBehind(t *testing.T) {
	e := NewEventEmitter()
	const n = 10000
	for i := 0; i < n; i++ {
		name := EventName(fmt.Sprintf("reply-%d", i))
		e.Once(name, func(...any) {})
		e.Emit(name)
		if c := e.ListenerCount(name); c != 0 {
			t.Fatalf("once listener still registered: %d", c)
		}
	}
	if got := e.Len(); got != 0 {
		t.Errorf("after %d fired Once listeners nothing is registered, yet Len() = %d and EventNames() has %d names",
			n, got, len(e.EventNames()))
	}
}
