package types

// Secondary observations (minor). Place in types/ and run:
//   export GOFLAGS=-mod=mod GOPROXY=off; unset GOWORK
//   go test -vet=off -count=1 -run 'TestH3Minor' -v ./types/

import "testing"

// Listeners() hands out the internal once-wrapper instead of the registered
// function: what it returns cannot be passed to RemoveListener, and calling it
// consumes the registration.
func TestH3MinorListenersOfOnce(t *testing.T) {
	e := NewEventEmitter()
	calls := 0
	f := func(...any) { calls++ }
	e.Once("c", f)

	ls := e.Listeners("c")
	if len(ls) != 1 {
		t.Fatalf("Listeners = %d", len(ls))
	}
	if !e.RemoveListener("c", ls[0]) {
		t.Errorf("RemoveListener(evt, Listeners(evt)[0]) = false: a listener reported by Listeners cannot be removed (ListenerCount still %d)", e.ListenerCount("c"))
	}

	e2 := NewEventEmitter()
	e2.Once("c", f)
	e2.Listeners("c")[0]() // merely calling what Listeners returned ...
	if n := e2.ListenerCount("c"); n != 1 {
		t.Errorf("... removed the registration: ListenerCount = %d, want 1 (no Emit happened)", n)
	}
}

// Map and Slice are usable as zero values (the emitter itself relies on a zero
// Map); a zero Set answers Has/Len/Delete/Keys/All/Clear/Unmarshal* but Add panics.
func TestH3MinorZeroSetAdd(t *testing.T) {
	defer func() {
		if r := recover(); r != nil {
			t.Errorf("zero Set: Add panicked: %v", r)
		}
	}()
	var s Set[string]
	_ = s.Has("a")
	_ = s.Len()
	_ = s.Delete("a")
	s.Add("a")
}
