package engine

// Secondary observation for C11 (statistical, no sleeps): the 429 abort that
// polling.DoClose writes on the data request in progress and the handler's own
// 200 "ok" share the HttpContext's status code and header bag without a common
// lock. Run (a few times):
//   go test -vet=off -count=5 -v -run TestC11AbortVersusAck ./engine/

import (
	"fmt"
	"io"
	"strings"
	"sync"
	"testing"
)

func TestC11AbortVersusAck(t *testing.T) {
	e := newC11Env(t)
	stat := map[string]int{}
	var mu sync.Mutex
	var wg sync.WaitGroup
	for w := 0; w < 16; w++ {
		wg.Add(1)
		go func() {
			defer wg.Done()
			for i := 0; i < 300; i++ {
				sid, _ := e.handshake()
				var rw sync.WaitGroup
				// two data requests at once: the loser of the overlap test closes
				// the session, whose DoClose aborts the winner with 429 while the
				// winner is writing its own 200 "ok"
				for k := 0; k < 2; k++ {
					rw.Add(1)
					go func() {
						defer rw.Done()
						r, err := e.c.Post(e.ts.URL+e.path(sid, ""), "text/plain;charset=UTF-8", strings.NewReader("4x"))
						if err != nil {
							return
						}
						b, err := io.ReadAll(r.Body)
						r.Body.Close()
						k := fmt.Sprintf("%d body=%q Content-Length=%q Content-Type=%q readErr=%v", r.StatusCode, b, r.Header.Get("Content-Length"), r.Header.Get("Content-Type"), err)
						mu.Lock()
						stat[k]++
						mu.Unlock()
					}()
				}
				rw.Wait()
			}
		}()
	}
	wg.Wait()
	for k, v := range stat {
		t.Log(v, "x", k)
		if strings.HasPrefix(k, "200 ") && !strings.Contains(k, `body="ok"`) {
			t.Errorf("a data request was answered 200 without the acknowledgement body: %s", k)
		}
		if strings.HasPrefix(k, "429 ") && strings.Contains(k, `body="ok"`) {
			t.Errorf("an aborted data request carries the acknowledgement body: %s", k)
		}
	}
}
