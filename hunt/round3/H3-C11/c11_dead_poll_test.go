package engine

// Demonstration for property C11 (polling discipline).
// Place in engine/ and run:
//   export GOFLAGS=-mod=mod GOPROXY=off; unset GOWORK
//   go test -vet=off -count=1 -v -run 'TestC11' ./engine/
//
// A poll whose client is gone before polling.onPollRequest registers its
// "close" listener on the HttpContext is installed as THE pending poll of the
// session (p.req = dead ctx, writable = true): the close event was emitted to
// nobody and is never repeated.

import (
	"encoding/json"
	"io"
	"net"
	"net/http"
	"net/http/httptest"
	"strings"
	"sync"
	"sync/atomic"
	"testing"
	"time"

	"github.com/zishang520/engine.io/v2/config"
	"github.com/zishang520/engine.io/v2/transports"
	"github.com/zishang520/engine.io/v2/types"
)

type c11Env struct {
	t   *testing.T
	srv Server
	ts  *httptest.Server
	c   *http.Client

	mu     sync.Mutex
	socks  map[string]Socket
	closed map[string]string
}

func newC11Env(t *testing.T) *c11Env {
	o := config.DefaultServerOptions()
	// long heartbeat: nothing but the test talks to the session
	o.SetPingInterval(3 * time.Second)
	o.SetPingTimeout(3 * time.Second)
	e := &c11Env{t: t, socks: map[string]Socket{}, closed: map[string]string{}}
	e.srv = NewServer(o)
	e.srv.On("connection", func(a ...any) {
		s := a[0].(Socket)
		e.mu.Lock()
		e.socks[s.Id()] = s
		e.mu.Unlock()
		s.On("close", func(a ...any) {
			e.mu.Lock()
			e.closed[s.Id()] = a[0].(string)
			e.mu.Unlock()
		})
	})
	e.ts = httptest.NewServer(e.srv)
	e.c = &http.Client{Timeout: 10 * time.Second, Transport: &http.Transport{}}
	t.Cleanup(func() { e.srv.Close(); e.ts.Close() })
	return e
}

func (e *c11Env) path(sid, extra string) string {
	p := "/engine.io/?EIO=4&transport=polling" + extra
	if sid != "" {
		p += "&sid=" + sid
	}
	return p
}

func (e *c11Env) get(path string) (int, string) {
	r, err := e.c.Get(e.ts.URL + path)
	if err != nil {
		e.t.Fatalf("GET %s: %v", path, err)
	}
	defer r.Body.Close()
	b, _ := io.ReadAll(r.Body)
	return r.StatusCode, string(b)
}

func (e *c11Env) handshake() (string, Socket) {
	code, body := e.get(e.path("", ""))
	if code != 200 || !strings.HasPrefix(body, "0") {
		e.t.Fatalf("handshake: %d %q", code, body)
	}
	var h struct {
		Sid string `json:"sid"`
	}
	if err := json.Unmarshal([]byte(strings.SplitN(body, "\x1e", 2)[0][1:]), &h); err != nil {
		e.t.Fatal(err)
	}
	e.mu.Lock()
	defer e.mu.Unlock()
	return h.Sid, e.socks[h.Sid]
}

func (e *c11Env) closeReason(sid string) (string, bool) {
	e.mu.Lock()
	defer e.mu.Unlock()
	r, ok := e.closed[sid]
	return r, ok
}

// abortedPoll sends a poll on its own TCP connection and hangs up `after` later.
func (e *c11Env) abortedPoll(path string, after time.Duration) {
	conn, err := net.Dial("tcp", strings.TrimPrefix(e.ts.URL, "http://"))
	if err != nil {
		e.t.Fatal(err)
	}
	io.WriteString(conn, "GET "+path+" HTTP/1.1\r\nHost: x\r\n\r\n")
	time.Sleep(after)
	conn.Close()
}

// slowMiddleware is an ordinary application middleware (Server.Use) that
// takes 150 ms for the requests marked slow=1 (think: a token looked up in a
// database). It only widens the window between the arrival of the request and
// onPollRequest; TestC11AbortedPollNoMiddleware shows the same without it.
func slowMiddleware(ctx *types.HttpContext, next func(error)) {
	if ctx.Query().Peek("slow") != "" {
		time.Sleep(150 * time.Millisecond)
	}
	next(nil)
}

// (a) the next genuine poll - the only poll the client has outstanding - is
// answered 400 as an "overlap" and the session is closed with a transport error.
func TestC11AbortedPollThenNextPollRejectedAsOverlap(t *testing.T) {
	e := newC11Env(t)
	e.srv.Use(slowMiddleware)
	sid, sock := e.handshake()

	e.abortedPoll(e.path(sid, "&slow=1"), 30*time.Millisecond) // the client is gone after 30 ms
	time.Sleep(400 * time.Millisecond)                          // its handler has long returned

	if _, closed := e.closeReason(sid); !closed && sock.Transport().Writable() {
		t.Errorf("the aborted poll (its HTTP exchange is over) is installed as the pending poll: session %s, transport writable", sock.ReadyState())
	}
	if _, closed := e.closeReason(sid); closed {
		t.Log("session was closed on the abort (that would be acceptable)")
		return
	}
	// the session is open and the client has NO poll outstanding: this one must be accepted
	done := make(chan struct{})
	var code int
	var body string
	go func() { code, body = e.get(e.path(sid, "")); close(done) }()
	select {
	case <-done:
	case <-time.After(500 * time.Millisecond):
		// held as the pending poll: correct
		return
	}
	reason, _ := e.closeReason(sid)
	t.Errorf("single outstanding poll of an open session answered %d %q; session closed: %q", code, body, reason)
}

// (b) a message sent meanwhile is written into the dead response: drain fires,
// the send callback reports it written, the session stays open, and the next
// poll does not carry it - the message is lost without any error.
func TestC11AbortedPollSwallowsBatch(t *testing.T) {
	e := newC11Env(t)
	e.srv.Use(slowMiddleware)
	sid, sock := e.handshake()

	e.abortedPoll(e.path(sid, "&slow=1"), 30*time.Millisecond)
	time.Sleep(400 * time.Millisecond)
	if _, closed := e.closeReason(sid); closed {
		t.Log("session was closed on the abort (that would be acceptable)")
		return
	}

	sent := make(chan struct{})
	sock.Send(strings.NewReader("important"), nil, func(transports.Transport) { close(sent) })
	reported := false
	select {
	case <-sent:
		reported = true
	case <-time.After(300 * time.Millisecond):
	}
	code, body := e.get(e.path(sid, "")) // returns with the message, or with the ping after 3 s
	_, closed := e.closeReason(sid)
	t.Logf("send callback ran: %v; next poll: %d %q; session closed: %v", reported, code, body, closed)
	if !strings.Contains(body, "4important") && !closed {
		t.Errorf("message lost on an open session: reported written=%v, next poll got %d %q", reported, code, body)
	}
}

// The same without any middleware and without any sleep: clients that send a
// poll and hang up at once, 16 at a time. net/http cancels the request context
// from its background reader while the handler goroutine is still on its way
// to onPollRequest.
func TestC11AbortedPollNoMiddleware(t *testing.T) {
	e := newC11Env(t)
	var installed atomic.Int32
	const workers, rounds = 16, 200
	var wg sync.WaitGroup
	for w := 0; w < workers; w++ {
		wg.Add(1)
		go func() {
			defer wg.Done()
			for i := 0; i < rounds; i++ {
				sid, sock := e.handshake()
				e.abortedPoll(e.path(sid, ""), 0)
				time.Sleep(30 * time.Millisecond)
				if _, closed := e.closeReason(sid); !closed && sock.ReadyState() == "open" && sock.Transport().Writable() {
					installed.Add(1)
				}
			}
		}()
	}
	wg.Wait()
	if n := installed.Load(); n > 0 {
		t.Errorf("%d of %d aborted polls were installed as the pending poll of a session that stayed open", n, workers*rounds)
	}
}
