package engine

// Place in /tmp/hunt/H3-C09/engine/ and run
//   export GOFLAGS=-mod=mod GOPROXY=off; unset GOWORK
//   go test -vet=off -count=1 -run 'TestC09V3Binary' ./engine/
//
// Both tests FAIL on the unmodified tree.

import (
	"bytes"
	"fmt"
	"io"
	"net/http"
	"net/http/httptest"
	"regexp"
	"runtime"
	"strings"
	"testing"
	"time"

	"github.com/zishang520/engine.io/v2/config"
)

var c09SidRe = regexp.MustCompile(`"sid":"([^"]+)"`)

func c09Server(t *testing.T) (Server, *httptest.Server) {
	opts := config.DefaultServerOptions()
	opts.SetAllowEIO3(true)
	s := NewServer(opts)
	return s, httptest.NewServer(s)
}

func c09Handshake(t *testing.T, ts *httptest.Server) string {
	resp, err := http.Get(ts.URL + "/engine.io/?transport=polling&EIO=3")
	if err != nil {
		t.Fatal(err)
	}
	b, _ := io.ReadAll(resp.Body)
	resp.Body.Close()
	m := c09SidRe.FindSubmatch(b)
	if m == nil {
		t.Fatalf("no sid in %q", b)
	}
	return string(m[1])
}

// A 21-byte body: string marker 0x00, eighteen length digits 9, terminator 0xFF,
// no data. decodePayloadAsBinary then runs `for k := 0; k < 999999999999999999;`
// adding 1 per iteration (utf8.DecodeRune of an empty slice) — the handler
// goroutine spins on a core for ever; the request is never answered.
func TestC09V3BinaryHugeLengthSpins(t *testing.T) {
	_, ts := c09Server(t)
	// no ts.Close(): it would wait for the spinning handler for ever
	sid := c09Handshake(t, ts)

	body := append([]byte{0x00}, bytes.Repeat([]byte{9}, 18)...)
	body = append(body, 0xFF)

	done := make(chan string, 1)
	go func() {
		resp, err := http.Post(ts.URL+"/engine.io/?transport=polling&EIO=3&sid="+sid, "application/octet-stream", bytes.NewReader(body))
		if err != nil {
			done <- err.Error()
			return
		}
		b, _ := io.ReadAll(resp.Body)
		resp.Body.Close()
		done <- fmt.Sprint(resp.StatusCode, " ", string(b))
	}()
	select {
	case r := <-done:
		t.Logf("answered: %s", r)
	case <-time.After(5 * time.Second):
		buf := make([]byte, 1<<20)
		n := runtime.Stack(buf, true)
		spinning := false
		for _, g := range strings.Split(string(buf[:n]), "\n\n") {
			if strings.Contains(g, "decodePayloadAsBinary") && (strings.HasPrefix(g, "goroutine ") && strings.Contains(strings.SplitN(g, "\n", 2)[0], "runn")) {
				spinning = true
			}
		}
		t.Fatalf("a %d-byte POST is still being decoded after 5s (goroutine running in decodePayloadAsBinary: %v)", len(body), spinning)
	}
}

// A 6-byte body: binary marker 0x01, length bytes 0xFD 0x01 (+'0' = "-1"),
// terminator 0xFF. Buffer.Next(-1) slices out of range: the handler panics
// (net/http recovers it, logs the stack and drops the connection, the client
// gets no response).
func TestC09V3BinaryNegativeLengthPanics(t *testing.T) {
	_, ts := c09Server(t)
	defer ts.Close()
	sid := c09Handshake(t, ts)

	body := []byte{0x01, 0xFD, 0x01, 0xFF, 0x04, 'a'}
	resp, err := http.Post(ts.URL+"/engine.io/?transport=polling&EIO=3&sid="+sid, "application/octet-stream", bytes.NewReader(body))
	if err != nil {
		t.Fatalf("no HTTP response (handler panicked, see the 'http: panic serving' log above): %v", err)
	}
	b, _ := io.ReadAll(resp.Body)
	resp.Body.Close()
	t.Logf("answered %d %q", resp.StatusCode, b)
}
