package engine

// Supplementary (data race only, see notes.md): place in /tmp/hunt/H3-C09/engine/ and run
//   export GOFLAGS=-mod=mod GOPROXY=off; unset GOWORK
//   go test -race -vet=off -count=1 -run 'TestC09ErrorPacketShared' ./engine/
//
// Two unrelated sessions each get an upgrade candidate that sends an
// undecodable frame. transport.OnData hands both the parser's one global
// ERROR_PACKET, and MaybeUpgrade's packet listener drains its Data buffer
// (io.Copy) on the two reader goroutines at once.

import (
	"io"
	"net/http"
	"net/http/httptest"
	"regexp"
	"strings"
	"sync"
	"testing"
	"time"

	"github.com/gorilla/websocket"
	"github.com/zishang520/engine.io/v2/config"
)

func TestC09ErrorPacketShared(t *testing.T) {
	s := NewServer(config.DefaultServerOptions())
	ts := httptest.NewServer(s)
	defer ts.Close()
	re := regexp.MustCompile(`"sid":"([^"]+)"`)

	var wg sync.WaitGroup
	for i := 0; i < 8; i++ {
		wg.Add(1)
		go func() {
			defer wg.Done()
			for k := 0; k < 5; k++ {
				resp, err := http.Get(ts.URL + "/engine.io/?transport=polling&EIO=4")
				if err != nil {
					return
				}
				b, _ := io.ReadAll(resp.Body)
				resp.Body.Close()
				sid := string(re.FindSubmatch(b)[1])
				u := "ws" + strings.TrimPrefix(ts.URL, "http") + "/engine.io/?transport=websocket&EIO=4&sid=" + sid
				conn, _, err := websocket.DefaultDialer.Dial(u, nil)
				if err != nil {
					return
				}
				conn.WriteMessage(websocket.TextMessage, []byte("x")) // no such packet type
				conn.SetReadDeadline(time.Now().Add(200 * time.Millisecond))
				conn.ReadMessage()
				conn.Close()
			}
		}()
	}
	wg.Wait()
}
