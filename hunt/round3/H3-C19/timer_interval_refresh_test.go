package utils

// Place in utils/ (package-internal) and run
//
//	export GOFLAGS=-mod=mod GOPROXY=off; unset GOWORK
//	go test -vet=off -count=1 -run 'TestIntervalRefresh|TestUnref' -v ./utils/
//
// TestIntervalRefreshAtTickLeaksLoop       fails on the unmodified tree (no sleep needed)
// TestUnrefPanics                          fails on the unmodified tree (deterministic)
// TestIntervalRefreshAtTickDeterministic   fails deterministically once sleep.diff is applied
//                                          (git apply sleep.diff); without the patch it passes,
//                                          because the refresh then falls in the middle of a period

import (
	"runtime"
	"strings"
	"sync"
	"sync/atomic"
	"testing"
	"time"
)

// goroutines that are inside the loop of SetInterval
func intervalLoops() (int, string) {
	buf := make([]byte, 1<<22)
	buf = buf[:runtime.Stack(buf, true)]
	n, sample := 0, ""
	for _, g := range strings.Split(string(buf), "\n\n") {
		if strings.Contains(g, "utils.SetInterval.func1") {
			n++
			sample = g
		}
	}
	return n, sample
}

// An interval is refreshed at about the instant a tick is due, some ticks
// later it is stopped. Once Stop has returned, no goroutine of the interval
// may be left. No sleep in the library: the due instant is hit by aiming.
func TestIntervalRefreshAtTickLeaksLoop(t *testing.T) {
	const period = 300 * time.Microsecond
	const workers, rounds, refreshes = 8, 300, 20

	var wg sync.WaitGroup
	var ticks atomic.Int64
	for w := 0; w < workers; w++ {
		wg.Add(1)
		go func(w int) {
			defer wg.Done()
			for round := 0; round < rounds; round++ {
				iv := SetInterval(func() { ticks.Add(1) }, period)
				due := time.Now().Add(period)
				for i := 0; i < refreshes; i++ {
					// -5 .. +15 microseconds around the due instant
					aim := due.Add(time.Duration((round+i+w)%21-5) * time.Microsecond)
					for time.Now().Before(aim) {
					}
					iv.Refresh()
					due = time.Now().Add(period)
				}
				iv.Stop()
				iv.Stop() // a repeated cancellation does not help either
			}
		}(w)
	}
	wg.Wait()

	// every interval has been stopped; give stragglers ample time
	time.Sleep(300 * time.Millisecond)
	if n, sample := intervalLoops(); n != 0 {
		t.Fatalf("%d of %d stopped intervals left a goroutine parked for ever in the interval loop (callbacks run: %d)\none of them:\n%s",
			n, workers*rounds, ticks.Load(), sample)
	}
}

// The same interleaving, made deterministic by sleep.diff (20 ms between the
// receipt of the tick and the re-arm in SetInterval).
//
//	t=0      SetInterval(50ms)
//	t=50ms   tick taken by the loop goroutine G1 (with the patch: G1 sleeps until 70ms)
//	t=60ms   Refresh: timer.Stop() reports false (tick already taken) -> go t.fn() = second loop G2
//	t=300ms  Stop: wakes exactly one of G1/G2; the other one stays parked for ever
func TestIntervalRefreshAtTickDeterministic(t *testing.T) {
	var ticks atomic.Int64
	base, _ := intervalLoops() // what an earlier test of this file may have left behind
	iv := SetInterval(func() { ticks.Add(1) }, 50*time.Millisecond)
	time.Sleep(60 * time.Millisecond)
	iv.Refresh()
	if n, _ := intervalLoops(); n-base != 1 {
		t.Errorf("after Refresh: %d goroutines serve one interval, want 1", n-base)
	}
	time.Sleep(240 * time.Millisecond)
	iv.Stop()
	iv.Stop()
	time.Sleep(200 * time.Millisecond)
	if n, sample := intervalLoops(); n-base != 0 {
		t.Fatalf("after Stop: %d goroutine(s) of the interval left behind (callbacks run: %d)\n%s", n-base, ticks.Load(), sample)
	}
}

// Timer.Unref panics on every call: runtime.AddCleanup refuses arg == ptr.
func TestUnrefPanics(t *testing.T) {
	tm := SetTimeout(func() {}, time.Hour)
	defer tm.Stop()
	defer func() {
		if r := recover(); r != nil {
			t.Fatalf("Timer.Unref panicked: %v", r)
		}
	}()
	tm.Unref()
}
