package utils

// Secondary observation (see finding.md, section 3). Place in utils/ and run
//
//	export GOFLAGS=-mod=mod GOPROXY=off; unset GOWORK
//	go test -vet=off -count=1 -run 'TestStopAtDue' -v ./utils/
//
// Both fail on the unmodified tree without any sleep (interval: dozens of hits
// per run, timeout: a handful).

import (
	"sync"
	"sync/atomic"
	"testing"
	"time"
)

func stopAtDue(t *testing.T, set func(func(), time.Duration) *Timer, what string) {
	const period = 300 * time.Microsecond
	var late atomic.Int64
	var wg sync.WaitGroup
	for w := 0; w < 8; w++ {
		wg.Add(1)
		go func(w int) {
			defer wg.Done()
			for round := 0; round < 2000; round++ {
				var stopped atomic.Bool
				tm := set(func() {
					if stopped.Load() { // first statement of the callback
						late.Add(1)
					}
				}, period)
				aim := time.Now().Add(period + time.Duration((round+w)%41-10)*time.Microsecond)
				for time.Now().Before(aim) {
				}
				tm.Stop()
				stopped.Store(true) // Stop has returned
			}
		}(w)
	}
	wg.Wait()
	time.Sleep(100 * time.Millisecond)
	if n := late.Load(); n != 0 {
		t.Fatalf("%d %s callback(s) started after Stop had returned", n, what)
	}
}

func TestStopAtDueInterval(t *testing.T) { stopAtDue(t, SetInterval, "interval") }
func TestStopAtDueTimeout(t *testing.T)  { stopAtDue(t, SetTimeout, "timeout") }
