package webtransport

// Demonstration for finding.md (H3-C13): a prepared message overtakes the
// message of a streaming writer that is still open, although every other
// write entry point (NextWriter, WriteMessage on both roles) first completes
// the open writer's message.
//
// Place in webtransport/ and run
//   export GOFLAGS=-mod=mod GOPROXY=off; unset GOWORK
//   go test -vet=off -count=1 -run TestPreparedMessageKeepsWriteOrder ./webtransport/

import (
	"bytes"
	"io"
	"testing"
	"time"

	"github.com/zishang520/webtransport-go"
)

type orderStream struct {
	webtransport.Stream // nil: only the methods below are used
	buf                 bytes.Buffer
}

func (s *orderStream) Write(p []byte) (int, error)        { return s.buf.Write(p) }
func (s *orderStream) Read(p []byte) (int, error)         { return s.buf.Read(p) }
func (s *orderStream) SetWriteDeadline(t time.Time) error { return nil }
func (s *orderStream) SetReadDeadline(t time.Time) error  { return nil }

func TestPreparedMessageKeepsWriteOrder(t *testing.T) {
	for _, isServer := range []bool{true, false} {
		wire := &orderStream{}
		wc := NewConn(nil, wire, isServer, 0, 0, nil, nil, nil)

		// message 1: streaming writer, one byte, not closed yet (NextWriter's
		// contract: the next write entry point closes it)
		w, err := wc.NextWriter(TextMessage)
		if err != nil {
			t.Fatal(err)
		}
		if _, err := w.Write([]byte("A")); err != nil {
			t.Fatal(err)
		}
		// message 2: prepared
		pm, err := NewPreparedMessage(TextMessage, []byte("B"))
		if err != nil {
			t.Fatal(err)
		}
		if err := wc.WritePreparedMessage(pm); err != nil {
			t.Fatal(err)
		}
		// message 3: one-shot (this one does close the open writer first)
		if err := wc.WriteMessage(TextMessage, []byte("C")); err != nil {
			t.Fatal(err)
		}

		rc := NewConn(nil, wire, !isServer, 0, 0, nil, nil, nil)
		var got string
		for i := 0; i < 3; i++ {
			_, r, err := rc.NextReader()
			if err != nil {
				t.Fatalf("isServer=%v: message %d: %v", isServer, i, err)
			}
			p, err := io.ReadAll(r)
			if err != nil {
				t.Fatalf("isServer=%v: message %d: %v", isServer, i, err)
			}
			got += string(p)
		}
		if got != "ABC" {
			t.Errorf("isServer=%v: messages written in the order A,B,C were read as %q", isServer, got)
		}
	}
}
